//! C16 sanitizer workload: the threaded dot product under Miri (data-race detector + seeded scheduler,
//! -Zmiri-num-cpus=N makes the library spawn N workers) and under ThreadSanitizer (native).
//! usage: ohsl-dot-sanitize <max_len> <seed> [<lens...>]
//! Exit code 0: every oracle held; 1: an oracle failed (message "ORACLE-FAIL ..." on stderr).
use ohsl::Vector;

fn exact(a: &[f64], b: &[f64]) -> i128 { a.iter().zip(b).map(|(x, y)| (*x as i128) * (*y as i128)).sum() }

fn main() {
    let args: Vec<String> = std::env::args().collect();
    let max_len: usize = args.get(1).and_then(|s| s.parse().ok()).unwrap_or(12);
    let seed: u64 = args.get(2).and_then(|s| s.parse().ok()).unwrap_or(1);
    let mut lens: Vec<usize> = args.iter().skip(3).filter_map(|s| s.parse().ok()).collect();
    if lens.is_empty() { lens = (0..=max_len).collect(); }
    let mut fails = 0u32;
    let mut calls = 0u32;
    #[cfg(feature = "hooks")]
    let orders = std::rc::Rc::new(std::cell::RefCell::new(std::collections::BTreeSet::<String>::new()));
    for &len in &lens {
        let a: Vec<f64> = (0..len).map(|i| (i + 1) as f64).collect();
        let b: Vec<f64> = (0..len).map(|i| ((2 * i + 1) as f64) * if (i as u64 + seed) % 3 == 0 { -1.0 } else { 1.0 }).collect();
        let (va, vb) = (Vector::create(a.clone()), Vector::create(b.clone()));
        let seq = va.dot(&vb);
        let ex = exact(&a, &b);
        let mut first: Option<u64> = None;
        for rep in 0..2 {
            #[cfg(feature = "hooks")]
            {
                let o2 = orders.clone();
                let cur = std::rc::Rc::new(std::cell::RefCell::new(Vec::<(usize, usize)>::new()));
                let c2 = cur.clone();
                ohsl::verif::set_sink(Box::new(move |ev| match ev {
                    ohsl::verif::Event::DotDone { worker, ticket } => c2.borrow_mut().push((ticket, worker)),
                    ohsl::verif::Event::DotEnd => { let mut v = c2.borrow().clone(); v.sort(); o2.borrow_mut().insert(v.iter().map(|x| x.1.to_string()).collect::<Vec<_>>().join(",")); c2.borrow_mut().clear(); }
                    _ => {}
                }));
            }
            let v = va.dot_f64(&vb);
            calls += 1;
            if v.to_bits() != seq.to_bits() || v != ex as f64 {
                eprintln!("ORACLE-FAIL len={} rep={} dot_f64={:e} dot={:e} exact={}", len, rep, v, seq, ex);
                fails += 1;
            }
            match first { None => first = Some(v.to_bits()), Some(f) => if f != v.to_bits() { eprintln!("ORACLE-FAIL len={} repeated call differs", len); fails += 1; } }
        }
    }
    // two caller threads inside dot_f64 at the same time, each on its own exact data: state shared BETWEEN calls (statics,
    // caches, scratch areas) is what the race detector and the oracle look at here
    #[cfg(not(feature = "hooks"))]
    {
        let clens: Vec<usize> = vec![max_len, max_len / 2 + 1, 3.min(max_len)];
        let results: Vec<(u32, u32)> = std::thread::scope(|sc| {
            let hs: Vec<_> = (0..2u64).map(|t| { let clens = clens.clone(); sc.spawn(move || {
                let (mut c, mut f) = (0u32, 0u32);
                for &len in &clens {
                    let a: Vec<f64> = (0..len).map(|i| (i as u64 + 2 + t) as f64).collect();
                    let b: Vec<f64> = (0..len).map(|i| ((3 * i + 1) as f64) * if (i as u64 + seed + t) % 2 == 0 { -1.0 } else { 1.0 }).collect();
                    let ex = exact(&a, &b);
                    let v = Vector::create(a).dot_f64(&Vector::create(b));
                    c += 1;
                    if v != ex as f64 { eprintln!("ORACLE-FAIL concurrent caller {} len={} dot_f64={:e} exact={}", t, len, v, ex); f += 1; }
                }
                (c, f)
            }) }).collect();
            hs.into_iter().map(|h| h.join().unwrap()).collect()
        });
        for (c, f) in results { calls += c; fails += f; }
    }
    #[cfg(feature = "hooks")]
    { ohsl::verif::clear_sink(); let o = orders.borrow(); eprintln!("ORDERS {}", o.iter().cloned().collect::<Vec<_>>().join(";")); }
    eprintln!("DOT-SANITIZE calls={} fails={} workers={}", calls, fails, num_cpus_hint());
    if fails > 0 { std::process::exit(1); }
}

fn num_cpus_hint() -> usize { std::thread::available_parallelism().map(|n| n.get()).unwrap_or(0) }
