"""Property-specific sanitizer stages run by ./check after the monitor binary.

C16: the threaded dot product under Miri (data-race detector + randomised seeded scheduler; -Zmiri-num-cpus
makes ohsl spawn that many workers) on a hook-free build, a hooked Miri run that only COUNTS the distinct
worker-completion orders Miri's scheduler produced, and (thorough) a ThreadSanitizer build swept over CPU
affinities. Timeouts / build failures are 'inconclusive', never violations.
"""
import os, re, subprocess, time

ROOT = os.path.dirname(os.path.abspath(__file__))
MIRI_DIR = os.path.join(ROOT, "miri")


def _run(cmd, env, timeout, cwd=MIRI_DIR):
    try:
        p = subprocess.run(cmd, cwd=cwd, env=env, stdout=subprocess.PIPE, stderr=subprocess.STDOUT, text=True, timeout=timeout)
        return p.returncode, p.stdout
    except subprocess.TimeoutExpired as e:
        return None, (e.stdout or "") if isinstance(e.stdout, str) else ""


def _popen(cmd, env, cwd=MIRI_DIR):
    return subprocess.Popen(cmd, cwd=cwd, env=env, stdout=subprocess.PIPE, stderr=subprocess.STDOUT, text=True)


def c16_stage(tier, seed, env, log):
    ev = {"miri_hook_free": [], "miri_hooked": {}, "tsan": None}
    inconclusive, violations = [], []
    base = dict(env)
    base["CARGO_TARGET_DIR"] = os.path.join(ROOT, ".target", "miri")
    t0 = time.time()
    if tier == "quick":
        cpus, nseeds, maxlen, hooked_cpus, hooked_seeds, tmo = [1, 2, 3, 5], 4, 7, 4, 8, 900
    else:
        cpus, nseeds, maxlen, hooked_cpus, hooked_seeds, tmo = list(range(1, 17)), 32, 24, 6, 64, 4 * 3600
    s0 = (seed * 1000) % 1_000_000
    # build once (also warms the Miri sysroot); a failure here is inconclusive
    e = dict(base); e["MIRIFLAGS"] = "-Zmiri-num-cpus=1"
    rc, out = _run(["cargo", "+nightly", "miri", "run", "--offline", "--quiet", "--", "1", "1"], e, 1200)
    if rc != 0:
        log(out[-3000:])
        return {"evidence": ev, "inconclusive": ["miri-build-or-smoke-run-failed"], "violations": []}
    # hook-free race-detection runs, a few at a time
    pending = []
    for k in cpus:
        e = dict(base)
        e["MIRIFLAGS"] = f"-Zmiri-num-cpus={k} -Zmiri-many-seeds={s0}..{s0 + nseeds}"
        pending.append((k, e))
    running = []
    results = []
    maxpar = 4
    deadline = time.time() + tmo
    while pending or running:
        while pending and len(running) < maxpar:
            k, e = pending.pop(0)
            running.append((k, _popen(["cargo", "+nightly", "miri", "run", "--offline", "--quiet", "--", str(maxlen), str(seed)], e), time.time()))
        for item in list(running):
            k, p, ts = item
            if p.poll() is not None:
                results.append((k, p.returncode, p.stdout.read()))
                running.remove(item)
        if time.time() > deadline:
            for k, p, ts in running:
                p.kill()
            inconclusive.append("miri-watchdog-fired")
            break
        time.sleep(0.2)
    for k, rc, out in sorted(results):
        seeds_run = len(re.findall(r"Trying seed", out))
        done = len(re.findall(r"DOT-SANITIZE", out))
        race = bool(re.search(r"Data race detected|Undefined Behavior|error: unsupported operation|deadlock", out))
        oracle = bool(re.search(r"ORACLE-FAIL", out))
        ev["miri_hook_free"].append({"workers": k, "seeds": seeds_run, "executions_completed": done, "exit": rc,
                                     "lengths": f"0..{maxlen}", "calls_per_execution": 2 * (maxlen + 1) + 6, "concurrent_caller_threads": 2,
                                     "data_race_or_ub_reports": int(race), "oracle_failures": int(oracle)})
        if race:
            m = re.search(r"(error: .*(?:Data race|Undefined Behavior)[^\n]*)", out)
            violations.append({"signature": f"C16:miri:data-race-or-UB", "what": f"Miri workers={k}: {(m.group(1) if m else out[-800:])}", "replay_cmd": f"cd miri && MIRIFLAGS='-Zmiri-num-cpus={k} -Zmiri-many-seeds={s0}..{s0 + nseeds}' cargo +nightly miri run --offline -- {maxlen} {seed}", "log_tail": out[-3000:]})
        elif oracle:
            m = re.search(r"(ORACLE-FAIL[^\n]*)", out)
            violations.append({"signature": "C16:miri:oracle", "what": f"Miri workers={k}: {m.group(1)}", "replay_cmd": f"cd miri && MIRIFLAGS='-Zmiri-num-cpus={k} -Zmiri-many-seeds={s0}..{s0 + nseeds}' cargo +nightly miri run --offline -- {maxlen} {seed}", "log_tail": out[-3000:]})
        elif rc != 0 or done == 0:
            inconclusive.append(f"miri-run-failed:workers={k}:exit={rc}")
            log(out[-1500:])
    # hooked run: count the interleavings (completion orders) Miri produced
    e = dict(base)
    e["MIRIFLAGS"] = f"-Zmiri-num-cpus={hooked_cpus} -Zmiri-many-seeds={s0}..{s0 + hooked_seeds}"
    rc, out = _run(["cargo", "+nightly", "miri", "run", "--offline", "--quiet", "--features", "hooks", "--", str(min(maxlen, 9)), str(seed)], e, tmo)
    orders = set()
    for line in re.findall(r"ORDERS ([0-9,;]*)", out or ""):
        for o in line.split(";"):
            # output of parallel seeds can interleave: keep only well-formed permutations of 0..k-1
            try:
                if o and sorted(int(t) for t in o.split(",")) == list(range(hooked_cpus)):
                    orders.add(o)
            except ValueError:
                pass
    ev["miri_hooked"] = {"workers": hooked_cpus, "seeds": hooked_seeds, "exit": rc, "distinct_completion_orders": len(orders),
                         "sample_orders": sorted(orders)[:8]}
    if rc is None:
        inconclusive.append("miri-hooked-watchdog-fired")
    elif rc != 0:
        if re.search(r"ORACLE-FAIL", out):
            violations.append({"signature": "C16:miri:oracle", "what": "hooked Miri run: " + re.search(r"(ORACLE-FAIL[^\n]*)", out).group(1), "log_tail": out[-3000:]})
        elif re.search(r"Data race detected|Undefined Behavior", out):
            violations.append({"signature": "C16:miri:data-race-or-UB", "what": "hooked Miri run: " + out[-800:], "log_tail": out[-3000:]})
        else:
            inconclusive.append("miri-hooked-run-failed")
            log(out[-1500:])
    ev["miri_wall_s"] = round(time.time() - t0, 1)
    # ThreadSanitizer (thorough only): native sweep over affinities
    if tier == "thorough":
        t1 = time.time()
        e = dict(env)
        e["CARGO_TARGET_DIR"] = os.path.join(ROOT, ".target", "tsan")
        e["RUSTFLAGS"] = "-Zsanitizer=thread"
        rc, out = _run(["cargo", "+nightly", "build", "--offline", "--quiet", "--release", "-Zbuild-std", "--target", "x86_64-unknown-linux-gnu"], e, 3600)
        binary = os.path.join(ROOT, ".target", "tsan", "x86_64-unknown-linux-gnu", "release", "ohsl-dot-sanitize")
        if rc != 0 or not os.path.exists(binary):
            inconclusive.append("tsan-build-failed")
            log((out or "")[-2000:])
        else:
            ncpu = len(os.sched_getaffinity(0))
            reports, runs = 0, 0
            te = dict(env); te["TSAN_OPTIONS"] = "halt_on_error=1 exitcode=66"
            for k in range(1, min(16, ncpu) + 1):
                for rep in range(3):
                    rc, out = _run(["taskset", "-c", f"0-{k-1}", binary, "96", str(seed + rep)], te, 600, cwd=ROOT)
                    runs += 1
                    if rc == 66 or (out and "ThreadSanitizer" in out):
                        reports += 1
                        violations.append({"signature": "C16:tsan:data-race", "what": f"ThreadSanitizer report with {k} CPUs: {(out or '')[-1200:]}", "log_tail": (out or "")[-3000:]})
                        break
                    if rc == 1 and out and "ORACLE-FAIL" in out:
                        violations.append({"signature": "C16:tsan:oracle", "what": f"{k} CPUs: " + re.search(r"(ORACLE-FAIL[^\n]*)", out).group(1), "log_tail": out[-3000:]})
                        break
                    if rc not in (0,):
                        inconclusive.append(f"tsan-run-failed:cpus={k}:exit={rc}")
                        break
            ev["tsan"] = {"runs": runs, "cpu_counts": f"1..{min(16, ncpu)}", "lengths": "0..96", "reports": reports, "wall_s": round(time.time() - t1, 1)}
    # de-duplicate violations by signature
    seen, uniq = set(), []
    for v in violations:
        if v["signature"] not in seen:
            seen.add(v["signature"]); uniq.append(v)
    return {"evidence": ev, "inconclusive": inconclusive, "violations": uniq}


EXTRA = {"C16": c16_stage}
