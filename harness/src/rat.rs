//! Exact element types used to instantiate the *real generic ohsl code*:
//! `Rat` (i128 rational, checked arithmetic) and `CRat` (exact complex rational).
//! Overflow unwinds with the private payload `RatOverflow` (case is skipped,
//! never a verdict); division by zero is an ordinary panic (a library event).

use ohsl::{Number, One, Signed, Zero};
use std::cmp::Ordering;
use std::fmt;
use std::ops::{Add, AddAssign, Div, DivAssign, Mul, MulAssign, Neg, Sub, SubAssign};

pub struct RatOverflow;

#[inline(never)]
#[cold]
fn overflow() -> ! {
    std::panic::panic_any(RatOverflow)
}

fn gcd(mut a: i128, mut b: i128) -> i128 {
    if a < 0 { a = -a; }
    if b < 0 { b = -b; }
    while b != 0 {
        let t = a % b;
        a = b;
        b = t;
    }
    a
}

#[derive(Clone, Copy, Hash, PartialEq, Eq)]
pub struct Rat {
    pub n: i128,
    pub d: i128,
}

impl Rat {
    pub const ZERO: Rat = Rat { n: 0, d: 1 };
    pub const ONE: Rat = Rat { n: 1, d: 1 };
    #[inline]
    pub fn new(n: i128, d: i128) -> Rat {
        if d == 0 { panic!("Rat: division by zero"); }
        if n == i128::MIN || d == i128::MIN { overflow(); }
        let g = gcd(n, d);
        let (mut n, mut d) = (n / g, d / g);
        if d < 0 { n = -n; d = -d; }
        Rat { n, d }
    }
    #[inline]
    pub fn int(n: i64) -> Rat { Rat { n: n as i128, d: 1 } }
    pub fn is_zero(&self) -> bool { self.n == 0 }
    pub fn to_f64(&self) -> f64 {
        // good enough for diagnostics and envelopes (not used in exact verdicts)
        if self.n.unsigned_abs() < (1u128 << 100) && (self.d as u128) < (1u128 << 100) {
            (self.n as f64) / (self.d as f64)
        } else {
            let sh = 40;
            ((self.n >> sh) as f64) / ((self.d >> sh).max(1) as f64)
        }
    }
    /// Exact conversion of a finite f64 (panics with RatOverflow if it does not fit).
    pub fn from_f64(x: f64) -> Rat {
        if x == 0.0 { return Rat::ZERO; }
        if !x.is_finite() { overflow(); }
        let bits = x.to_bits();
        let sign = if bits >> 63 == 1 { -1i128 } else { 1 };
        let exp = ((bits >> 52) & 0x7ff) as i32;
        let frac = (bits & ((1u64 << 52) - 1)) as i128;
        let (mant, e) = if exp == 0 { (frac, -1074) } else { (frac | (1i128 << 52), exp - 1075) };
        // value = mant * 2^e
        let tz = mant.trailing_zeros() as i32;
        let mant = mant >> tz;
        let e = e + tz;
        if e >= 0 {
            if e > 70 { overflow(); }
            Rat { n: sign * (mant << e), d: 1 }
        } else {
            if -e > 120 { overflow(); }
            Rat::new(sign * mant, 1i128 << (-e))
        }
    }
    /// True if the value is exactly representable as an f64 and returns it.
    pub fn as_exact_f64(&self) -> Option<f64> {
        let x = self.to_f64();
        if !x.is_finite() { return None; }
        let back = std::panic::catch_unwind(|| Rat::from_f64(x));
        match back {
            Ok(r) if r == *self => Some(x),
            _ => None,
        }
    }
    pub fn abs_r(&self) -> Rat { Rat { n: self.n.abs(), d: self.d } }
}

impl Default for Rat { fn default() -> Self { Rat::ZERO } }

impl fmt::Debug for Rat {
    fn fmt(&self, f: &mut fmt::Formatter<'_>) -> fmt::Result {
        if self.d == 1 { write!(f, "{}", self.n) } else { write!(f, "{}/{}", self.n, self.d) }
    }
}
impl fmt::Display for Rat {
    fn fmt(&self, f: &mut fmt::Formatter<'_>) -> fmt::Result { fmt::Debug::fmt(self, f) }
}

impl PartialOrd for Rat {
    fn partial_cmp(&self, o: &Rat) -> Option<Ordering> { Some(self.cmp(o)) }
}
impl Ord for Rat {
    fn cmp(&self, o: &Rat) -> Ordering {
        let a = self.n.checked_mul(o.d).unwrap_or_else(|| overflow());
        let b = o.n.checked_mul(self.d).unwrap_or_else(|| overflow());
        a.cmp(&b)
    }
}

impl Add for Rat {
    type Output = Rat;
    #[inline]
    fn add(self, o: Rat) -> Rat {
        if self.d == 1 && o.d == 1 {
            return Rat { n: self.n.checked_add(o.n).unwrap_or_else(|| overflow()), d: 1 };
        }
        let g = gcd(self.d, o.d);
        let od = o.d / g;
        let sd = self.d / g;
        let a = self.n.checked_mul(od).unwrap_or_else(|| overflow());
        let b = o.n.checked_mul(sd).unwrap_or_else(|| overflow());
        let n = a.checked_add(b).unwrap_or_else(|| overflow());
        let d = self.d.checked_mul(od).unwrap_or_else(|| overflow());
        Rat::new(n, d)
    }
}
impl Neg for Rat {
    type Output = Rat;
    #[inline]
    fn neg(self) -> Rat { Rat { n: -self.n, d: self.d } }
}
impl Sub for Rat {
    type Output = Rat;
    #[inline]
    fn sub(self, o: Rat) -> Rat { self + (-o) }
}
impl Mul for Rat {
    type Output = Rat;
    #[inline]
    fn mul(self, o: Rat) -> Rat {
        if self.d == 1 && o.d == 1 {
            return Rat { n: self.n.checked_mul(o.n).unwrap_or_else(|| overflow()), d: 1 };
        }
        let g1 = gcd(self.n, o.d).max(1);
        let g2 = gcd(o.n, self.d).max(1);
        let n = (self.n / g1).checked_mul(o.n / g2).unwrap_or_else(|| overflow());
        let d = (self.d / g2).checked_mul(o.d / g1).unwrap_or_else(|| overflow());
        Rat::new(n, d)
    }
}
impl Div for Rat {
    type Output = Rat;
    #[inline]
    fn div(self, o: Rat) -> Rat {
        if o.n == 0 { panic!("Rat: division by zero"); }
        let inv = if o.n < 0 { Rat { n: -o.d, d: -o.n } } else { Rat { n: o.d, d: o.n } };
        self * inv
    }
}
impl AddAssign for Rat { #[inline] fn add_assign(&mut self, o: Rat) { *self = *self + o; } }
impl SubAssign for Rat { #[inline] fn sub_assign(&mut self, o: Rat) { *self = *self - o; } }
impl MulAssign for Rat { #[inline] fn mul_assign(&mut self, o: Rat) { *self = *self * o; } }
impl DivAssign for Rat { #[inline] fn div_assign(&mut self, o: Rat) { *self = *self / o; } }

impl Zero for Rat { fn zero() -> Rat { Rat::ZERO } }
impl One for Rat { fn one() -> Rat { Rat::ONE } }
impl Number for Rat {}
impl Signed for Rat {
    fn abs(&self) -> Rat { self.abs_r() }
}

/// Exact complex rational. `Signed::abs` is the 1-norm |re|+|im| (a valid
/// magnitude for pivoting, and deliberately *not* +-self); ordering is
/// lexicographic like ohsl's Complex.
#[derive(Clone, Copy, Hash, PartialEq, Eq, Default)]
pub struct CRat {
    pub re: Rat,
    pub im: Rat,
}
impl CRat {
    pub fn new(re: Rat, im: Rat) -> CRat { CRat { re, im } }
    pub fn is_zero(&self) -> bool { self.re.is_zero() && self.im.is_zero() }
}
impl fmt::Debug for CRat {
    fn fmt(&self, f: &mut fmt::Formatter<'_>) -> fmt::Result { write!(f, "({:?},{:?})", self.re, self.im) }
}
impl fmt::Display for CRat {
    fn fmt(&self, f: &mut fmt::Formatter<'_>) -> fmt::Result { fmt::Debug::fmt(self, f) }
}
impl PartialOrd for CRat {
    fn partial_cmp(&self, o: &CRat) -> Option<Ordering> {
        if self.re != o.re { self.re.partial_cmp(&o.re) } else { self.im.partial_cmp(&o.im) }
    }
}
impl Add for CRat { type Output = CRat; fn add(self, o: CRat) -> CRat { CRat::new(self.re + o.re, self.im + o.im) } }
impl Sub for CRat { type Output = CRat; fn sub(self, o: CRat) -> CRat { CRat::new(self.re - o.re, self.im - o.im) } }
impl Neg for CRat { type Output = CRat; fn neg(self) -> CRat { CRat::new(-self.re, -self.im) } }
impl Mul for CRat {
    type Output = CRat;
    fn mul(self, o: CRat) -> CRat {
        CRat::new(self.re * o.re - self.im * o.im, self.re * o.im + self.im * o.re)
    }
}
impl Div for CRat {
    type Output = CRat;
    fn div(self, o: CRat) -> CRat {
        let den = o.re * o.re + o.im * o.im;
        if den.is_zero() { panic!("CRat: division by zero"); }
        CRat::new((self.re * o.re + self.im * o.im) / den, (self.im * o.re - self.re * o.im) / den)
    }
}
impl AddAssign for CRat { fn add_assign(&mut self, o: CRat) { *self = *self + o; } }
impl SubAssign for CRat { fn sub_assign(&mut self, o: CRat) { *self = *self - o; } }
impl MulAssign for CRat { fn mul_assign(&mut self, o: CRat) { *self = *self * o; } }
impl DivAssign for CRat { fn div_assign(&mut self, o: CRat) { *self = *self / o; } }
impl Zero for CRat { fn zero() -> CRat { CRat::default() } }
impl One for CRat { fn one() -> CRat { CRat::new(Rat::ONE, Rat::ZERO) } }
impl Number for CRat {}
impl Signed for CRat {
    fn abs(&self) -> CRat { CRat::new(self.re.abs_r() + self.im.abs_r(), Rat::ZERO) }
}

/// Common interface of the exact element types (harness side only).
pub trait Exact:
    Copy + Number + Signed + PartialOrd + fmt::Debug + fmt::Display + Default + Send + Sync + 'static
{
    const NAME: &'static str;
    fn from_int(n: i64) -> Self;
    fn from_parts(a: Rat, b: Rat) -> Self;
    fn is_zero_e(&self) -> bool;
    fn hash_u64(&self) -> u64;
    fn is_complex() -> bool;
}
fn mixh(mut h: u64, v: u64) -> u64 {
    h ^= v.wrapping_mul(0x9E3779B97F4A7C15);
    h = h.rotate_left(27).wrapping_mul(0xBF58476D1CE4E5B9);
    h
}
impl Exact for Rat {
    const NAME: &'static str = "Rat";
    fn from_int(n: i64) -> Rat { Rat::int(n) }
    fn from_parts(a: Rat, _b: Rat) -> Rat { a }
    fn is_zero_e(&self) -> bool { self.n == 0 }
    fn hash_u64(&self) -> u64 { mixh(mixh(1, self.n as u64), self.d as u64) }
    fn is_complex() -> bool { false }
}
impl Exact for CRat {
    const NAME: &'static str = "CRat";
    fn from_int(n: i64) -> CRat { CRat::new(Rat::int(n), Rat::ZERO) }
    fn from_parts(a: Rat, b: Rat) -> CRat { CRat::new(a, b) }
    fn is_zero_e(&self) -> bool { self.is_zero() }
    fn hash_u64(&self) -> u64 { mixh(self.re.hash_u64(), self.im.hash_u64()) }
    fn is_complex() -> bool { true }
}
