//! Small deterministic PRNG (xoshiro256** seeded by SplitMix64); no external crate.

#[derive(Clone)]
pub struct Rng { s: [u64; 4] }

pub fn splitmix(x: &mut u64) -> u64 {
    *x = x.wrapping_add(0x9E3779B97F4A7C15);
    let mut z = *x;
    z = (z ^ (z >> 30)).wrapping_mul(0xBF58476D1CE4E5B9);
    z = (z ^ (z >> 27)).wrapping_mul(0x94D049BB133111EB);
    z ^ (z >> 31)
}

pub fn mix(a: u64, b: u64) -> u64 {
    let mut x = a ^ b.wrapping_mul(0x9E3779B97F4A7C15).rotate_left(23);
    splitmix(&mut x)
}

pub fn hash_bytes(h0: u64, bytes: &[u8]) -> u64 {
    let mut h = h0 ^ 0xcbf29ce484222325;
    for &b in bytes { h ^= b as u64; h = h.wrapping_mul(0x100000001b3); }
    mix(h, bytes.len() as u64)
}

impl Rng {
    pub fn new(seed: u64) -> Rng {
        let mut x = seed;
        Rng { s: [splitmix(&mut x), splitmix(&mut x), splitmix(&mut x), splitmix(&mut x)] }
    }
    #[inline]
    pub fn u64(&mut self) -> u64 {
        let r = self.s[1].wrapping_mul(5).rotate_left(7).wrapping_mul(9);
        let t = self.s[1] << 17;
        self.s[2] ^= self.s[0];
        self.s[3] ^= self.s[1];
        self.s[1] ^= self.s[2];
        self.s[0] ^= self.s[3];
        self.s[2] ^= t;
        self.s[3] = self.s[3].rotate_left(45);
        r
    }
    /// uniform in 0..n (n > 0)
    #[inline]
    pub fn below(&mut self, n: u64) -> u64 { ((self.u64() as u128 * n as u128) >> 64) as u64 }
    #[inline]
    pub fn usize(&mut self, lo: usize, hi_incl: usize) -> usize { lo + self.below((hi_incl - lo + 1) as u64) as usize }
    #[inline]
    pub fn int(&mut self, lo: i64, hi_incl: i64) -> i64 { lo + self.below((hi_incl - lo + 1) as u64) as i64 }
    #[inline]
    pub fn bool(&mut self) -> bool { self.u64() >> 63 == 1 }
    /// true with probability p
    #[inline]
    pub fn chance(&mut self, p: f64) -> bool { self.unit() < p }
    /// uniform in [0,1)
    #[inline]
    pub fn unit(&mut self) -> f64 { (self.u64() >> 11) as f64 / (1u64 << 53) as f64 }
    /// uniform in [lo,hi)
    #[inline]
    pub fn range(&mut self, lo: f64, hi: f64) -> f64 { lo + (hi - lo) * self.unit() }
    /// uniform in [-1,1)
    #[inline]
    pub fn sym(&mut self) -> f64 { 2.0 * self.unit() - 1.0 }
    /// log-uniform magnitude in [lo,hi] (lo>0), random sign
    pub fn logmag(&mut self, lo: f64, hi: f64) -> f64 {
        let m = (lo.ln() + (hi.ln() - lo.ln()) * self.unit()).exp();
        if self.bool() { m } else { -m }
    }
    pub fn logpos(&mut self, lo: f64, hi: f64) -> f64 { (lo.ln() + (hi.ln() - lo.ln()) * self.unit()).exp() }
    /// approximately standard normal
    pub fn normal(&mut self) -> f64 {
        let u1 = (self.unit()).max(1e-300);
        let u2 = self.unit();
        (-2.0 * u1.ln()).sqrt() * (std::f64::consts::TAU * u2).cos()
    }
    pub fn pick<'a, T>(&mut self, xs: &'a [T]) -> &'a T { &xs[self.below(xs.len() as u64) as usize] }
    pub fn shuffle<T>(&mut self, xs: &mut [T]) {
        for i in (1..xs.len()).rev() {
            let j = self.below(i as u64 + 1) as usize;
            xs.swap(i, j);
        }
    }
    pub fn perm(&mut self, n: usize) -> Vec<usize> {
        let mut p: Vec<usize> = (0..n).collect();
        self.shuffle(&mut p);
        p
    }
    /// nonzero integer in [-m,m]
    pub fn nzint(&mut self, m: i64) -> i64 {
        let v = self.int(1, m);
        if self.bool() { v } else { -v }
    }
    /// dyadic rational k/2^s with |k| <= m
    pub fn dyadic(&mut self, m: i64, s: u32) -> f64 { self.int(-m, m) as f64 / (1u64 << s) as f64 }
}

/// All permutations of 0..n (n <= 8), Heap's algorithm, deterministic order.
pub fn permutations(n: usize) -> Vec<Vec<usize>> {
    fn rec(k: usize, a: &mut Vec<usize>, out: &mut Vec<Vec<usize>>) {
        if k <= 1 { out.push(a.clone()); return; }
        for i in 0..k {
            rec(k - 1, a, out);
            if k % 2 == 0 { a.swap(i, k - 1); } else { a.swap(0, k - 1); }
        }
    }
    let mut a: Vec<usize> = (0..n).collect();
    let mut out = Vec::new();
    rec(n, &mut a, &mut out);
    out
}
