//! Naive reference models (dense matrix as Vec<Vec<T>>) with textbook loops,
//! written independently of ohsl's row-major storage and helper routines.

use crate::rat::Exact;
use ohsl::{Matrix, Number, Vector};
use std::fmt::Debug;

#[derive(Clone, PartialEq, Debug)]
pub struct DM<T> {
    pub r: usize,
    pub c: usize,
    pub a: Vec<Vec<T>>,
}

impl<T: Copy + Number + Debug> DM<T> {
    pub fn new(r: usize, c: usize, v: T) -> DM<T> { DM { r, c, a: vec![vec![v; c]; r] } }
    pub fn from_fn(r: usize, c: usize, mut f: impl FnMut(usize, usize) -> T) -> DM<T> {
        let mut a = Vec::with_capacity(r);
        for i in 0..r { let mut row = Vec::with_capacity(c); for j in 0..c { row.push(f(i, j)); } a.push(row); }
        DM { r, c, a }
    }
    pub fn eye(n: usize) -> DM<T> { DM::from_fn(n, n, |i, j| if i == j { T::one() } else { T::zero() }) }
    pub fn to_ohsl(&self) -> Matrix<T> {
        let mut m = Matrix::<T>::new(self.r, self.c, T::zero());
        for i in 0..self.r { for j in 0..self.c { m[(i, j)] = self.a[i][j]; } }
        m
    }
    pub fn from_ohsl(m: &Matrix<T>) -> DM<T> {
        let (r, c) = (m.rows(), m.cols());
        DM::from_fn(r, c, |i, j| m[(i, j)])
    }
    /// shape + entries equal (entries read through the public index operator)
    pub fn eq_ohsl(&self, m: &Matrix<T>) -> bool {
        if m.rows() != self.r || m.cols() != self.c { return false; }
        for i in 0..self.r { for j in 0..self.c { if m[(i, j)] != self.a[i][j] { return false; } } }
        true
    }
    pub fn mul(&self, o: &DM<T>) -> DM<T> {
        assert_eq!(self.c, o.r);
        DM::from_fn(self.r, o.c, |i, j| { let mut s = T::zero(); for k in 0..self.c { s = s + self.a[i][k] * o.a[k][j]; } s })
    }
    pub fn mulvec(&self, v: &[T]) -> Vec<T> {
        assert_eq!(self.c, v.len());
        (0..self.r).map(|i| { let mut s = T::zero(); for k in 0..self.c { s = s + self.a[i][k] * v[k]; } s }).collect()
    }
    pub fn transpose(&self) -> DM<T> { DM::from_fn(self.c, self.r, |i, j| self.a[j][i]) }
    pub fn is_identity(&self) -> bool {
        self.r == self.c && (0..self.r).all(|i| (0..self.c).all(|j| self.a[i][j] == if i == j { T::one() } else { T::zero() }))
    }
    pub fn show(&self) -> String { format!("{}x{}{:?}", self.r, self.c, self.a) }
}

pub fn vec_to_ohsl<T: Clone>(v: &[T]) -> Vector<T> { Vector::create(v.to_vec()) }

/// Exact elimination (first non-zero pivot; independent of magnitude pivoting).
/// Returns (determinant, rank, Some(inverse) if nonsingular).
pub fn exact_det_rank_inv<E: Exact>(m: &DM<E>) -> (E, usize, Option<DM<E>>) {
    assert_eq!(m.r, m.c);
    let n = m.r;
    let mut a = m.a.clone();
    let mut inv = DM::<E>::eye(n).a;
    let mut det = E::one();
    let mut rank = 0;
    let mut row = 0;
    for col in 0..n {
        let mut p = None;
        for i in row..n { if !a[i][col].is_zero_e() { p = Some(i); break; } }
        let p = match p { Some(p) => p, None => { det = E::zero(); continue; } };
        if p != row { a.swap(p, row); inv.swap(p, row); det = -det; }
        let piv = a[row][col];
        det = det * piv;
        for j in 0..n { a[row][j] = a[row][j] / piv; inv[row][j] = inv[row][j] / piv; }
        for i in 0..n {
            if i != row && !a[i][col].is_zero_e() {
                let f = a[i][col];
                for j in 0..n {
                    let t = a[row][j]; a[i][j] = a[i][j] - f * t;
                    let t = inv[row][j]; inv[i][j] = inv[i][j] - f * t;
                }
            }
        }
        row += 1;
        rank += 1;
    }
    if rank == n { (det, rank, Some(DM { r: n, c: n, a: inv })) } else { (E::zero(), rank, None) }
}

/// Sequence of row exchanges performed by *magnitude* partial pivoting with the
/// "first strictly larger" tie rule on exact data. Used only as evidence
/// (which elimination steps need an exchange), never as an oracle.
pub fn exchange_mask<E: Exact>(m: &DM<E>) -> Option<u32> {
    let n = m.r;
    let mut a = m.a.clone();
    let mut mask = 0u32;
    for k in 0..n {
        let mut best = k;
        let mut bv = a[k][k].abs();
        for i in k + 1..n { let v = a[i][k].abs(); if v > bv { bv = v; best = i; } }
        if a[best][k].is_zero_e() { return None; }
        if best != k { a.swap(best, k); mask |= 1 << k; }
        for i in k + 1..n {
            let f = a[i][k] / a[k][k];
            for j in k..n { let t = a[k][j]; a[i][j] = a[i][j] - f * t; }
        }
    }
    Some(mask)
}
