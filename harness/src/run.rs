//! Execution engine: sharding over threads, panic capture, statistics, verdicts.

use crate::json::J;
use crate::rat::RatOverflow;
use crate::rng::{mix, Rng};
use std::cell::RefCell;
use std::collections::{BTreeMap, BTreeSet, HashSet};
use std::panic::{catch_unwind, AssertUnwindSafe};
use std::sync::atomic::{AtomicU64, Ordering};
use std::sync::Mutex;

#[derive(Clone, Copy, PartialEq, Debug)]
pub enum Tier { Quick, Thorough }

#[derive(Clone)]
pub struct Ctx {
    pub tier: Tier,
    pub seed: u64,
    pub threads: usize,
    /// volume multiplier (the `checked` profile runs a reduced volume)
    pub scale: f64,
    /// replay: run only this unit (and print what it sees)
    pub only_unit: Option<u64>,
    pub profile: String,
    pub workdir: String,
}

impl Ctx {
    pub fn quick(&self) -> bool { self.tier == Tier::Quick }
    /// volume helper: `q` units in quick, `t` in thorough, scaled by profile factor
    pub fn vol(&self, q: u64, t: u64) -> u64 {
        let b = if self.quick() { q } else { t };
        ((b as f64 * self.scale).ceil() as u64).max(1)
    }
}

/// Private payload used by hook sinks to stop a routine that exceeded its logical step budget.
pub struct StepBudget;

thread_local! {
    static LAST_PANIC: RefCell<Option<(String, String)>> = RefCell::new(None);
}

pub fn install_panic_hook() {
    std::panic::set_hook(Box::new(|info| {
        let p = info.payload();
        let msg = if let Some(s) = p.downcast_ref::<&str>() { s.to_string() }
            else if let Some(s) = p.downcast_ref::<String>() { s.clone() }
            else if p.downcast_ref::<RatOverflow>().is_some() { "<RatOverflow>".to_string() }
            else if p.downcast_ref::<StepBudget>().is_some() { "<StepBudget>".to_string() }
            else { "<non-string payload>".to_string() };
        let loc = info.location().map(|l| format!("{}:{}", l.file(), l.line())).unwrap_or_default();
        LAST_PANIC.with(|c| *c.borrow_mut() = Some((msg, loc)));
    }));
}

#[derive(Debug, Clone)]
pub enum Outcome<R> {
    Ok(R),
    /// the library (or an element operation it invoked) panicked
    Panic { msg: String, loc: String },
    /// exact arithmetic overflowed: the case is skipped, never judged
    Overflow,
    /// a monitor-imposed logical step budget was exceeded
    Budget,
}

impl<R> Outcome<R> {
    pub fn is_ok(&self) -> bool { matches!(self, Outcome::Ok(_)) }
    pub fn is_panic(&self) -> bool { matches!(self, Outcome::Panic { .. }) }
    pub fn is_overflow(&self) -> bool { matches!(self, Outcome::Overflow) }
    pub fn ok(self) -> Option<R> { if let Outcome::Ok(r) = self { Some(r) } else { None } }
    pub fn describe(&self) -> String {
        match self {
            Outcome::Ok(_) => "returned".to_string(),
            Outcome::Panic { msg, loc } => format!("panic '{}' at {}", msg, loc),
            Outcome::Overflow => "rat-overflow".to_string(),
            Outcome::Budget => "step-budget-exceeded".to_string(),
        }
    }
}

/// Run a library call, capturing panics as events.
pub fn catch<R>(f: impl FnOnce() -> R) -> Outcome<R> {
    LAST_PANIC.with(|c| *c.borrow_mut() = None);
    match catch_unwind(AssertUnwindSafe(f)) {
        Ok(r) => Outcome::Ok(r),
        Err(p) => {
            if p.downcast_ref::<RatOverflow>().is_some() { return Outcome::Overflow; }
            if p.downcast_ref::<StepBudget>().is_some() { return Outcome::Budget; }
            let (msg, loc) = LAST_PANIC.with(|c| c.borrow_mut().take()).unwrap_or_default();
            Outcome::Panic { msg, loc }
        }
    }
}

#[derive(Clone, Debug)]
pub struct Violation {
    pub signature: String,
    pub what: String,
    pub unit: u64,
    pub case: u64,
}

#[derive(Default)]
pub struct Stats {
    pub evals: u64,
    pub distinct: HashSet<u64>,
    pub counters: BTreeMap<String, u64>,
    pub maxf: BTreeMap<String, f64>,
    pub sets: BTreeMap<String, BTreeSet<String>>,
    pub samples: Vec<String>,
    pub violations: Vec<Violation>,
    pub nviol: u64,
    pub viol_sigs: BTreeMap<String, u64>,
    pub harness_errors: Vec<String>,
    pub unit: u64,
    pub case: u64,
    pub verbose: bool,
}

pub const MAX_STORED_VIOLATIONS: usize = 40;
pub const MAX_PER_SIG: u64 = 3;

impl Stats {
    /// one judged library call (or group of calls forming one case)
    #[inline]
    pub fn eval(&mut self) { self.evals += 1; }
    #[inline]
    pub fn evals_add(&mut self, n: u64) { self.evals += n; }
    #[inline]
    pub fn next_case(&mut self) -> u64 { self.case += 1; self.case }
    #[inline]
    pub fn count(&mut self, k: &str) { *self.counters.entry(k.to_string()).or_insert(0) += 1; }
    #[inline]
    pub fn add(&mut self, k: &str, n: u64) { *self.counters.entry(k.to_string()).or_insert(0) += n; }
    #[inline]
    pub fn max(&mut self, k: &str, v: f64) {
        if v.is_nan() { return; }
        let e = self.maxf.entry(k.to_string()).or_insert(f64::NEG_INFINITY);
        if v > *e { *e = v; }
    }
    /// record a distinct non-trivial case by descriptor hash
    #[inline]
    pub fn nontrivial(&mut self, h: u64) { self.distinct.insert(h); }
    pub fn set_insert(&mut self, k: &str, v: String) {
        let s = self.sets.entry(k.to_string()).or_default();
        if s.len() < 100_000 { s.insert(v); }
    }
    pub fn sample(&mut self, f: impl FnOnce() -> String) {
        if self.samples.len() < 2 { self.samples.push(f()); }
    }
    pub fn violation(&mut self, sig: &str, what: String) {
        self.nviol += 1;
        let c = self.viol_sigs.entry(sig.to_string()).or_insert(0);
        *c += 1;
        if *c <= MAX_PER_SIG && self.violations.len() < MAX_STORED_VIOLATIONS {
            if self.verbose { eprintln!("[replay] violation sig={} case={} :: {}", sig, self.case, what); }
            self.violations.push(Violation { signature: sig.to_string(), what, unit: self.unit, case: self.case });
        }
    }
    pub fn merge(&mut self, o: Stats) {
        self.evals += o.evals;
        self.distinct.extend(o.distinct);
        for (k, v) in o.counters { *self.counters.entry(k).or_insert(0) += v; }
        for (k, v) in o.maxf { let e = self.maxf.entry(k).or_insert(f64::NEG_INFINITY); if v > *e { *e = v; } }
        for (k, v) in o.sets { let s = self.sets.entry(k).or_default(); for x in v { if s.len() < 100_000 { s.insert(x); } } }
        for s in o.samples { if self.samples.len() < 6 { self.samples.push(s); } }
        self.nviol += o.nviol;
        for (k, v) in o.viol_sigs { *self.viol_sigs.entry(k).or_insert(0) += v; }
        for v in o.violations {
            let n = self.violations.iter().filter(|x| x.signature == v.signature).count() as u64;
            if n < MAX_PER_SIG && self.violations.len() < MAX_STORED_VIOLATIONS { self.violations.push(v); }
        }
        self.harness_errors.extend(o.harness_errors);
    }
}

/// Run `units` work units over the worker threads. Unit `u` gets an RNG seeded by
/// (seed, tag, u) so that a unit is reproducible on its own. A panic that escapes a unit
/// (i.e. a bug in the harness, since library calls are wrapped in `catch`) is recorded as a
/// harness error => the run is INCONCLUSIVE, never a violation.
pub fn par_run<F>(ctx: &Ctx, tag: u64, units: u64, f: F) -> Stats
where
    F: Fn(u64, &mut Rng, &mut Stats) + Sync,
{
    let next = AtomicU64::new(0);
    let total = Mutex::new(Stats::default());
    let nthreads = if ctx.only_unit.is_some() { 1 } else { ctx.threads.max(1) };
    std::thread::scope(|s| {
        for _ in 0..nthreads {
            let b = std::thread::Builder::new().stack_size(64 << 20);
            b.spawn_scoped(s, || {
                let mut st = Stats::default();
                st.verbose = ctx.only_unit.is_some();
                loop {
                    let u = match ctx.only_unit {
                        Some(u) => { if next.fetch_add(1, Ordering::SeqCst) > 0 { break; } u }
                        None => { let u = next.fetch_add(1, Ordering::SeqCst); if u >= units { break; } u }
                    };
                    let mut rng = Rng::new(mix(mix(ctx.seed, tag), u));
                    st.unit = u;
                    st.case = 0;
                    let r = catch_unwind(AssertUnwindSafe(|| f(u, &mut rng, &mut st)));
                    if let Err(p) = r {
                        let (msg, loc) = LAST_PANIC.with(|c| c.borrow_mut().take()).unwrap_or_default();
                        let kind = if p.downcast_ref::<RatOverflow>().is_some() { "rat-overflow outside catch" } else { "panic outside catch" };
                        if st.harness_errors.len() < 5 {
                            st.harness_errors.push(format!("unit {} case {}: {} '{}' at {}", u, st.case, kind, msg, loc));
                        }
                    }
                }
                total.lock().unwrap().merge(st);
            }).unwrap();
        }
    });
    total.into_inner().unwrap()
}

pub fn stats_to_json(st: &Stats) -> J {
    let mut o = J::obj();
    o.set("evaluations", J::UInt(st.evals));
    o.set("distinct_nontrivial", J::UInt(st.distinct.len() as u64));
    let mut c = J::obj();
    for (k, v) in &st.counters { c.set(k, J::UInt(*v)); }
    o.set("counters", c);
    let mut m = J::obj();
    for (k, v) in &st.maxf { m.set(k, J::Num(*v)); }
    o.set("maxima", m);
    let mut s = J::obj();
    for (k, v) in &st.sets {
        let mut e = J::obj();
        e.set("distinct", J::UInt(v.len() as u64));
        e.set("first", J::Arr(v.iter().take(12).map(|x| J::s(x)).collect()));
        s.set(k, e);
    }
    o.set("sets", s);
    o.set("samples", J::Arr(st.samples.iter().map(|x| J::s(x)).collect()));
    o.set("violations_total", J::UInt(st.nviol));
    let mut vs = J::obj();
    for (k, v) in &st.viol_sigs { vs.set(k, J::UInt(*v)); }
    o.set("violation_signatures", vs);
    o.set("violations", J::Arr(st.violations.iter().map(|v| {
        let mut e = J::obj();
        e.set("signature", J::s(&v.signature));
        e.set("what", J::s(&v.what));
        e.set("unit", J::UInt(v.unit));
        e.set("case", J::UInt(v.case));
        e
    }).collect()));
    o.set("harness_errors", J::Arr(st.harness_errors.iter().map(|x| J::s(x)).collect()));
    o
}

pub struct Report {
    pub stats: Stats,
    pub rule: String,
    pub assumptions: Vec<String>,
    /// minimum number of distinct non-trivial cases below which the run is inconclusive
    pub min_nontrivial: u64,
    pub extra: J,
    pub exhaustive: bool,
    pub inconclusive: Vec<String>,
}

impl Report {
    pub fn new(stats: Stats, rule: &str) -> Report {
        Report { stats, rule: rule.to_string(), assumptions: vec![], min_nontrivial: 2, extra: J::obj(), exhaustive: false, inconclusive: vec![] }
    }
}
