//! Minimal JSON value + writer (no external crate).
use std::collections::BTreeMap;
use std::fmt::Write;

#[derive(Clone, Debug)]
pub enum J {
    Null,
    Bool(bool),
    Int(i64),
    UInt(u64),
    Num(f64),
    Str(String),
    Arr(Vec<J>),
    Obj(BTreeMap<String, J>),
    /// pre-rendered JSON text
    Raw(String),
}

pub fn esc(s: &str) -> String {
    let mut o = String::with_capacity(s.len() + 2);
    o.push('"');
    for c in s.chars() {
        match c {
            '"' => o.push_str("\\\""),
            '\\' => o.push_str("\\\\"),
            '\n' => o.push_str("\\n"),
            '\r' => o.push_str("\\r"),
            '\t' => o.push_str("\\t"),
            c if (c as u32) < 0x20 => { let _ = write!(o, "\\u{:04x}", c as u32); }
            c => o.push(c),
        }
    }
    o.push('"');
    o
}

impl J {
    pub fn obj() -> J { J::Obj(BTreeMap::new()) }
    pub fn set(&mut self, k: &str, v: J) -> &mut J {
        if let J::Obj(m) = self { m.insert(k.to_string(), v); }
        self
    }
    pub fn s(x: &str) -> J { J::Str(x.to_string()) }
    pub fn render(&self) -> String {
        let mut o = String::new();
        self.w(&mut o);
        o
    }
    fn w(&self, o: &mut String) {
        match self {
            J::Null => o.push_str("null"),
            J::Bool(b) => o.push_str(if *b { "true" } else { "false" }),
            J::Int(i) => { let _ = write!(o, "{}", i); }
            J::UInt(i) => { let _ = write!(o, "{}", i); }
            J::Num(x) => {
                if x.is_finite() { let _ = write!(o, "{:e}", x); } else { o.push_str(&esc(&format!("{}", x))); }
            }
            J::Str(s) => o.push_str(&esc(s)),
            J::Raw(s) => o.push_str(s),
            J::Arr(a) => {
                o.push('[');
                for (i, v) in a.iter().enumerate() { if i > 0 { o.push(','); } v.w(o); }
                o.push(']');
            }
            J::Obj(m) => {
                o.push('{');
                for (i, (k, v)) in m.iter().enumerate() {
                    if i > 0 { o.push(','); }
                    o.push_str(&esc(k));
                    o.push(':');
                    v.w(o);
                }
                o.push('}');
            }
        }
    }
}
