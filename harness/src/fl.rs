//! Floating-point oracle helpers: error-free transformations and double-double
//! arithmetic (real and complex), so that the oracle's own rounding is negligible
//! (~1e-30 relative) compared with the f64 results being judged.

use ohsl::Cmplx;
use std::ops::{Add, Div, Mul, Neg, Sub};

pub const U: f64 = 1.1102230246251565e-16; // 2^-53

#[inline]
pub fn two_sum(a: f64, b: f64) -> (f64, f64) {
    let s = a + b;
    let bb = s - a;
    let e = (a - (s - bb)) + (b - bb);
    (s, e)
}
#[inline]
pub fn quick_two_sum(a: f64, b: f64) -> (f64, f64) {
    let s = a + b;
    (s, b - (s - a))
}
#[inline]
pub fn two_prod(a: f64, b: f64) -> (f64, f64) {
    let p = a * b;
    (p, a.mul_add(b, -p))
}

#[derive(Clone, Copy, Debug, PartialEq)]
pub struct DD { pub hi: f64, pub lo: f64 }

impl DD {
    pub const ZERO: DD = DD { hi: 0.0, lo: 0.0 };
    pub const ONE: DD = DD { hi: 1.0, lo: 0.0 };
    #[inline]
    pub fn from(x: f64) -> DD { DD { hi: x, lo: 0.0 } }
    #[inline]
    pub fn f(&self) -> f64 { self.hi + self.lo }
    pub fn abs(&self) -> DD { if self.hi < 0.0 || (self.hi == 0.0 && self.lo < 0.0) { -*self } else { *self } }
    pub fn sqrt(&self) -> DD {
        if self.hi <= 0.0 { return DD::ZERO; }
        let x = 1.0 / self.hi.sqrt();
        let ax = self.hi * x;
        let d = *self - DD::from(ax) * DD::from(ax);
        DD::from(ax) + DD::from(d.hi * (x * 0.5))
    }
    pub fn prod(a: f64, b: f64) -> DD { let (p, e) = two_prod(a, b); DD { hi: p, lo: e } }
}
impl Neg for DD { type Output = DD; #[inline] fn neg(self) -> DD { DD { hi: -self.hi, lo: -self.lo } } }
impl Add for DD {
    type Output = DD;
    #[inline]
    fn add(self, o: DD) -> DD {
        let (s1, s2) = two_sum(self.hi, o.hi);
        let (t1, t2) = two_sum(self.lo, o.lo);
        let s2 = s2 + t1;
        let (s1, s2) = quick_two_sum(s1, s2);
        let s2 = s2 + t2;
        let (hi, lo) = quick_two_sum(s1, s2);
        DD { hi, lo }
    }
}
impl Sub for DD { type Output = DD; #[inline] fn sub(self, o: DD) -> DD { self + (-o) } }
impl Mul for DD {
    type Output = DD;
    #[inline]
    fn mul(self, o: DD) -> DD {
        let (p1, p2) = two_prod(self.hi, o.hi);
        let p2 = p2 + (self.hi * o.lo + self.lo * o.hi);
        let (hi, lo) = quick_two_sum(p1, p2);
        DD { hi, lo }
    }
}
impl Div for DD {
    type Output = DD;
    fn div(self, o: DD) -> DD {
        let q1 = self.hi / o.hi;
        let r = self - o * DD::from(q1);
        let q2 = r.hi / o.hi;
        let r = r - o * DD::from(q2);
        let q3 = r.hi / o.hi;
        let (q1, q2) = quick_two_sum(q1, q2);
        DD { hi: q1, lo: q2 } + DD::from(q3)
    }
}

#[derive(Clone, Copy, Debug)]
pub struct CDD { pub re: DD, pub im: DD }
impl CDD {
    pub const ZERO: CDD = CDD { re: DD::ZERO, im: DD::ZERO };
    pub fn from(z: Cmplx) -> CDD { CDD { re: DD::from(z.real), im: DD::from(z.imag) } }
    pub fn from_re(x: f64) -> CDD { CDD { re: DD::from(x), im: DD::ZERO } }
    pub fn abs(&self) -> f64 { (self.re * self.re + self.im * self.im).sqrt().f() }
    pub fn to_c(&self) -> Cmplx { Cmplx::new(self.re.f(), self.im.f()) }
}
impl Add for CDD { type Output = CDD; fn add(self, o: CDD) -> CDD { CDD { re: self.re + o.re, im: self.im + o.im } } }
impl Sub for CDD { type Output = CDD; fn sub(self, o: CDD) -> CDD { CDD { re: self.re - o.re, im: self.im - o.im } } }
impl Neg for CDD { type Output = CDD; fn neg(self) -> CDD { CDD { re: -self.re, im: -self.im } } }
impl Mul for CDD {
    type Output = CDD;
    fn mul(self, o: CDD) -> CDD {
        CDD { re: self.re * o.re - self.im * o.im, im: self.re * o.im + self.im * o.re }
    }
}
impl Div for CDD {
    type Output = CDD;
    fn div(self, o: CDD) -> CDD {
        let den = o.re * o.re + o.im * o.im;
        CDD { re: (self.re * o.re + self.im * o.im) / den, im: (self.im * o.re - self.re * o.im) / den }
    }
}

/// sum_i a_i*b_i in double-double
pub fn dot_dd(a: &[f64], b: &[f64]) -> DD {
    let mut s = DD::ZERO;
    for i in 0..a.len() { s = s + DD::prod(a[i], b[i]); }
    s
}

pub fn cabs(z: Cmplx) -> f64 { z.real.hypot(z.imag) }

/// ||b - A x||_inf computed in double-double, plus ||A||_inf, ||x||_inf, ||b||_inf (real case).
pub fn residual_real(a: &[Vec<f64>], x: &[f64], b: &[f64]) -> (f64, f64, f64, f64) {
    let n = b.len();
    let mut rmax = 0.0f64;
    let mut anorm = 0.0f64;
    for i in 0..n {
        let mut s = DD::from(b[i]);
        let mut rs = 0.0;
        for j in 0..x.len() { s = s - DD::prod(a[i][j], x[j]); rs += a[i][j].abs(); }
        rmax = rmax.max(s.f().abs());
        anorm = anorm.max(rs);
    }
    let xn = x.iter().fold(0.0f64, |m, v| m.max(v.abs()));
    let bn = b.iter().fold(0.0f64, |m, v| m.max(v.abs()));
    (rmax, anorm, xn, bn)
}

pub fn residual_cmplx(a: &[Vec<Cmplx>], x: &[Cmplx], b: &[Cmplx]) -> (f64, f64, f64, f64) {
    let n = b.len();
    let mut rmax = 0.0f64;
    let mut anorm = 0.0f64;
    for i in 0..n {
        let mut s = CDD::from(b[i]);
        let mut rs = 0.0;
        for j in 0..x.len() { s = s - CDD::from(a[i][j]) * CDD::from(x[j]); rs += cabs(a[i][j]); }
        rmax = rmax.max(s.abs());
        anorm = anorm.max(rs);
    }
    let xn = x.iter().fold(0.0f64, |m, v| m.max(cabs(*v)));
    let bn = b.iter().fold(0.0f64, |m, v| m.max(cabs(*v)));
    (rmax, anorm, xn, bn)
}

/// normwise backward error  ||b-Ax|| / (||A|| ||x|| + ||b||)  (inf norms); 0 if denominator is 0 and r is 0
pub fn backward_error(r: f64, an: f64, xn: f64, bn: f64) -> f64 {
    let den = an * xn + bn;
    if den == 0.0 { if r == 0.0 { 0.0 } else { f64::INFINITY } } else { r / den }
}

pub fn all_finite(v: &[f64]) -> bool { v.iter().all(|x| x.is_finite()) }
pub fn all_finite_c(v: &[Cmplx]) -> bool { v.iter().all(|x| x.real.is_finite() && x.imag.is_finite()) }

pub fn hexf(x: f64) -> String { format!("{:?}[{:016x}]", x, x.to_bits()) }
pub fn showv(v: &[f64]) -> String { format!("{:?}", v) }
pub fn showc(v: &[Cmplx]) -> String { format!("{:?}", v.iter().map(|z| (z.real, z.imag)).collect::<Vec<_>>()) }
