//! C12 — polynomial division: u = q*v + r, deg r < deg v, for every nonzero divisor.
use crate::fl::{self, U};
use crate::mon::common::*;
use crate::rat::{CRat, Exact, Rat};
use crate::rng::Rng;
use crate::run::{catch, par_run, Ctx, Outcome, Report, Stats, StepBudget};
use ohsl::verif::{self, Event};
use ohsl::{Cmplx, Polynomial};
use std::cell::Cell;
use std::rc::Rc;

const TAG: u64 = 0xC12;

fn coeffs<T: Copy>(p: &Polynomial<T>) -> Vec<T> { (0..p.size()).map(|i| p[i]).collect() }

/// run polydiv under a logical step budget delivered by hook H4; returns (outcome, steps seen)
fn guarded<T, R>(budget: usize, f: impl FnOnce() -> R) -> (Outcome<R>, usize) where T: Sized {
    let steps = Rc::new(Cell::new(0usize));
    let s2 = steps.clone();
    verif::set_sink(Box::new(move |ev| {
        if let Event::Step { site: "polydiv", count } = ev {
            s2.set(count + 1);
            if count > budget { std::panic::panic_any(StepBudget); }
        }
    }));
    let out = catch(f);
    verif::clear_sink();
    (out, steps.get())
}

fn degree_of<T: PartialEq>(c: &[T], zero: T) -> Option<usize> { (0..c.len()).rev().find(|&i| c[i] != zero) }

fn judge_exact<E: Exact>(st: &mut Stats, rng: &mut Rng, du: usize, dv: usize, rv: &dyn Fn(&mut Rng) -> E, zeros_inside: bool) {
    st.next_case();
    let nz = |rng: &mut Rng| { let x = rv(rng); if x.is_zero_e() { E::from_int(1) } else { x } };
    let mut u: Vec<E> = (0..=du).map(|_| if zeros_inside && rng.chance(0.3) { E::zero() } else { rv(rng) }).collect();
    let mut v: Vec<E> = (0..=dv).map(|_| if zeros_inside && rng.chance(0.3) { E::zero() } else { rv(rng) }).collect();
    if !rng.chance(0.15) { u[du] = nz(rng); } else { u[du] = E::zero(); } // 15%: dividend with a stored leading zero
    v[dv] = nz(rng);
    // occasionally make the division exact (u = a*v) so that r must vanish
    if rng.chance(0.2) && du >= dv { let a: Vec<E> = (0..=du - dv).map(|_| nz(rng)).collect(); u = vec![E::zero(); du + 1]; for i in 0..a.len() { for j in 0..v.len() { u[i + j] = u[i + j] + a[i] * v[j]; } } }
    let desc = || format!("T={} u={:?} v={:?}", E::NAME, u, v);
    let (pu, pv) = (Polynomial::new(u.clone()), Polynomial::new(v.clone()));
    let budget = 4 * (du + 2);
    let (out, steps) = guarded::<E, _>(budget, || pu.polydiv(&pv));
    st.eval();
    st.max("steps_over_needed", steps as f64 / ((du as f64 - dv as f64).max(0.0) + 1.0));
    match out {
        Outcome::Overflow => st.count("skipped:rat-overflow"),
        Outcome::Budget => st.violation(&format!("C12:polydiv:{}:spins", E::NAME), format!("loop exceeded the logical budget of {} passes (exact division needs {}); {}", budget, du.saturating_sub(dv) + 1, desc())),
        Outcome::Panic { msg, loc } => st.violation(&format!("C12:polydiv:{}:panic", E::NAME), format!("panic '{}' at {}; {}", msg, loc, desc())),
        Outcome::Ok(Err(e)) => st.violation(&format!("C12:polydiv:{}:err-on-valid-divisor", E::NAME), format!("Err({:?}); {}", e, desc())),
        Outcome::Ok(Ok((q, r))) => {
            let (qc, rc) = (coeffs(&q), coeffs(&r));
            // u == q*v + r exactly (coefficientwise, shorter side padded with zeros)
            let mut w = vec![E::zero(); (qc.len() + v.len()).max(rc.len()).max(u.len()) + 1];
            let prod = catch(|| { let mut w2 = w.clone(); for i in 0..qc.len() { for j in 0..v.len() { w2[i + j] = w2[i + j] + qc[i] * v[j]; } } for i in 0..rc.len() { w2[i] = w2[i] + rc[i]; } w2 });
            match prod { Outcome::Ok(w2) => w = w2, _ => { st.count("skipped:rat-overflow"); return; } }
            let ident = (0..w.len()).all(|i| w[i] == if i < u.len() { u[i] } else { E::zero() });
            let dr = degree_of(&rc, E::zero());
            let deg_ok = match dr { None => true, Some(d) => d < dv };
            if !ident { st.violation(&format!("C12:polydiv:{}:identity", E::NAME), format!("q={:?} r={:?}: q*v+r = {:?} != u; {}", qc, rc, w, desc())); }
            if !deg_ok { st.violation(&format!("C12:polydiv:{}:remainder-degree", E::NAME), format!("q={:?} r={:?}: deg r = {:?} >= deg v = {}; {}", qc, rc, dr, dv, desc())); }
        }
    }
    st.count(&format!("cases:{}:du{}:dv{}", E::NAME, du, dv));
    let mut h = hash_str(E::NAME); for x in u.iter().chain(&v) { h = hmix(h, x.hash_u64()); }
    st.nontrivial(h);
    st.sample(|| desc());
}

fn judge_f64(st: &mut Stats, rng: &mut Rng, du: usize, dv: usize, kind: u64) {
    st.next_case();
    let gen = |rng: &mut Rng| -> f64 { match kind { 0 => rng.int(-9, 9) as f64, 1 => rng.sym(), 3 => if rng.bool() { rng.int(1, 60) as f64 } else { 1.0 / rng.int(3, 60) as f64 }, _ => rng.sym() * rng.logpos(1e-3, 1e3) } };
    let mut u: Vec<f64> = (0..=du).map(|_| if rng.chance(0.1) { 0.0 } else { gen(rng) }).collect();
    let mut v: Vec<f64> = (0..=dv).map(|_| if rng.chance(if kind == 3 { 0.4 } else { 0.1 }) { 0.0 } else { gen(rng) }).collect();
    if kind == 3 && du >= dv {
        // constructed dividend u = fl(q*v) + r with gappy general-float q and v: the division retraces products it can
        // reproduce exactly, so interior coefficients of the running remainder cancel to exact zeros while the leading
        // quotients are inexact (rounding residues at the top) - coincidences that random dividends never produce
        if v[dv] == 0.0 { v[dv] = gen(rng); if v[dv] == 0.0 { v[dv] = 0.75; } }
        let q: Vec<f64> = (0..=du - dv).map(|i| if i < du - dv && rng.chance(0.4) { 0.0 } else { let x = gen(rng); if x == 0.0 { 1.25 } else { x } }).collect();
        for x in u.iter_mut() { *x = 0.0; }
        for i in 0..q.len() { for j in 0..v.len() { u[i + j] += q[i] * v[j]; } }
        for i in 0..dv { if rng.chance(0.5) { u[i] += gen(rng); } }
    }
    // a dividend may carry stored leading zeros (only the divisor's leading coefficient must be non-zero)
    if u[du] == 0.0 && !rng.chance(0.5) { u[du] = 1.5; }
    // integer class: divisor leading coefficient +-1 or +-2^k so that the exact quotient is representable
    v[dv] = if kind == 0 { *rng.pick(&[1.0, -1.0, 2.0, -0.5]) } else if v[dv] == 0.0 { 0.75 } else { v[dv] };
    // uniform rescaling of both polynomials by 2^e (exact; ratios unchanged): "for every float input"
    if rng.chance(0.3) { let (eu, ev) = (rng.int(-80, 80) as i32, rng.int(-80, 80) as i32); for x in u.iter_mut() { *x *= 2f64.powi(eu); } for x in v.iter_mut() { *x *= 2f64.powi(ev); } }
    let desc = || format!("T=f64 kind={} u={:?} v={:?}", ["integer", "general", "graded", "constructed"][kind as usize], u, v);
    let (pu, pv) = (Polynomial::new(u.clone()), Polynomial::new(v.clone()));
    let budget = 4 * (du + 2);
    let (out, steps) = guarded::<f64, _>(budget, || pu.polydiv(&pv));
    st.eval();
    st.max("f64:steps_over_needed", steps as f64 / ((du as f64 - dv as f64).max(0.0) + 1.0));
    match out {
        Outcome::Budget => st.violation("C12:polydiv:f64:spins", format!("loop exceeded the logical budget of {} passes; {}", budget, desc())),
        Outcome::Panic { msg, loc } => st.violation("C12:polydiv:f64:panic", format!("panic '{}' at {}; {}", msg, loc, desc())),
        Outcome::Ok(Err(e)) => st.violation("C12:polydiv:f64:err-on-valid-divisor", format!("Err({:?}) after {} passes; {}", e, steps, desc())),
        Outcome::Ok(Ok((q, r))) => {
            let (qc, rc) = (coeffs(&q), coeffs(&r));
            let len = (qc.len() + v.len()).max(rc.len()).max(u.len()) + 1;
            let mut w = vec![fl::DD::ZERO; len];
            let mut mag = vec![0.0f64; len];
            for i in 0..qc.len() { for j in 0..v.len() { w[i + j] = w[i + j] + fl::DD::prod(qc[i], v[j]); mag[i + j] += (qc[i] * v[j]).abs(); } }
            for i in 0..rc.len() { w[i] = w[i] + fl::DD::from(rc[i]); mag[i] += rc[i].abs(); }
            let err = (0..len).map(|i| (w[i] - fl::DD::from(if i < u.len() { u[i] } else { 0.0 })).f().abs()).fold(0.0f64, f64::max);
            let scale = u.iter().fold(0.0f64, |m, x| m.max(x.abs())).max(mag.iter().fold(0.0f64, |m, x| m.max(*x)));
            let tol = if kind == 0 { 0.0 } else { 64.0 * (du as f64 + 1.0) * U * scale };
            if kind != 0 && scale > 0.0 { st.max("f64:identity_err_over_tol", err / tol); }
            let finite = qc.iter().chain(&rc).all(|x| x.is_finite());
            if !finite || !(err <= tol) { st.violation("C12:polydiv:f64:identity", format!("q={:?} r={:?}: |u-(q*v+r)| = {:e} > {:e}; {}", qc, rc, err, tol, desc())); }
            let dr = degree_of(&rc, 0.0);
            if !(match dr { None => true, Some(d) => d < dv }) { st.violation("C12:polydiv:f64:remainder-degree", format!("q={:?} r={:?}: deg r = {:?} >= deg v = {}; {}", qc, rc, dr, dv, desc())); }
            // units must not matter: u*2^a, v*2^b (exact) must give q*2^(a-b), r*2^a bit for bit, up to +-600 binades
            if rng.chance(0.3) {
                let (ea, eb) = (rng.int(-600, 600) as i32, rng.int(-300, 300) as i32);
                let in_range = |x: f64, e: i32| x == 0.0 || { let m = x.abs().log2() + e as f64; m > -900.0 && m < 900.0 };
                if u.iter().chain(&rc).all(|x| in_range(*x, ea)) && v.iter().all(|x| in_range(*x, eb)) && qc.iter().all(|x| in_range(*x, ea - eb) && in_range(*x, 0)) && u.iter().chain(&v).all(|x| in_range(*x, 0)) {
                    let sc = |c: &[f64], e: i32| -> Vec<f64> { c.iter().map(|x| x * 2f64.powi(e / 2) * 2f64.powi(e - e / 2)).collect() };
                    let (out2, _) = guarded::<f64, _>(budget, || Polynomial::new(sc(&u, ea)).polydiv(&Polynomial::new(sc(&v, eb))));
                    st.eval();
                    let same = |a: &[f64], b: &[f64]| a.len() == b.len() && a.iter().zip(b).all(|(x, y)| x.to_bits() == y.to_bits() || (*x == 0.0 && *y == 0.0));
                    match out2 {
                        Outcome::Ok(Ok((q2, r2))) => if !same(&coeffs(&q2), &sc(&qc, ea - eb)) || !same(&coeffs(&r2), &sc(&rc, ea)) { st.violation("C12:polydiv:f64:scale-dependent", format!("u*2^{} / v*2^{} gives q={:?} r={:?}, expected the scaled q={:?} r={:?}; {}", ea, eb, coeffs(&q2), coeffs(&r2), sc(&qc, ea - eb), sc(&rc, ea), desc())); },
                        o => st.violation("C12:polydiv:f64:scale-dependent", format!("u*2^{} / v*2^{}: {}; unscaled division succeeded; {}", ea, eb, match o { Outcome::Ok(Err(e)) => format!("Err({:?})", e), oo => oo.describe() }, desc())),
                    }
                    st.count("f64:scaling-checks");
                }
            }
        }
        Outcome::Overflow => {}
    }
    st.count(&format!("cases:f64:{}", ["integer", "general", "graded", "constructed"][kind as usize]));
    let mut h = hash_str("f64"); for x in u.iter().chain(&v) { h = hmix(h, x.to_bits()); }
    st.nontrivial(h);
}

fn judge_cmplx(st: &mut Stats, rng: &mut Rng, du: usize, dv: usize) {
    st.next_case();
    // general, purely real, purely imaginary and unit coefficients (axis-aligned divisors take special paths in a division)
    let g = |rng: &mut Rng| match rng.below(6) { 0 => Cmplx::new(rng.sym(), 0.0), 1 => Cmplx::new(0.0, rng.sym()), 2 => *rng.pick(&[Cmplx::new(1.0, 0.0), Cmplx::new(0.0, 1.0), Cmplx::new(0.0, -2.0), Cmplx::new(-1.0, 0.0)]), _ => Cmplx::new(rng.sym(), rng.sym()) };
    let u: Vec<Cmplx> = (0..=du).map(|_| g(rng)).collect();
    let mut v: Vec<Cmplx> = (0..=dv).map(|_| g(rng)).collect();
    if v[dv].abs() < 0.05 { v[dv] = Cmplx::new(0.5, -0.5); }
    let desc = || format!("T=Cmplx u={:?} v={:?}", u, v);
    let (pu, pv) = (Polynomial::new(u.clone()), Polynomial::new(v.clone()));
    let budget = 4 * (du + 2);
    let (out, steps) = guarded::<Cmplx, _>(budget, || pu.polydiv(&pv));
    st.eval();
    match out {
        Outcome::Budget => st.violation("C12:polydiv:Cmplx:spins", format!("loop exceeded the logical budget of {} passes; {}", budget, desc())),
        Outcome::Panic { msg, loc } => st.violation("C12:polydiv:Cmplx:panic", format!("panic '{}' at {}; {}", msg, loc, desc())),
        Outcome::Ok(Err(e)) => st.violation("C12:polydiv:Cmplx:err-on-valid-divisor", format!("Err({:?}) after {} passes; {}", e, steps, desc())),
        Outcome::Ok(Ok((q, r))) => {
            let (qc, rc) = (coeffs(&q), coeffs(&r));
            let len = (qc.len() + v.len()).max(rc.len()).max(u.len()) + 1;
            let mut w = vec![fl::CDD::ZERO; len];
            let mut mag = vec![0.0f64; len];
            for i in 0..qc.len() { for j in 0..v.len() { w[i + j] = w[i + j] + fl::CDD::from(qc[i]) * fl::CDD::from(v[j]); mag[i + j] += fl::cabs(qc[i]) * fl::cabs(v[j]); } }
            for i in 0..rc.len() { w[i] = w[i] + fl::CDD::from(rc[i]); mag[i] += fl::cabs(rc[i]); }
            let err = (0..len).map(|i| (w[i] - if i < u.len() { fl::CDD::from(u[i]) } else { fl::CDD::ZERO }).abs()).fold(0.0f64, f64::max);
            let scale = u.iter().fold(0.0f64, |m, x| m.max(fl::cabs(*x))).max(mag.iter().fold(0.0f64, |m, x| m.max(*x)));
            let tol = 64.0 * (du as f64 + 1.0) * U * scale;
            st.max("Cmplx:identity_err_over_tol", err / tol);
            if !(err <= tol) { st.violation("C12:polydiv:Cmplx:identity", format!("q={:?} r={:?}: |u-(q*v+r)| = {:e} > {:e}; {}", qc, rc, err, tol, desc())); }
            let dr = degree_of(&rc, Cmplx::new(0.0, 0.0));
            if !(match dr { None => true, Some(d) => d < dv }) { st.violation("C12:polydiv:Cmplx:remainder-degree", format!("q={:?} r={:?}: deg r = {:?} >= deg v = {}; {}", qc, rc, dr, dv, desc())); }
            // units must not matter (complex division by the scaled leading coefficient included)
            if rng.chance(0.3) {
                let (ea, eb) = (rng.int(-600, 600) as i32, rng.int(-200, 200) as i32);
                let in_range = |x: f64, e: i32| x == 0.0 || { let m = x.abs().log2() + e as f64; m > -900.0 && m < 900.0 };
                let parts = |c: &[Cmplx]| -> Vec<f64> { c.iter().flat_map(|z| [z.real, z.imag]).collect() };
                if parts(&u).iter().chain(&parts(&rc)).all(|x| in_range(*x, ea) && in_range(*x, 0)) && parts(&v).iter().all(|x| in_range(*x, eb) && in_range(*x, 0)) && parts(&qc).iter().all(|x| in_range(*x, ea - eb) && in_range(*x, 0)) {
                    let sc = |c: &[Cmplx], e: i32| -> Vec<Cmplx> { c.iter().map(|z| Cmplx::new(z.real * 2f64.powi(e / 2) * 2f64.powi(e - e / 2), z.imag * 2f64.powi(e / 2) * 2f64.powi(e - e / 2))).collect() };
                    let (out2, _) = guarded::<Cmplx, _>(budget, || Polynomial::new(sc(&u, ea)).polydiv(&Polynomial::new(sc(&v, eb))));
                    st.eval();
                    match out2 {
                        Outcome::Ok(Ok((q2, r2))) => {
                            // complex division is not bit-invariant under scaling in general (the library may form c^2+d^2): judged by the identity at the scaled level
                            let (q2c, r2c) = (coeffs(&q2), coeffs(&r2));
                            let (us, vs) = (sc(&u, ea), sc(&v, eb));
                            let len = (q2c.len() + vs.len()).max(r2c.len()).max(us.len()) + 1;
                            let down = |z: Cmplx, e: i32| fl::CDD::from(Cmplx::new(z.real * 2f64.powi(-(e / 2)) * 2f64.powi(-(e - e / 2)), z.imag * 2f64.powi(-(e / 2)) * 2f64.powi(-(e - e / 2))));
                            let mut w = vec![fl::CDD::ZERO; len];
                            for i in 0..q2c.len() { for j in 0..v.len() { w[i + j] = w[i + j] + down(q2c[i], ea - eb) * fl::CDD::from(v[j]); } }
                            for i in 0..r2c.len() { w[i] = w[i] + down(r2c[i], ea); }
                            let err = (0..len).map(|i| (w[i] - if i < u.len() { fl::CDD::from(u[i]) } else { fl::CDD::ZERO }).abs()).fold(0.0f64, f64::max);
                            if !(err <= 4.0 * tol) || q2c.len() != qc.len() { st.violation("C12:polydiv:Cmplx:scale-dependent", format!("u*2^{} / v*2^{} gives q={:?} r={:?}: |u-(q*v+r)| = {:e} (rescaled) > {:e}; unscaled q={:?} r={:?}; {}", ea, eb, q2c, r2c, err, 4.0 * tol, qc, rc, desc())); }
                        }
                        o => st.violation("C12:polydiv:Cmplx:scale-dependent", format!("u*2^{} / v*2^{}: {}; unscaled division succeeded; {}", ea, eb, match o { Outcome::Ok(Err(e)) => format!("Err({:?})", e), oo => oo.describe() }, desc())),
                    }
                    st.count("Cmplx:scaling-checks");
                }
            }
        }
        Outcome::Overflow => {}
    }
    st.count("cases:Cmplx");
    let mut h = hash_str("Cmplx"); for x in u.iter().chain(&v) { h = hmix(hmix(h, x.real.to_bits()), x.imag.to_bits()); }
    st.nontrivial(h);
}

/// dividend and divisor are the SAME object: p / p is (1, 0) for a non-zero p and an error for the empty / all-zero p
fn judge_self_division(st: &mut Stats, rng: &mut Rng) {
    st.next_case();
    let n = rng.usize(0, 7);
    let zero = rng.chance(0.4);
    let mut c: Vec<Rat> = (0..n).map(|_| if zero { Rat::ZERO } else { Rat::int(rng.int(-5, 5)) }).collect();
    // (a divisor with a zero LEADING coefficient that is not identically zero is outside the property)
    if !zero && n > 0 && c[n - 1].is_zero() { c[n - 1] = Rat::int(2); }
    let all_zero = c.iter().all(|v| v.is_zero());
    let p = Polynomial::new(c.clone());
    st.eval();
    match catch(|| p.polydiv(&p)) {
        Outcome::Ok(Err(_)) => if !all_zero { if degree_of(&c, Rat::ZERO) == Some(c.len() - 1) { st.violation("C12:polydiv:Rat:self-division", format!("p.polydiv(&p) is an error for the non-zero p = {:?}", c)); } } else { st.count("self-division:zero-rejected"); },
        Outcome::Ok(Ok((q, r))) => {
            let (qc, rc) = (coeffs(&q), coeffs(&r));
            if all_zero { st.violation("C12:polydiv:Rat:zero-divisor-accepted", format!("p.polydiv(&p) with the all-zero/empty p = {:?} (one object on both sides) returned q = {:?}, r = {:?} instead of an error", c, qc, rc)); }
            else if degree_of(&qc, Rat::ZERO) != Some(0) || qc[0] != Rat::ONE || degree_of(&rc, Rat::ZERO).is_some() { st.violation("C12:polydiv:Rat:self-division", format!("p = {:?}: p.polydiv(&p) = ({:?}, {:?}), expected (1, 0)", c, qc, rc)); }
        }
        Outcome::Overflow => {}
        o => st.violation("C12:polydiv:Rat:panic", format!("p.polydiv(&p) with p = {:?}: {}", c, o.describe())),
    }
    // f64, including -0.0 coefficients
    let mut cf: Vec<f64> = (0..n).map(|_| if zero { if rng.bool() { 0.0 } else { -0.0 } } else { rng.int(-5, 5) as f64 }).collect();
    if !zero && n > 0 && cf[n - 1] == 0.0 { cf[n - 1] = 2.0; }
    let pf = Polynomial::new(cf.clone());
    st.eval();
    match catch(|| pf.polydiv(&pf)) {
        Outcome::Ok(Ok((q, r))) => if cf.iter().all(|v| *v == 0.0) { st.violation("C12:polydiv:f64:zero-divisor-accepted", format!("p.polydiv(&p) with the all-zero/empty p = {:?} returned q = {:?}, r = {:?} instead of an error", cf, coeffs(&q), coeffs(&r))); },
        Outcome::Ok(Err(_)) | Outcome::Overflow => {}
        o => st.violation("C12:polydiv:f64:panic", format!("p.polydiv(&p) with p = {:?}: {}", cf, o.describe())),
    }
    st.count("self-division-cases");
}

/// empty / all-zero divisors must be reported as Err (never panic), for every dividend
fn judge_zero_divisor(st: &mut Stats, rng: &mut Rng) {
    st.next_case();
    let du = rng.usize(0, 10);
    let u: Vec<Rat> = (0..=du).map(|_| Rat::int(rng.int(-9, 9))).collect();
    let zl = rng.usize(0, 6);
    let v: Vec<Rat> = vec![Rat::ZERO; zl]; // zl == 0: the empty polynomial
    let (pu, pv) = (Polynomial::new(u.clone()), Polynomial::new(v.clone()));
    let (out, _) = guarded::<Rat, _>(50, || pu.polydiv(&pv));
    st.eval();
    match out {
        Outcome::Ok(Err(_)) => st.count("zero-divisor:Err"),
        Outcome::Ok(Ok((q, r))) => st.violation("C12:polydiv:zero-divisor-accepted", format!("u={:?} v={:?} returned q={:?} r={:?}", u, v, coeffs(&q), coeffs(&r))),
        o => st.violation("C12:polydiv:zero-divisor-panic", format!("u={:?} v={:?}: {}", u, v, o.describe())),
    }
    // f64 flavour, including negative zero coefficients
    let vf: Vec<f64> = (0..zl).map(|_| if rng.bool() { 0.0 } else { -0.0 }).collect();
    let uf: Vec<f64> = u.iter().map(|x| x.to_f64()).collect();
    let (out, _) = guarded::<f64, _>(50, || Polynomial::new(uf.clone()).polydiv(&Polynomial::new(vf.clone())));
    st.eval();
    match out {
        Outcome::Ok(Err(_)) => st.count("zero-divisor:Err"),
        Outcome::Ok(Ok(_)) => st.violation("C12:polydiv:zero-divisor-accepted", format!("u={:?} v={:?} (f64)", uf, vf)),
        o => st.violation("C12:polydiv:zero-divisor-panic", format!("u={:?} v={:?} (f64): {}", uf, vf, o.describe())),
    }
}

pub fn run(ctx: &Ctx) -> Report {
    let pairs = 11u64 * 7; // deg u 0..10 x deg v 0..6
    let reps = ctx.vol(8000, 400_000);
    // hook liveness: the polydiv step hook must fire (otherwise the "never spins" half is unobserved)
    let (o, steps) = guarded::<Rat, _>(100, || Polynomial::new(vec![Rat::int(1), Rat::int(2), Rat::int(3)]).polydiv(&Polynomial::new(vec![Rat::int(1), Rat::int(1)])));
    let hook_live = o.is_ok() && steps >= 2;
    let stats = par_run(ctx, TAG, pairs, |p, rng, st| {
        let (du, dv) = ((p / 7) as usize, (p % 7) as usize);
        for k in 0..reps {
            judge_exact::<Rat>(st, rng, du, dv, &|r| if r.chance(0.2) { Rat::new(r.int(-9, 9) as i128, r.int(1, 5) as i128) } else { Rat::int(r.int(-9, 9)) }, k % 3 == 0);
            judge_exact::<CRat>(st, rng, du, dv, &|r| CRat::new(Rat::int(r.int(-5, 5)), Rat::int(r.int(-5, 5))), k % 3 == 1);
            judge_f64(st, rng, du, dv, k % 4);
            judge_cmplx(st, rng, du, dv);
            if k % 4 == 0 { judge_zero_divisor(st, rng); judge_self_division(st, rng); }
        }
    });
    let mut rep = Report::new(stats,
        "all 77 degree pairs (deg u 0..10, deg v 0..6, incl. constants and divisors longer than the dividend) x random coefficients over Rat (fractions), CRat, integer-valued f64 (divisor leading coefficient +-1, 2, -1/2: exact), general f64, f64 with coefficient ratios up to 1e6, constructed dividends u=fl(q*v)+r with gappy q and v (exact interior cancellations next to inexact leading quotients), Complex<f64>; power-of-two rescaling of u and v by up to 2^+-600 (f64: quotient and remainder bit-identical up to the scaling; Complex<f64>: the identity at the rescaled level); zeros inside, exact divisions (u=a*v) planted in 20% of exact cases; empty and all-zero divisors (+-0.0) of length 0..6. Judged: Ok, u==q*v+r (exact / 64(deg u+1)u relative in double-double), r=0 or deg r<deg v, no panic, loop passes <= 4(deg u+2) (hook H4, logical steps). Every case non-trivial; distinct = distinct (type,u,v) hashes");
    rep.assumptions = vec!["divisors with a zero leading coefficient that are not identically zero are not generated (the property does not constrain them)".into(), "spin detection is decided on the loop counter delivered by hook H4, never on wall-clock".into()];
    rep.min_nontrivial = 2000;
    if !hook_live { rep.inconclusive.push("hook-H4-polydiv-step-silent".into()); }
    rep
}
