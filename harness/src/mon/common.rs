//! helpers shared by the monitors
use crate::fl::cabs;
use crate::rng::{hash_bytes, mix};
use ohsl::{Cmplx, Matrix};

pub fn hash_str(s: &str) -> u64 { hash_bytes(7, s.as_bytes()) }
#[inline]
pub fn hmix(h: u64, v: u64) -> u64 { mix(h, v) }

pub fn mat_f64(a: &Vec<Vec<f64>>) -> Matrix<f64> {
    let r = a.len();
    let c = if r > 0 { a[0].len() } else { 0 };
    let mut m = Matrix::<f64>::new(r, c, 0.0);
    for i in 0..r { for j in 0..c { m[(i, j)] = a[i][j]; } }
    m
}
pub fn mat_c(a: &Vec<Vec<Cmplx>>) -> Matrix<Cmplx> {
    let r = a.len();
    let c = if r > 0 { a[0].len() } else { 0 };
    let mut m = Matrix::<Cmplx>::new(r, c, Cmplx::new(0.0, 0.0));
    for i in 0..r { for j in 0..c { m[(i, j)] = a[i][j]; } }
    m
}

/// Gauss-Jordan with complete pivoting in f64. Returns an estimate of kappa_inf when the
/// smallest pivot is at least 2^-30 of the largest (numerically safely nonsingular), else None.
pub fn cp_cert_real(a: &Vec<Vec<f64>>) -> Option<f64> {
    let inv = cp_inverse_real(a)?;
    let norm = |m: &Vec<Vec<f64>>| m.iter().map(|r| r.iter().map(|v| v.abs()).sum::<f64>()).fold(0.0f64, f64::max);
    Some(norm(a) * norm(&inv))
}

pub fn cp_inverse_real(a: &Vec<Vec<f64>>) -> Option<Vec<Vec<f64>>> {
    let n = a.len();
    let mut m: Vec<Vec<f64>> = a.clone();
    let mut inv: Vec<Vec<f64>> = (0..n).map(|i| (0..n).map(|j| if i == j { 1.0 } else { 0.0 }).collect()).collect();
    let mut colperm: Vec<usize> = (0..n).collect();
    let (mut pmax, mut pmin) = (0.0f64, f64::INFINITY);
    for k in 0..n {
        let (mut bi, mut bj, mut bv) = (k, k, 0.0);
        for i in k..n { for j in k..n { if m[i][j].abs() > bv { bv = m[i][j].abs(); bi = i; bj = j; } } }
        if bv == 0.0 || !bv.is_finite() { return None; }
        pmax = pmax.max(bv); pmin = pmin.min(bv);
        m.swap(k, bi); inv.swap(k, bi);
        if bj != k { for row in m.iter_mut() { row.swap(k, bj); } colperm.swap(k, bj); }
        let p = m[k][k];
        for j in 0..n { m[k][j] /= p; inv[k][j] /= p; }
        for i in 0..n { if i != k { let f = m[i][k]; if f != 0.0 { for j in 0..n { m[i][j] -= f * m[k][j]; inv[i][j] -= f * inv[k][j]; } } } }
    }
    if pmin < pmax * 2f64.powi(-30) { return None; }
    // undo column permutation: row colperm[k] of true inverse = row k of inv
    let mut out = vec![vec![0.0; n]; n];
    for k in 0..n { out[colperm[k]] = inv[k].clone(); }
    Some(out)
}

pub fn cp_cert_cmplx(a: &Vec<Vec<Cmplx>>) -> Option<f64> {
    let n = a.len();
    let z = Cmplx::new(0.0, 0.0);
    let mut m = a.clone();
    let mut inv: Vec<Vec<Cmplx>> = (0..n).map(|i| (0..n).map(|j| if i == j { Cmplx::new(1.0, 0.0) } else { z }).collect()).collect();
    let (mut pmax, mut pmin) = (0.0f64, f64::INFINITY);
    for k in 0..n {
        let (mut bi, mut bj, mut bv) = (k, k, 0.0);
        for i in k..n { for j in k..n { if cabs(m[i][j]) > bv { bv = cabs(m[i][j]); bi = i; bj = j; } } }
        if bv == 0.0 || !bv.is_finite() { return None; }
        pmax = pmax.max(bv); pmin = pmin.min(bv);
        m.swap(k, bi); inv.swap(k, bi);
        if bj != k { for row in m.iter_mut() { row.swap(k, bj); } }
        let p = m[k][k];
        for j in 0..n { m[k][j] = m[k][j] / p; inv[k][j] = inv[k][j] / p; }
        for i in 0..n { if i != k { let f = m[i][k]; for j in 0..n { let t = m[k][j]; m[i][j] = m[i][j] - f * t; let t = inv[k][j]; inv[i][j] = inv[i][j] - f * t; } } }
    }
    if pmin < pmax * 2f64.powi(-30) { return None; }
    let norm = |m: &Vec<Vec<Cmplx>>| m.iter().map(|r| r.iter().map(|v| cabs(*v)).sum::<f64>()).fold(0.0f64, f64::max);
    // inf-norm of the inverse is invariant under the row permutation that the column swaps induce
    Some(norm(a) * norm(&inv))
}
