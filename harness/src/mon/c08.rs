//! C08 — iterative solvers: reported success means solved to the tolerance.
use crate::fl::{self, U};
use crate::mon::common::*;
use crate::rng::Rng;
use crate::run::{catch, par_run, Ctx, Outcome, Report, Stats};
use ohsl::{Sparse, Vector};

const TAG: u64 = 0xC08;
/// Allowed excess of the true residual over tol, in units u*(it+1)*(||A||_F*max_k||x_k||+||b||)/||b||*.
/// Calibrated on 3.6 M outcomes of the unchanged tree: CG/BiCG/BiCGSTAB worst 2.3 units; QMR's coupled
/// recurrences (d, s updated from p, A p) drift with the size of its *direction* vectors, not of the
/// iterates: worst 58 units, always at tol < 1e-11 next to its attainable-accuracy floor. A wrong
/// recurrence or an early Ok misses tol by a factor, i.e. by 1e3..1e12 units for tol >= 1e-10.
/// (QMR: since fix ab4c52c success is reported on the residual recomputed from x, so only the rounding of that one
/// evaluation is left - 64 units; before the fix its coupled recurrences needed 16384)
pub fn drift_units(sv: Solver) -> f64 { if sv == Solver::Qmr { 64.0 } else { 256.0 } }

#[derive(Clone, Copy, Debug, PartialEq)]
pub enum Solver { Cg, Bicg1, Bicg2, Bicgstab, Qmr }
pub const SOLVERS: [Solver; 5] = [Solver::Cg, Solver::Bicg1, Solver::Bicg2, Solver::Bicgstab, Solver::Qmr];
impl Solver {
    pub fn name(&self) -> &'static str { match self { Solver::Cg => "cg", Solver::Bicg1 => "bicg-itol1", Solver::Bicg2 => "bicg-itol2", Solver::Bicgstab => "bicgstab", Solver::Qmr => "qmr" } }
    pub fn call(&self, a: &Sparse<f64>, b: &Vector<f64>, x: &mut Vector<f64>, max_iter: usize, tol: f64) -> Result<usize, f64> {
        match self {
            Solver::Cg => a.solve_cg(b, x, max_iter, tol),
            Solver::Bicg1 => a.solve_bicg(b, x, max_iter, tol, 1),
            Solver::Bicg2 => a.solve_bicg(b, x, max_iter, tol, 2),
            Solver::Bicgstab => a.solve_bicgstab(b, x, max_iter, tol),
            Solver::Qmr => a.solve_qmr(b, x, max_iter, tol),
        }
    }
}

#[derive(Clone, Debug)]
pub struct Sys { pub n: usize, pub trip: Vec<(usize, usize, f64)>, pub class: &'static str }
impl Sys {
    pub fn dense(&self) -> Vec<Vec<f64>> { let mut d = vec![vec![0.0; self.n]; self.n]; for &(r, c, v) in &self.trip { d[r][c] = v; } d }
    pub fn sparse(&self, rng: &mut Rng) -> Sparse<f64> { let mut t = self.trip.clone(); rng.shuffle(&mut t); Sparse::<f64>::from_triplets(self.n, self.n, &mut t) }
    pub fn frob(&self) -> f64 { norm2(&self.trip.iter().map(|t| t.2).collect::<Vec<f64>>()) }
    pub fn max_row_nnz(&self) -> usize { let mut c = vec![0usize; self.n]; for t in &self.trip { c[t.0] += 1; } c.into_iter().max().unwrap_or(0) }
}

fn from_dense(d: &Vec<Vec<f64>>, class: &'static str) -> Sys {
    let n = d.len();
    let mut trip = vec![];
    for i in 0..n { for j in 0..n { if d[i][j] != 0.0 { trip.push((i, j, d[i][j])); } } }
    Sys { n, trip, class }
}

/// off-diagonal random pattern
fn offdiag(rng: &mut Rng, n: usize, sym: bool) -> Vec<Vec<f64>> {
    let p = if n <= 3 { 0.8 } else { rng.range(1.5, 5.0) / n as f64 };
    let mut d = vec![vec![0.0; n]; n];
    for i in 0..n { for j in 0..n { if i != j && (!sym || i < j) && rng.chance(p) { let v = rng.sym(); d[i][j] = v; if sym { d[j][i] = v; } } } }
    d
}

/// system classes of every kind (C08 makes no demand unless the solver answers Ok)
pub fn gen_any(rng: &mut Rng, n: usize) -> Sys {
    match rng.below(10) {
        0 => { // SPD: symmetric strictly dominant, positive diagonal
            let mut d = offdiag(rng, n, true); let m = rng.logpos(1e-3, 2.0);
            for i in 0..n { let s: f64 = d[i].iter().map(|v| v.abs()).sum(); d[i][i] = s + m; } from_dense(&d, "spd-dominant") }
        1 => { // SPD via B^T B + mu I
            let b = offdiag(rng, n, false); let mu = rng.logpos(1e-6, 1.0);
            let mut d = vec![vec![0.0; n]; n];
            for i in 0..n { for j in 0..n { let mut s = 0.0; for k in 0..n { s += b[k][i] * b[k][j]; } d[i][j] = s; } d[i][i] += mu; } from_dense(&d, "spd-gram") }
        2 => { let mut d = offdiag(rng, n, false); for i in 0..n { let s: f64 = d[i].iter().map(|v| v.abs()).sum(); d[i][i] = (s + rng.logpos(1e-2, 2.0)) * if rng.bool() { 1.0 } else { -1.0 }; } from_dense(&d, "nonsymmetric-dominant") }
        3 => { let mut d = offdiag(rng, n, false); for i in 0..n { d[i][i] = rng.sym() * 2.0; } from_dense(&d, "nonsymmetric-general") }
        4 => { let mut d = offdiag(rng, n, true); for i in 0..n { d[i][i] = rng.sym() * 3.0; } from_dense(&d, "symmetric-indefinite") }
        5 => { // badly row-scaled dominant
            let mut d = offdiag(rng, n, false); for i in 0..n { let s: f64 = d[i].iter().map(|v| v.abs()).sum(); d[i][i] = s + 0.5; let sc = 2f64.powi(rng.int(-20, 20) as i32); for v in d[i].iter_mut() { *v *= sc; } } from_dense(&d, "row-scaled") }
        6 => { let sy = rng.bool(); let mut d = offdiag(rng, n, sy); for i in 0..n { let s: f64 = d[i].iter().map(|v| v.abs()).sum(); d[i][i] = s * (1.0 + 1e-6) + 1e-9; } from_dense(&d, "nearly-singular-dominant") }
        8 => { // small-integer systems of low order: exact breakdowns (rho == 0, p.Ap == 0) happen here, never on float-random data
            let mut d = vec![vec![0.0; n.min(6)]; n.min(6)];
            for row in d.iter_mut() { for v in row.iter_mut() { *v = rng.int(-3, 3) as f64; } }
            from_dense(&d, "small-integer") }
        _ => { // exactly singular: zero row/column or duplicated row
            let mut d = offdiag(rng, n, false); for i in 0..n { d[i][i] = 1.0 + rng.unit(); }
            let k = rng.usize(0, n - 1);
            if n >= 2 && rng.bool() { let k2 = (k + 1) % n; d[k2] = d[k].clone(); } else { for v in d[k].iter_mut() { *v = 0.0; } if rng.bool() { for i in 0..n { d[i][k] = 0.0; } } }
            from_dense(&d, "exactly-singular") }
    }
}

/// Euclidean norm, safe over the whole exponent range: the entries are brought to O(1) by an exact power of two first
pub fn norm2(v: &[f64]) -> f64 {
    let m = v.iter().fold(0.0f64, |m, x| if x.abs() > m || x.is_nan() { x.abs() } else { m });
    if m == 0.0 || !m.is_finite() { return m; }
    let e = (m.log2().floor() as i32).clamp(-1000, 1000);
    let (s1, s2) = (2f64.powi(-(e / 2)), 2f64.powi(-(e - e / 2)));
    let w: Vec<f64> = v.iter().map(|x| x * s1 * s2).collect();
    fl::dot_dd(&w, &w).f().sqrt() / s1 / s2
}

/// true residual ||b - A x||_2 in double-double
pub fn true_resid(d: &Vec<Vec<f64>>, x: &[f64], b: &[f64]) -> f64 {
    let n = b.len();
    let mut s = fl::DD::ZERO;
    let _ = &mut s;
    let mut res = vec![0.0; n];
    for i in 0..n { let mut r = fl::DD::from(b[i]); for j in 0..n { if d[i][j] != 0.0 { r = r - fl::DD::prod(d[i][j], x[j]); } } res[i] = r.f(); }
    norm2(&res)
}

pub fn bits(v: &[f64]) -> Vec<u64> { v.iter().map(|x| x.to_bits()).collect() }

/// max_k ||x_k||_2 over the iterates, obtained at the client boundary by budget replay
pub fn max_iterate_norm(sv: Solver, a: &Sparse<f64>, b: &Vector<f64>, x0: &[f64], it: usize, tol: f64) -> f64 {
    let mut m = norm2(x0);
    for k in 1..=it {
        let mut x = Vector::create(x0.to_vec());
        let _ = catch(|| sv.call(a, b, &mut x, k, tol));
        let nk = norm2(&x.vec);
        if nk.is_finite() && nk > m { m = nk; }
    }
    m
}

pub struct OkJudgement { pub excess_units: f64, pub violated: bool, pub detail: String }

/// the C08 implication for an Ok(it) answer
pub fn judge_ok(sv: Solver, sys: &Sys, d: &Vec<Vec<f64>>, a: &Sparse<f64>, b: &[f64], x0: &[f64], x: &[f64], it: usize, tol: f64) -> OkJudgement {
    let bn = norm2(b);
    let bstar = if bn == 0.0 { 1.0 } else { bn };
    let tr = true_resid(d, x, b) / bstar;
    let unit = |m: f64| U * (it as f64 + 1.0) * (sys.frob() * m + bn) / bstar;
    let m0 = norm2(x0).max(norm2(x));
    // (a drift unit that overflows - a guess more than 1e308 times larger than b in the units of A - allows everything: the
    //  statement's own allowance is proportional to the largest iterate; inf/inf must not read as a violation)
    let excess = |u: f64| -> f64 { if tr <= tol || !u.is_finite() { 0.0 } else if !tr.is_finite() && u > 1e290 { 0.0 } else { (tr - tol) / u } };
    let mut units = excess(unit(m0));
    let mut mused = m0;
    // whenever the cheap lower bound on the iterate norms is not already comfortable, obtain the true
    // maximum over the iterates by budget replay (this is the quantity the property's drift term names)
    if units > 1.0 {
        let bv = Vector::create(b.to_vec());
        mused = max_iterate_norm(sv, a, &bv, x0, it, tol).max(m0);
        units = excess(unit(mused));
    }
    OkJudgement { excess_units: units, violated: !(units <= drift_units(sv)), detail: format!("true relative residual {:e}, tol {:e}, drift unit {:e} (max iterate norm {:e}), excess {:.2} units > {}", tr, tol, unit(mused), mused, units, drift_units(sv)) }
}

fn one_system(st: &mut Stats, rng: &mut Rng) {
    let n = if rng.chance(0.25) { rng.usize(1, 4) } else { rng.usize(1, 60) };
    let sys = gen_any(rng, n);
    let n = sys.n;
    let d = sys.dense();
    let a = match catch(|| sys.sparse(rng)) { Outcome::Ok(a) => a, _ => return };
    let bkind = if sys.class == "small-integer" { 9 } else { rng.below(8) };
    let b: Vec<f64> = match bkind { 0 => vec![0.0; n], 1 => (0..n).map(|_| rng.sym() * 1e6).collect(), 2 => (0..n).map(|_| rng.sym() * 1e-6).collect(), 3 => { let sc = *rng.pick(&[1e-18, 1e-40, 1e40, 1e-80, 2f64.powi(-520), 2f64.powi(-500), 2f64.powi(-540), 2f64.powi(-528), 1e100, 1e150, 1e200, 1e-200, 1e-250, 1e250]); (0..n).map(|_| rng.sym() * sc).collect() } 9 => (0..n).map(|_| rng.int(-3, 3) as f64).collect(), _ => (0..n).map(|_| rng.sym()).collect() };
    // (kind 4: a 'wild' guess whose entries span the whole exponent range, subnormals included - any guess is a legitimate
    //  input, and with a zero budget it must come back bit for bit)
    let x0: Vec<f64> = match rng.below(5) { 0 | 1 => vec![0.0; n], 2 => (0..n).map(|_| rng.sym()).collect(), 3 => (0..n).map(|_| rng.sym() * 1e3).collect(), _ => (0..n).map(|_| match rng.below(6) { 0 => 0.0, 1 => f64::from_bits(rng.below(1 << 40) + 1) * if rng.bool() { 1.0 } else { -1.0 }, _ => rng.sym() * 10f64.powf(rng.range(-300.0, 300.0)) }).collect() };
    let tol = rng.logpos(1e-12, 1e-2);
    let budget = if sys.class == "small-integer" { rng.usize(0, 2 * n + 2) } else { *rng.pick(&[0usize, 1, 2, 3, 4, n, 3 * n + 10, 20 * n + 50]) };
    let x0: Vec<f64> = if sys.class == "small-integer" && rng.bool() { vec![0.0; n] } else { x0 };
    let bv = Vector::create(b.clone());
    for sv in SOLVERS {
        st.next_case();
        let desc = || format!("solver={} class={} n={} tol={:e} max_iter={} b={:?} x0={:?} triplets={:?}", sv.name(), sys.class, n, tol, budget, b, x0, sys.trip);
        let mut x = Vector::create(x0.clone());
        let out = catch(|| sv.call(&a, &bv, &mut x, budget, tol));
        st.eval();
        let res = match out { Outcome::Ok(r) => r, o => { st.violation(&format!("C08:{}:panic", sv.name()), format!("{}; {}", o.describe(), desc())); continue; } };
        // determinism: the same call twice gives a bit-identical outcome
        let mut x2 = Vector::create(x0.clone());
        let res2 = catch(|| sv.call(&a, &bv, &mut x2, budget, tol));
        let same = match (&res, &res2) { (Ok(p), Outcome::Ok(Ok(q))) => p == q, (Err(p), Outcome::Ok(Err(q))) => p.to_bits() == q.to_bits(), _ => false };
        if !same || bits(&x.vec) != bits(&x2.vec) { st.violation(&format!("C08:{}:nondeterministic", sv.name()), desc()); }
        if budget == 0 && bits(&x.vec) != bits(&x0) { st.violation(&format!("C08:{}:zero-budget-touched-x", sv.name()), format!("x after = {:?}; {}", x.vec, desc())); }
        st.count(&format!("outcomes:{}:{}:{}", sv.name(), sys.class, if res.is_ok() { "Ok" } else { "Err" }));
        if let Ok(it) = res {
            if it > budget { st.violation(&format!("C08:{}:iterations-exceed-budget", sv.name()), format!("Ok({}) with max_iter {}; {}", it, budget, desc())); }
            if x.vec.len() != n || !fl::all_finite(&x.vec) { st.violation(&format!("C08:{}:ok-nonfinite-x", sv.name()), format!("Ok({}) but x = {:?}; {}", it, x.vec, desc())); continue; }
            let j = judge_ok(sv, &sys, &d, &a, &b, &x0, &x.vec, it, tol);
            st.max(&format!("excess_units:{}", sv.name()), j.excess_units);
            if j.violated { st.violation(&format!("C08:{}:ok-but-unsolved", sv.name()), format!("Ok({}): {}; x={:?}; {}", it, j.detail, x.vec, desc())); }
            // metamorphic: the budget only bounds the loop, so re-running with max_iter == it must give the same Ok(it) and x
            if it > 0 && it < budget && rng.chance(0.3) {
                let mut x4 = Vector::create(x0.clone());
                let r4 = catch(|| sv.call(&a, &bv, &mut x4, it, tol));
                if !matches!(r4, Outcome::Ok(Ok(k)) if k == it) || bits(&x4.vec) != bits(&x.vec) { st.violation(&format!("C08:{}:exact-budget-differs", sv.name()), format!("with max_iter = {} (the count reported under max_iter = {}) the answer is {:?}; {}", it, budget, r4, desc())); }
            }
            // metamorphic: units. A*2^alpha, x0*2^beta, b*2^(alpha+beta) is the same problem in other units (all scalings
            // exact); the solver must take the same number of iterations and return x*2^beta bit for bit, also when the scaled
            // problem has a tiny guess next to a huge matrix, or a right-hand side in the top binade
            // (only for guesses within 60 decades of the right-hand side in the units of A: the squared initial residual must be
            //  representable in both unit systems)
            if it >= 1 && b.iter().any(|v| *v != 0.0) && sys.frob() * norm2(&x0) <= 1e60 * norm2(&b) && rng.chance(0.35) && x0.iter().chain(&x.vec).all(|v| *v == 0.0 || (v.abs() > 1e-250 && v.abs() < 1e250)) {
                let bmax = b.iter().fold(0.0f64, |m, v| m.max(v.abs()));
                let p2 = |e: i32| -> (f64, f64) { (2f64.powi(e / 2), 2f64.powi(e - e / 2)) };
                let (alpha, beta) = if bmax > 0.0 && rng.chance(0.1) { let al = rng.int(-200, 200) as i32; (al, 1023 - bmax.log2().floor() as i32 - al) } else { (rng.int(-330, 330) as i32, rng.int(-660, 660) as i32) };
                let okr = |v: f64, e: i32, top: bool| v == 0.0 || { let m = v.abs().log2() + e as f64; m > -960.0 && (m < 960.0 || (top && m < 1023.999)) };
                // products of the form (A v).(A v) with v at the scale of b (or O(1) once b is rescaled by the library) must stay
                // representable in the scaled units: that is a limit of every unscaled Krylov recurrence, not a defect
                // log2 sizes of A, b, x0 in both unit systems; the recurrences form (A v).(A v) with v at the scale of the
                // initial residual max(||b||, ||A|| ||x0||) (divided by max|b_i| once the library has rescaled b)
                // (the guess OR the largest iterate of the original run, whichever is larger: after a near-breakdown the iterates and
                //  residuals spike by many orders of magnitude - thorough seed 5 - and the spike must be representable in both unit systems too)
                let mmax = max_iterate_norm(sv, &a, &bv, &x0, it, tol).max(norm2(&x0));
                let fx0 = if mmax == 0.0 { f64::NEG_INFINITY } else { mmax.log2() };
                // ... down to the scale of the CONVERGED residual tol*||b|| (thorough seed 3: (A s).(A s) went subnormal near
                // convergence in the scaled units only, which changed the last bits and once the iteration count by two)
                let ltol = tol.log2() - 10.0;
                let ok_units = |fa: f64, fb: f64, fx: f64, bm: f64| -> bool {
                    let in_window = bm > 1.0e-100 && bm < 1.0e100; // the library's own test (src/sparse.rs rhs_scale)
                    let frs = if in_window { fb.max(fa + fx) } else { (fa + fx - fb).max(0.0) };
                    let fmin = if in_window { fb + ltol } else { ltol };
                    (fa + frs).abs() < 460.0 && frs.abs() < 460.0 && fa.abs() < 900.0 && (fa + fmin).abs() < 460.0 && fmin.abs() < 460.0
                };
                let bmax2 = { let (f, g) = p2(alpha + beta); bmax * f * g };
                let prod_ok = ok_units(sys.frob().log2() + alpha as f64, norm2(&b).log2() + (alpha + beta) as f64, fx0 + beta as f64, bmax2);
                let prod_ok0 = ok_units(sys.frob().log2(), norm2(&b).log2(), fx0, bmax);
                if prod_ok && prod_ok0 && sys.trip.iter().all(|t| okr(t.2, alpha, false) && okr(t.2, 0, false)) && x0.iter().chain(&x.vec).all(|v| okr(*v, beta, false)) && b.iter().all(|v| okr(*v, alpha + beta, true) && okr(*v, 0, false)) && d.iter().flatten().zip(std::iter::repeat(0)).all(|(v, _)| okr(*v, alpha, false)) {
                    let sc = |v: f64, e: i32| { let (f, g) = p2(e); v * f * g };
                    let sys2 = Sys { n, trip: sys.trip.iter().map(|t| (t.0, t.1, sc(t.2, alpha))).collect(), class: sys.class };
                    // same storage order as `a`: rebuilt from a's own triplet view
                    let a2 = catch(|| { let mut t: Vec<(usize, usize, f64)> = a.to_triplets().into_iter().map(|t| (t.0, t.1, sc(t.2, alpha))).collect(); Sparse::<f64>::from_triplets(n, n, &mut t) });
                    if let Outcome::Ok(a2) = a2 {
                        let b2 = Vector::create(b.iter().map(|v| sc(*v, alpha + beta)).collect::<Vec<f64>>());
                        let mut x2 = Vector::create(x0.iter().map(|v| sc(*v, beta)).collect::<Vec<f64>>());
                        let r2 = catch(|| sv.call(&a2, &b2, &mut x2, budget, tol));
                        st.eval();
                        let want: Vec<f64> = x.vec.iter().map(|v| sc(*v, beta)).collect();
                        let same = matches!(r2, Outcome::Ok(Ok(k)) if k == it) && x2.vec.iter().zip(&want).all(|(p, q)| p.to_bits() == q.to_bits() || (*p == 0.0 && *q == 0.0));
                        if !same { st.violation(&format!("C08:{}:unit-dependent", sv.name()), format!("A*2^{}, x0*2^{}, b*2^{}: answer {:?} with x = {:?}; in the original units Ok({}) with x = {:?} (expected the same count and x*2^{}); {}", alpha, beta, alpha + beta, r2, x2.vec, it, x.vec, beta, desc())); }
                        st.count("unit-scaling-checks");
                        let _ = sys2;
                    }
                }
            }
            // metamorphic: a larger budget does not change an Ok answer
            if it > 0 && rng.chance(0.2) {
                let mut x3 = Vector::create(x0.clone());
                let r3 = catch(|| sv.call(&a, &bv, &mut x3, budget + 7, tol));
                if !matches!(r3, Outcome::Ok(Ok(k)) if k == it) || bits(&x3.vec) != bits(&x.vec) { st.violation(&format!("C08:{}:budget-dependent-answer", sv.name()), desc()); }
            }
            if n >= 2 && it >= 1 { let mut h = hash_str(sv.name()) ^ hash_str(sys.class); for t in sys.trip.iter().take(6) { h = hmix(h, t.2.to_bits()); } st.nontrivial(hmix(h, tol.to_bits())); }
            st.set_insert(&format!("ok-iterations:{}", sv.name()), format!("{}", it.min(200)));
        }
        st.sample(|| desc());
    }
}

pub fn run(ctx: &Ctx) -> Report {
    let units = ctx.vol(6000, 450_000);
    let stats = par_run(ctx, TAG, units, |_u, rng, st| { for _ in 0..4 { one_system(st, rng); } });
    let mut rep = Report::new(stats,
        "random square sparse systems of order 1..60 of 9 kinds (small-integer low-order systems where exact breakdowns occur, SPD dominant, SPD Gram, nonsymmetric dominant, nonsymmetric general, symmetric indefinite, row-scaled 2^+-20, nearly singular, exactly singular), rhs zero/1e+-6/1e-18/1e+-40/1e-80/O(1), x0 zero/random/1e3*random, tol log-uniform 1e-12..1e-2, budgets {0..4,n,3n+10,20n+50}; all five solver variants on each. Judged: no panic, determinism, zero budget leaves x bit-identical, and whenever Ok(it): it<=max_iter, x finite, true residual (double-double, dense copy) <= tol + 256 (QMR: 16384) drift units u*(it+1)*(||A||_F*max_k||x_k||+||b||)/||b||* (max over iterates by budget replay when needed). Non-trivial: an Ok outcome with it>=1 on n>=2; distinct = distinct (solver,class,entries,tol) hashes");
    rep.assumptions = vec!["drift allowance 256 units (QMR 64 since fix ab4c52c made its success a true-residual test) fixed; measured worst excess on the unchanged tree is recorded under maxima excess_units:* (2.3 / 0.03 over 3.6 M outcomes)".into(), "nothing is demanded when the solver answers Err (that half is C09)".into()];
    rep.min_nontrivial = 300;
    rep
}
