//! C14 — complex functions match their definitions, invert correctly, use principal branches.
//!
//! Oracles (all judged on the real `Complex<f64>` methods):
//!  * reference values in double-double (DD, ~1e-31) from *definitions*: exp by Taylor series with
//!    scaling/squaring, sin/cos/sinh/cosh from the complex exponential, ln = ln|z| + i atan2 (DD Newton),
//!    inverse functions from the DLMF principal-value closed forms evaluated in DD (where the textbook
//!    cancellation costs 1e6 of 1e-31 and is harmless), each reference self-checked in DD by F(ref)=z;
//!  * real-axis reduction against the real libm functions (independent of the DD code);
//!  * right inverse F(F^-1(z)) = z through the library's own forward function;
//!  * principal ranges; reciprocal / Pythagorean identities; z^w = exp(w ln z); polar round trip.
//! Envelopes are condition-aware: they are first-order rounding models of the formula the library
//! actually evaluates (sizes of the intermediates taken from the DD evaluation, never from the library
//! output), times a fixed head-room constant.
use crate::fl::{hexf, CDD, DD, U};
use crate::json::J;
use crate::mon::common::*;
use crate::rng::Rng;
use crate::run::{catch, par_run, Ctx, Outcome, Report, Stats};
use ohsl::{Cmplx, Signed};
use std::sync::OnceLock;

const TAG: u64 = 0xC14;

// ------------------------------------------------------------------------------------------------
// fixed tolerances (see final report / "maxima" in the output for the measured worst ratios)
// ------------------------------------------------------------------------------------------------
// Measured on the unchanged tree (thorough, seed 1, 5.1e6 points; see "maxima" in the output):
//   forward functions: worst |lib-ref| = 8.3 u|ref| (cot; tan 7.2, tanh 6.9, sin 3.5, exp 2.5, sqrt 3.0)  -> 4.1e-3 of threshold
//   inverse functions: worst |lib-ref| = 0.99 u*E (asin/acos/asinh; ln 0.95, acosh 0.94, atan 0.32)       -> 3.9e-3 of threshold
//   right inverse: <= 2.7e-3 of threshold; pow/powf <= 2.4e-3; log 3.7e-3; polar/abs/arg <= 2e-3;
//   reciprocal identities 1.5e-3, Pythagorean 6.8e-3; range excess <= 7e-4 of the slack.
// Every constant therefore leaves >= 147x head-room, while a wrong branch/sign/formula is off by O(1).
/// forward functions (exp, sin, ..., coth, sqrt, abs, arg, abs_sqr, polar): |lib-ref| <= K_FWD*u*|ref|
const K_FWD: f64 = 2048.0;
/// inverse functions: |lib-ref| <= K_INV*u*E where E is the natural-unit rounding model of the kernel
const K_INV: f64 = 256.0;
/// pow / powf / log: |lib-ref| <= K_POW*u*cond*|ref|
const K_POW: f64 = 256.0;
/// identities between library values (reciprocal, Pythagorean)
const K_ID: f64 = 256.0;
/// value checks are only demanded when the absolute envelope is below this (else counted as skipped)
const ENV_CAP: f64 = 1e-3;
/// the DD reference must reproduce z through the DD forward function to 2^-85 of the same error model
const SELF_SCALE: f64 = 2.5849394142282115e-26;

// ------------------------------------------------------------------------------------------------
// double-double real elementary functions
// ------------------------------------------------------------------------------------------------
const PI_DD: DD = DD { hi: 3.141592653589793116e+00, lo: 1.224646799147353207e-16 };
const PI2_1: f64 = 1.570796326794896558e+00;
const PI2_2: f64 = 6.123233995736766036e-17;
const PI2_3: f64 = -1.497384904859169833e-33;
const LN2_DD: DD = DD { hi: 6.931471805599452862e-01, lo: 2.319046813846299558e-17 };

fn dd(x: f64) -> DD { DD::from(x) }
fn dmulf(a: DD, b: f64) -> DD { a * DD::from(b) }
/// exact scaling by a power of two
fn dscale(a: DD, p: f64) -> DD { DD { hi: a.hi * p, lo: a.lo * p } }
fn dis_zero(a: DD) -> bool { a.hi == 0.0 && a.lo == 0.0 }
fn dneg(a: DD) -> bool { a.hi < 0.0 || (a.hi == 0.0 && a.lo < 0.0) }

fn inv_fact() -> &'static [DD; 34] {
    static T: OnceLock<[DD; 34]> = OnceLock::new();
    T.get_or_init(|| {
        let mut t = [DD::ONE; 34];
        for n in 1..34 { t[n] = t[n - 1] / dd(n as f64); }
        t
    })
}

/// e^x for |x| <= 700
fn dd_exp(x: DD) -> DD {
    if !(x.hi.abs() <= 700.0) { return dd(x.hi.exp()); }
    let k = (x.hi / LN2_DD.hi).round();
    let r = (x - DD::prod(k, LN2_DD.hi)) - DD::prod(k, LN2_DD.lo);
    let r = dscale(r, 1.0 / 16.0); // |r| <= 0.0217
    let f = inv_fact();
    let mut s = f[14];
    for n in (0..14).rev() { s = s * r + f[n]; }
    for _ in 0..4 { s = s * s; }
    let k = k as i32;
    let (k1, k2) = (k / 2, k - k / 2);
    dscale(dscale(s, 2f64.powi(k1)), 2f64.powi(k2))
}

/// (sin x, cos x) for |x| <= 1e5
fn dd_sincos(x: DD) -> (DD, DD) {
    let k = (x.hi / PI2_1).round();
    let r = ((x - DD::prod(k, PI2_1)) - DD::prod(k, PI2_2)) - DD::prod(k, PI2_3);
    let r2 = r * r;
    let f = inv_fact();
    // sin r = r * sum_j (-1)^j r^{2j}/(2j+1)!   cos r = sum_j (-1)^j r^{2j}/(2j)!   (j <= 15)
    let coef = |j: usize, odd: bool| { let v = f[2 * j + if odd { 1 } else { 0 }]; if j % 2 == 0 { v } else { -v } };
    let mut ss = coef(15, true);
    let mut cs = coef(15, false);
    for j in (0..15).rev() {
        ss = ss * r2 + coef(j, true);
        cs = cs * r2 + coef(j, false);
    }
    let s = ss * r;
    let c = cs;
    match (k as i64).rem_euclid(4) {
        0 => (s, c),
        1 => (c, -s),
        2 => (-s, -c),
        _ => (-c, s),
    }
}

/// ln a for a > 0 (one Newton step on the DD exponential from the f64 logarithm)
fn dd_ln(a: DD) -> DD {
    let x0 = a.hi.ln();
    let e = dd_exp(dd(-x0));
    dd(x0) + (a * e - DD::ONE)
}

/// atan2(y, x) in (-pi, pi]; y == 0 with x < 0 gives +pi
fn dd_atan2(y: DD, x: DD) -> DD {
    if dis_zero(y) { return if dneg(x) { PI_DD } else { DD::ZERO }; }
    let t0 = y.hi.atan2(x.hi);
    let (s0, c0) = dd_sincos(dd(t0));
    let r = (x * x + y * y).sqrt();
    let d = (y * c0 - x * s0) / r; // sin(theta - t0)
    let d3 = d.hi * d.hi * d.hi / 6.0;
    dd(t0) + d + dd(d3)
}

// ------------------------------------------------------------------------------------------------
// double-double complex functions, from the definitions
// ------------------------------------------------------------------------------------------------
fn cdd(re: DD, im: DD) -> CDD { CDD { re, im } }
const C_ONE: CDD = CDD { re: DD::ONE, im: DD::ZERO };
fn cscale(a: CDD, p: f64) -> CDD { cdd(dscale(a.re, p), dscale(a.im, p)) }
fn cconj(a: CDD) -> CDD { cdd(a.re, -a.im) }
/// i*a (exact)
fn cmul_i(a: CDD) -> CDD { cdd(-a.im, a.re) }
fn cabs_dd(a: CDD) -> DD { (a.re * a.re + a.im * a.im).sqrt() }
fn cfinite(a: CDD) -> bool { a.re.hi.is_finite() && a.im.hi.is_finite() && a.re.lo.is_finite() && a.im.lo.is_finite() }

fn c_exp(z: CDD) -> CDD {
    let e = dd_exp(z.re);
    let (s, c) = dd_sincos(z.im);
    cdd(e * c, e * s)
}
/// principal logarithm; a zero imaginary part on the negative axis counts as "above" (Im = +pi)
fn c_ln(z: CDD) -> CDD {
    let r2 = z.re * z.re + z.im * z.im;
    cdd(dscale(dd_ln(r2), 0.5), dd_atan2(z.im, z.re))
}
/// principal square root (Re >= 0; negative real axis with zero imaginary part -> +i sqrt|x|)
fn c_sqrt(z: CDD) -> CDD {
    if dis_zero(z.re) && dis_zero(z.im) { return CDD::ZERO; }
    let r = cabs_dd(z);
    if !dneg(z.re) {
        let a = dscale(r + z.re, 0.5).sqrt();
        cdd(a, z.im / dscale(a, 2.0))
    } else {
        let b = dscale(r - z.re, 0.5).sqrt();
        let b = if dneg(z.im) { -b } else { b };
        cdd(z.im / dscale(b, 2.0), b)
    }
}
fn c_sin(z: CDD) -> CDD { let a = c_exp(cmul_i(z)); let b = c_exp(-cmul_i(z)); let d = a - b; cscale(cdd(d.im, -d.re), 0.5) } // (a-b)/(2i)
fn c_cos(z: CDD) -> CDD { cscale(c_exp(cmul_i(z)) + c_exp(-cmul_i(z)), 0.5) }
fn c_sinh(z: CDD) -> CDD { cscale(c_exp(z) - c_exp(-z), 0.5) }
fn c_cosh(z: CDD) -> CDD { cscale(c_exp(z) + c_exp(-z), 0.5) }
fn c_inv(z: CDD) -> CDD { C_ONE / z }

// ------------------------------------------------------------------------------------------------
// the functions under test
// ------------------------------------------------------------------------------------------------
#[derive(Clone, Copy, PartialEq, Eq, Debug)]
enum Fid {
    Exp, Sin, Cos, Tan, Sec, Csc, Cot, Sinh, Cosh, Tanh, Sech, Csch, Coth, Sqrt,
    Ln, Asin, Acos, Atan, Asec, Acsc, Acot, Asinh, Acosh, Atanh, Asech, Acsch, Acoth,
}
use Fid::*;
const NF: usize = 27;
const FORWARD: [Fid; 14] = [Exp, Sin, Cos, Tan, Sec, Csc, Cot, Sinh, Cosh, Tanh, Sech, Csch, Coth, Sqrt];
const INVERSE: [Fid; 13] = [Ln, Asin, Acos, Atan, Asec, Acsc, Acot, Asinh, Acosh, Atanh, Asech, Acsch, Acoth];

impl Fid {
    fn idx(self) -> usize { self as usize }
    fn name(self) -> &'static str {
        ["exp", "sin", "cos", "tan", "sec", "csc", "cot", "sinh", "cosh", "tanh", "sech", "csch", "coth", "sqrt",
         "ln", "asin", "acos", "atan", "asec", "acsc", "acot", "asinh", "acosh", "atanh", "asech", "acsch", "acoth"][self.idx()]
    }
    /// the real library call
    fn lib(self, z: &Cmplx) -> Cmplx {
        match self {
            Exp => z.exp(), Sin => z.sin(), Cos => z.cos(), Tan => z.tan(), Sec => z.sec(), Csc => z.csc(), Cot => z.cot(),
            Sinh => z.sinh(), Cosh => z.cosh(), Tanh => z.tanh(), Sech => z.sech(), Csch => z.csch(), Coth => z.coth(),
            Sqrt => z.sqrt(), Ln => z.ln(),
            Asin => z.asin(), Acos => z.acos(), Atan => z.atan(), Asec => z.asec(), Acsc => z.acsc(), Acot => z.acot(),
            Asinh => z.asinh(), Acosh => z.acosh(), Atanh => z.atanh(), Asech => z.asech(), Acsch => z.acsch(), Acoth => z.acoth(),
        }
    }
    /// definition of the forward functions in DD
    fn fwd_ref(self, z: CDD) -> CDD {
        match self {
            Exp => c_exp(z), Sin => c_sin(z), Cos => c_cos(z), Tan => c_sin(z) / c_cos(z),
            Sec => c_inv(c_cos(z)), Csc => c_inv(c_sin(z)), Cot => c_cos(z) / c_sin(z),
            Sinh => c_sinh(z), Cosh => c_cosh(z), Tanh => c_sinh(z) / c_cosh(z),
            Sech => c_inv(c_cosh(z)), Csch => c_inv(c_sinh(z)), Coth => c_cosh(z) / c_sinh(z),
            Sqrt => c_sqrt(z),
            _ => CDD::ZERO,
        }
    }
    /// forward function that the inverse must invert
    fn forward_of(self) -> Fid {
        match self {
            Ln => Exp, Asin => Sin, Acos => Cos, Atan => Tan, Asec => Sec, Acsc => Csc, Acot => Cot,
            Asinh => Sinh, Acosh => Cosh, Atanh => Tanh, Asech => Sech, Acsch => Csch, Acoth => Coth,
            o => o,
        }
    }
    /// odd functions whose cuts lie on the imaginary axis (the two sides are w and -conj w)
    fn imag_axis_cut(self) -> bool { matches!(self, Atan | Acot | Asinh | Acsch) }
    /// exact poles (the function is unbounded there: outside the non-overflowing domain)
    fn pole_at(self, z: &Cmplx) -> bool {
        let (x, y) = (z.real, z.imag);
        match self {
            Atan | Acot => x == 0.0 && y.abs() == 1.0,
            Atanh | Acoth => y == 0.0 && x.abs() == 1.0,
            _ => false,
        }
    }
}

fn m(a: CDD) -> f64 { cabs_dd(a).f() }

/// reference value, natural-unit rounding envelope (units of u, absolute) and |F'(ref)| of the forward
/// function for an inverse function at z. The envelope models the formula the library evaluates:
///   asin/acos/asinh kernel: q=1-/+w^2, s=sqrt q, t=s+iw (s+w), ln t   (w = z or 1/z)
///   acosh kernel: p=sqrt(w-1)sqrt(w+1), t=p+w, ln t
///   atan/atanh kernel: (ln a1 - ln a2)/2 with a1,a2 = 1 -/+ iw (1 +/- w)
/// with: product/sum roundings u*|operand|, polar-form sqrt 4u|s| + (error of q)/(2|s|) (or the
/// square-root bound 2*sqrt|dq| next to the branch point), ln: 2u + 2u|ln|, atan2: u|theta|,
/// and, for the reciprocal-argument functions, a 4u relative perturbation of w through the exact
/// derivative of the kernel.
struct InvModel { r: CDD, e: f64, fp: f64 }

fn sqrt_err(eq: f64, mq: f64, ms: f64) -> f64 {
    // natural units; first-order eq/(2|s|), never more than 2*sqrt(|q|+u*eq)/u
    let a = eq / (2.0 * ms);
    let b = 2.0 * (mq + U * eq).sqrt() / U;
    (if a.is_nan() { b } else { a.min(b) }) + 4.0 * ms
}
fn in_err(mw: f64, md: f64) -> f64 {
    // 4u relative perturbation of w through a derivative of size 1/md with a sqrt-type singularity
    let a = 4.0 * mw / md;
    let b = 4.0 * (4.0 * U * mw).sqrt() / U;
    if a.is_nan() { b } else { a.min(b) }
}

fn inv_model(f: Fid, z: CDD) -> InvModel {
    let derived = matches!(f, Asec | Acsc | Acot | Asech | Acsch | Acoth);
    let w = if derived { c_inv(z) } else { z };
    let mz = m(z);
    let mw = m(w);
    let dfac = if derived { mz * mz } else { 1.0 };
    match f {
        Ln => { let l = c_ln(z); InvModel { r: l, e: 2.0 + 3.0 * m(l), fp: mz } }
        Asin | Acos | Asec | Acsc | Asinh | Acsch => {
            let hyper = matches!(f, Asinh | Acsch);
            let q = if hyper { w * w + C_ONE } else { C_ONE - w * w };
            let s = c_sqrt(q);
            let t = if hyper { s + w } else { s + cmul_i(w) };
            let l = c_ln(t);
            let (mq, ms, mt, ml) = (m(q), m(s), m(t), m(l));
            let eq = 2.0 * mw * mw + mq;
            let es = sqrt_err(eq, mq, ms);
            let et = es + mt;
            let el = et / mt + 2.0 * ml + 2.0;
            let ein = if derived { in_err(mw, ms) } else { 0.0 };
            let mut e = el + ein + ml;
            let r = if hyper { l } else {
                let a = cdd(l.im, -l.re); // -i ln t
                if matches!(f, Acos | Asec) { e += 4.0; cdd(dscale(PI_DD, 0.5) - a.re, -a.im) } else { a }
            };
            InvModel { r, e, fp: dfac * ms }
        }
        Acosh | Asech => {
            let s1 = c_sqrt(w - C_ONE);
            let s2 = c_sqrt(w + C_ONE);
            let p = s1 * s2;
            let t = p + w;
            let l = c_ln(t);
            let (mp, mt, ml) = (m(p), m(t), m(l));
            let el = (13.0 * mp + mt) / mt + 2.0 * ml + 2.0;
            let ein = if derived { in_err(mw, mp) } else { 0.0 };
            InvModel { r: l, e: el + ein + ml, fp: dfac * mp }
        }
        _ => {
            // Atan | Acot | Atanh | Acoth
            let hyper = matches!(f, Atanh | Acoth);
            let (a1, a2) = if hyper { (C_ONE + w, C_ONE - w) } else { (C_ONE - cmul_i(w), C_ONE + cmul_i(w)) };
            let (m1, m2) = (m(a1), m(a2));
            if m1 == 0.0 || m2 == 0.0 { return InvModel { r: CDD::ZERO, e: f64::INFINITY, fp: 0.0 }; }
            let (la, lb) = (c_ln(a1), c_ln(a2));
            let d = la - lb;
            let r = if hyper { cscale(d, 0.5) } else { cscale(cmul_i(d), 0.5) };
            let ein = if derived { 4.0 * mw / (m1 * m2) } else { 0.0 };
            let e = 6.0 + 2.0 * m(la) + 2.0 * m(lb) + 1.5 * m(d) + ein;
            InvModel { r, e, fp: dfac * m1 * m2 }
        }
    }
}

/// principal-range excess of a library value (0 when inside the closed range)
fn range_excess(f: Fid, v: &Cmplx) -> f64 {
    use std::f64::consts::{FRAC_PI_2 as H, PI as P};
    let over = |x: f64, lo: f64, hi: f64| if x < lo { lo - x } else if x > hi { x - hi } else { 0.0 };
    match f {
        Sqrt => over(v.real, 0.0, f64::INFINITY),
        Ln => over(v.imag, -P, P),
        Asin | Acsc | Atan | Acot => over(v.real, -H, H),
        Acos | Asec => over(v.real, 0.0, P),
        Asinh | Acsch | Atanh | Acoth => over(v.imag, -H, H),
        Acosh | Asech => over(v.real, 0.0, f64::INFINITY).max(over(v.imag, -P, P)),
        _ => 0.0,
    }
}
fn range_name(f: Fid) -> &'static str {
    match f {
        Sqrt => "Re>=0", Ln => "Im in [-pi,pi]", Asin | Acsc | Atan | Acot => "Re in [-pi/2,pi/2]", Acos | Asec => "Re in [0,pi]",
        Asinh | Acsch | Atanh | Acoth => "Im in [-pi/2,pi/2]", Acosh | Asech => "Re>=0, Im in [-pi,pi]", _ => "",
    }
}

// Rust's f64::atanh/asinh/acosh are std compositions that lose accuracy (atanh near +-1: 2x/(1-x) then
// ln_1p next to -1); the axis oracle uses ln_1p-based forms whose every step is well conditioned.
fn r_asinh(x: f64) -> f64 { let a = x.abs(); let v = (a + a * a / (1.0 + (a * a + 1.0).sqrt())).ln_1p(); if x < 0.0 { -v } else { v } }
fn r_acosh(x: f64) -> f64 { let d = x - 1.0; (d + (d * (x + 1.0)).sqrt()).ln_1p() }
fn r_atanh(x: f64) -> f64 { 0.5 * (x.ln_1p() - (-x).ln_1p()) }

/// real-axis reduction: the real libm value of f at x when f is real-valued there on the principal branch
fn real_axis(f: Fid, x: f64) -> Option<f64> {
    let ax = x.abs();
    Some(match f {
        Exp => x.exp(), Sin => x.sin(), Cos => x.cos(), Tan => x.tan(), Sec => 1.0 / x.cos(), Csc => 1.0 / x.sin(), Cot => 1.0 / x.tan(),
        Sinh => x.sinh(), Cosh => x.cosh(), Tanh => x.tanh(), Sech => 1.0 / x.cosh(), Csch => 1.0 / x.sinh(), Coth => 1.0 / x.tanh(),
        Sqrt => if x > 0.0 { x.sqrt() } else { return None },
        Ln => if x > 0.0 { x.ln() } else { return None },
        Asin => if ax <= 1.0 { x.asin() } else { return None },
        Acos => if ax <= 1.0 { x.acos() } else { return None },
        Atan => x.atan(),
        Asec => if ax >= 1.0 { (1.0 / x).acos() } else { return None },
        Acsc => if ax >= 1.0 { (1.0 / x).asin() } else { return None },
        Acot => (1.0 / x).atan(),
        Asinh => r_asinh(x),
        Acosh => if x >= 1.0 { r_acosh(x) } else { return None },
        Atanh => if ax < 1.0 { r_atanh(x) } else { return None },
        Asech => if x > 0.0 && x <= 1.0 { r_acosh(1.0 / x) } else { return None },
        Acsch => r_asinh(1.0 / x),
        Acoth => if ax > 1.0 { r_atanh(1.0 / x) } else { return None },
    })
}
/// imaginary-axis reduction f(iy) = (re, im) through real libm functions of y
fn imag_axis(f: Fid, y: f64) -> Option<(f64, f64)> {
    Some(match f {
        Exp => (y.cos(), y.sin()), Sin => (0.0, y.sinh()), Cos => (y.cosh(), 0.0), Tan => (0.0, y.tanh()),
        Sinh => (0.0, y.sin()), Cosh => (y.cos(), 0.0), Tanh => (0.0, y.tan()),
        Sec => (1.0 / y.cosh(), 0.0), Sech => (1.0 / y.cos(), 0.0), Csc => (0.0, -1.0 / y.sinh()), Csch => (0.0, -1.0 / y.sin()),
        Cot => (0.0, -1.0 / y.tanh()), Coth => (0.0, -1.0 / y.tan()),
        Asin => (0.0, r_asinh(y)), Atanh => (0.0, y.atan()),
        Atan => if y.abs() < 1.0 { (0.0, r_atanh(y)) } else { return None },
        Asinh => if y.abs() <= 1.0 { (0.0, y.asin()) } else { return None },
        Acsc => (0.0, -r_asinh(1.0 / y)), Acoth => (0.0, -(1.0 / y).atan()),
        Acot => if y.abs() > 1.0 { (0.0, -r_atanh(1.0 / y)) } else { return None },
        Acsch => if y.abs() >= 1.0 { (0.0, -(1.0 / y).asin()) } else { return None },
        _ => return None,
    })
}

// ------------------------------------------------------------------------------------------------
// judging
// ------------------------------------------------------------------------------------------------
/// per-unit accumulator of "observed error / threshold" maxima (flushed into Stats at the end of a unit)
struct Acc {
    refv: [f64; NF], axis: [f64; NF], rt: [f64; NF], range: [f64; NF], selfc: [f64; NF], nat: [f64; NF],
    misc: [f64; NMISC],
    capped: [u64; NF],
    checked: [u64; NF],
}
const NMISC: usize = 14;
const MISC_NAMES: [&str; NMISC] = ["pow:ref", "pow:exp-w-ln", "powf:ref", "powf:vs-pow", "log:ref", "polar:ref", "polar:roundtrip",
    "abs:ref", "arg:ref", "abs_sqr:ref", "identity:reciprocal", "identity:pythagorean", "pow:real-axis", "log:real-axis"];
impl Acc {
    fn new() -> Acc { Acc { refv: [0.0; NF], axis: [0.0; NF], rt: [0.0; NF], range: [0.0; NF], selfc: [0.0; NF], nat: [0.0; NF], misc: [0.0; NMISC], capped: [0; NF], checked: [0; NF] } }
    fn flush(&self, st: &mut Stats) {
        for f in FORWARD.iter().chain(INVERSE.iter()) {
            let i = f.idx();
            let n = f.name();
            st.max(&format!("frac-of-threshold:value:{}", n), self.refv[i]);
            st.max(&format!("frac-of-threshold:axis-reduction:{}", n), self.axis[i]);
            st.max(&format!("natural-units:value:{}", n), self.nat[i]);
            if self.checked[i] > 0 { st.add(&format!("judged:{}", n), self.checked[i]); }
            if INVERSE.contains(f) || *f == Sqrt {
                st.max(&format!("frac-of-threshold:right-inverse:{}", n), self.rt[i]);
                st.max(&format!("frac-of-slack:range:{}", n), self.range[i]);
            }
            if INVERSE.contains(f) {
                st.max(&format!("frac-of-tol:reference-selfcheck:{}", n), self.selfc[i]);
                if self.capped[i] > 0 { st.add(&format!("skipped:envelope-above-cap:{}", n), self.capped[i]); }
            }
        }
        for k in 0..NMISC { st.max(&format!("frac-of-threshold:{}", MISC_NAMES[k]), self.misc[k]); }
    }
}
#[inline]
fn upd(slot: &mut f64, v: f64) { if v > *slot { *slot = v; } }

fn showz(z: &Cmplx) -> String { format!("({}, {})", hexf(z.real), hexf(z.imag)) }
fn showr(r: CDD) -> String { format!("({:e}, {:e})", r.re.f(), r.im.f()) }
fn cdiff(v: &Cmplx, r: CDD) -> f64 { m(cdd(dd(v.real) - r.re, dd(v.imag) - r.im)) }
fn cdiff2(v: &Cmplx, re: f64, im: f64) -> f64 { (v.real - re).hypot(v.imag - im) }
fn fin(v: &Cmplx) -> bool { v.real.is_finite() && v.imag.is_finite() }
fn neg0(x: f64) -> bool { x == 0.0 && x.is_sign_negative() }

/// call a unary library function; a panic where a value is demanded is a violation
fn call(st: &mut Stats, f: Fid, z: &Cmplx) -> Option<Cmplx> {
    st.eval();
    match catch(|| f.lib(z)) {
        Outcome::Ok(v) => Some(v),
        other => {
            st.violation(&format!("C14:{}:Cmplx:refused", f.name()), format!("{}({}) {}", f.name(), showz(z), other.describe()));
            None
        }
    }
}

/// Evaluation points for the reference: z itself, or -- when z lies exactly on an axis that can carry a
/// cut of f -- the two one-sided limits, realised in DD by an offset of 1e-200 to either side (the DD
/// code has no signed zeros; 1e-200 is far below every rounding and far above underflow of its products).
/// ln / sqrt: only a negative-zero imaginary part on the negative real axis admits the lower side (both
/// readings of the property agree that +0 means the closed upper side, which the DD code returns for z itself).
const ETA: f64 = 1e-200;
/// A non-zero offset from an axis smaller than TINY (down to the smallest subnormal) still selects the side of a cut by
/// its SIGN, but its square underflows in the DD reference; the reference is therefore evaluated at the one-sided
/// limit +-ETA on that side (the functions are continuous up to the cut from either side).
const TINY: f64 = 1e-150;
fn sides(f: Fid, z: &Cmplx, zc: CDD) -> Vec<CDD> {
    let tiny = |x: f64| x != 0.0 && x.abs() < TINY;
    if matches!(f, Ln | Sqrt) {
        if neg0(z.imag) && z.real < 0.0 { return vec![zc, cdd(zc.re, dd(-ETA))]; }
        if tiny(z.imag) && z.real < 0.0 { return vec![cdd(zc.re, dd(ETA.copysign(z.imag)))]; }
        return vec![zc];
    }
    if !INVERSE.contains(&f) { return vec![zc]; }
    if tiny(z.imag) && z.real != 0.0 { return vec![cdd(zc.re, dd(ETA.copysign(z.imag)))]; }
    if tiny(z.real) && z.imag != 0.0 && f.imag_axis_cut() { return vec![cdd(dd(ETA.copysign(z.real)), zc.im)]; }
    if z.imag == 0.0 { return vec![cdd(zc.re, dd(ETA)), cdd(zc.re, dd(-ETA))]; }
    if z.real == 0.0 && f.imag_axis_cut() { return vec![cdd(dd(ETA), zc.im), cdd(dd(-ETA), zc.im)]; }
    vec![zc]
}

fn judge_axis(st: &mut Stats, acc: &mut Acc, f: Fid, z: &Cmplx, v: &Cmplx, env: f64) {
    let exp = if z.imag == 0.0 { real_axis(f, z.real).map(|r| (r, 0.0)) } else if z.real == 0.0 { imag_axis(f, z.imag) } else { None };
    if let Some((re, im)) = exp {
        if !(re.is_finite() && im.is_finite()) { return; }
        let mag = re.hypot(im);
        let tol = env + 8.0 * U * mag;
        let err = cdiff2(v, re, im);
        upd(&mut acc.axis[f.idx()], err / tol);
        if !(err <= tol) {
            st.violation(&format!("C14:{}:Cmplx:axis-reduction", f.name()),
                format!("{}({}) = {} but the real libm reduction gives ({:e}, {:e}); |diff| {:e} > {:e}", f.name(), showz(z), showz(v), re, im, err, tol));
        }
    }
}

fn judge_forward(st: &mut Stats, acc: &mut Acc, f: Fid, z: &Cmplx, zc: CDD) -> Option<Cmplx> {
    let r = f.fwd_ref(zc);
    let mr = m(r);
    if !cfinite(r) || !(mr < 1e300) { st.count("skipped:forward-reference-not-finite"); return None; }
    let v = call(st, f, z)?;
    acc.checked[f.idx()] += 1;
    let env = K_FWD * U * mr;
    let mut err = cdiff(&v, r);
    for zs in sides(f, z, zc).iter().skip(1) { err = err.min(cdiff(&v, f.fwd_ref(*zs))); }
    upd(&mut acc.refv[f.idx()], err / env);
    upd(&mut acc.nat[f.idx()], err / (U * mr));
    if !fin(&v) {
        st.violation(&format!("C14:{}:Cmplx:non-finite", f.name()), format!("{}({}) = {} (reference {})", f.name(), showz(z), showz(&v), showr(r)));
        return None;
    }
    if !(err <= env) {
        st.violation(&format!("C14:{}:Cmplx:value", f.name()),
            format!("{}({}) = {} but the definition gives {}; |diff| {:e} > {:e}", f.name(), showz(z), showz(&v), showr(r), err, env));
    }
    judge_axis(st, acc, f, z, &v, env);
    if f == Sqrt {
        let exc = range_excess(f, &v);
        if exc > 0.0 || v.real.is_nan() {
            st.violation("C14:sqrt:Cmplx:principal-range", format!("sqrt({}) = {} violates Re sqrt z >= 0", showz(z), showz(&v)));
        }
        let sq = v * v;
        let tol = 4.0 * K_FWD * U * m(zc);
        let e2 = cdiff(&sq, zc);
        upd(&mut acc.rt[f.idx()], e2 / tol);
        if !(e2 <= tol) {
            st.violation("C14:sqrt:Cmplx:right-inverse", format!("sqrt({})^2 = {} (sqrt = {}); |diff| {:e} > {:e}", showz(z), showz(&sq), showz(&v), e2, tol));
        }
    }
    Some(v)
}

fn judge_inverse(st: &mut Stats, acc: &mut Acc, f: Fid, z: &Cmplx, zc: CDD, selfcheck: bool) {
    if f.pole_at(z) { st.count("skipped:exact-pole"); return; }
    let models: Vec<InvModel> = sides(f, z, zc).into_iter().map(|zs| inv_model(f, zs)).collect();
    if models.iter().any(|mdl| !(K_INV * U * mdl.e <= ENV_CAP) || !cfinite(mdl.r)) {
        acc.capped[f.idx()] += 1;
        // The accuracy envelope is not usable here (exactly at / extremely close to a branch point or pole), but the
        // value exists: the function must still return a finite number on the right branch. Judged coarsely:
        // within 5% of (1+|reference|) of one of the admissible sides. A wrong branch or NaN is far outside that.
        if !models.iter().all(|mdl| cfinite(mdl.r)) {
            // exactly at a finite branch point (+-1 for the asin/acos family, +-i for asinh/acsch) the DD model
            // (which divides by sqrt(1-z^2)) is not usable, but the values are classical constants
            st.count(&format!("capped:reference-nonfinite:{}", f.name()));
            let (x, y) = (z.real, z.imag);
            let hp = std::f64::consts::FRAC_PI_2;
            let known: Option<(f64, f64)> = if y == 0.0 && x.abs() == 1.0 {
                match f { Asin | Acsc => Some((x * hp, 0.0)), Acos | Asec => Some((if x > 0.0 { 0.0 } else { 2.0 * hp }, 0.0)), Acosh | Asech => Some((0.0, if x > 0.0 { 0.0 } else { 2.0 * hp })), _ => None }
            } else if x == 0.0 && y.abs() == 1.0 {
                match f { Asinh => Some((0.0, y * hp)), Acsch => Some((0.0, -y * hp)), _ => None }
            } else { None };
            if let Some((kr, ki)) = known {
                st.count(&format!("branch-point-constants-checked:{}", f.name()));
                if let Some(v) = call(st, f, z) {
                    // acosh/asech at -1: either sign of the imaginary part is admissible on the cut
                    let d = ((v.real - kr).powi(2) + (v.imag - ki).powi(2)).sqrt().min(((v.real - kr).powi(2) + (v.imag + ki).powi(2)).sqrt());
                    if !fin(&v) { st.violation(&format!("C14:{}:Cmplx:non-finite", f.name()), format!("{}({}) = {} at the branch point; the value is ({:e},{:e})", f.name(), showz(z), showz(&v), kr, ki)); }
                    else if !(d <= 1e-6) { st.violation(&format!("C14:{}:Cmplx:value", f.name()), format!("{}({}) = {} at the branch point; the value is ({:e},{:e})", f.name(), showz(z), showz(&v), kr, ki)); }
                }
            }
        }
        if models.iter().all(|mdl| cfinite(mdl.r)) {
            st.count(&format!("capped:coarse-checked:{}", f.name()));
            if let Some(v) = call(st, f, z) {
                if !fin(&v) {
                    st.violation(&format!("C14:{}:Cmplx:non-finite", f.name()), format!("{}({}) = {} (reference {}, coarse check at a branch point)", f.name(), showz(z), showz(&v), showr(models[0].r)));
                } else {
                    let best = models.iter().map(|mdl| cdiff(&v, mdl.r) / (1.0 + m(mdl.r))).fold(f64::INFINITY, f64::min);
                    if !(best <= 0.05) { st.violation(&format!("C14:{}:Cmplx:value-coarse", f.name()), format!("{}({}) = {} but the principal value is {} (coarse 5% check at a branch point)", f.name(), showz(z), showz(&v), showr(models[0].r))); }
                }
            }
        }
        return;
    }
    let mz = m(zc);
    let fw = f.forward_of();
    for mdl in models.iter().filter(|_| selfcheck) {
        // the reference must itself be a right inverse in DD (guards the oracle, never a verdict on ohsl)
        let back = fw.fwd_ref(mdl.r);
        let e1 = mdl.e * SELF_SCALE;
        let tol = mdl.fp * e1 + 4.0 * (1.0 + mz).powi(3) * e1 * e1 + SELF_SCALE * (4.0 * mz + 1.0);
        let err = m(back - zc);
        upd(&mut acc.selfc[f.idx()], err / tol);
        if !(err <= tol) && st.harness_errors.len() < 5 {
            st.harness_errors.push(format!("C14 reference self-check failed: {}_DD({}) -> {} -> {}; err {:e} > {:e}", f.name(), showz(z), showr(mdl.r), showr(back), err, tol));
        }
    }
    let v = match call(st, f, z) { Some(v) => v, None => return };
    acc.checked[f.idx()] += 1;
    // the side whose (error / envelope) is smallest is the one the value is judged against
    let mut best = 0usize;
    for k in 1..models.len() { if cdiff(&v, models[k].r) / models[k].e < cdiff(&v, models[best].r) / models[best].e { best = k; } }
    let mdl = &models[best];
    let eabs = K_INV * U * mdl.e;
    let err = cdiff(&v, mdl.r);
    upd(&mut acc.refv[f.idx()], err / eabs);
    upd(&mut acc.nat[f.idx()], err / (U * mdl.e));
    if !fin(&v) {
        st.violation(&format!("C14:{}:Cmplx:non-finite", f.name()), format!("{}({}) = {} (reference {})", f.name(), showz(z), showz(&v), showr(mdl.r)));
        return;
    }
    if !(err <= eabs) {
        st.violation(&format!("C14:{}:Cmplx:value", f.name()),
            format!("{}({}) = {} but the principal value is {}; |diff| {:e} > envelope {:e} (natural {:e} u)", f.name(), showz(z), showz(&v), showr(mdl.r), err, eabs, mdl.e));
    }
    // principal range (closed range + the accuracy envelope; ln: the range of atan2, no slack)
    let slack = if f == Ln { 0.0 } else { eabs };
    let exc = range_excess(f, &v);
    if exc > 0.0 { upd(&mut acc.range[f.idx()], if slack > 0.0 { exc / slack } else { f64::INFINITY }); }
    if exc > slack {
        st.violation(&format!("C14:{}:Cmplx:principal-range", f.name()),
            format!("{}({}) = {} violates {} by {:e} (slack {:e})", f.name(), showz(z), showz(&v), range_name(f), exc, slack));
    }
    // right inverse through the library's own forward function
    st.eval();
    match catch(|| fw.lib(&v)) {
        Outcome::Ok(b) => {
            let tol = mdl.fp * eabs + 4.0 * (1.0 + mz).powi(3) * eabs * eabs + 4.0 * K_FWD * U * mz;
            let e2 = cdiff(&b, zc);
            upd(&mut acc.rt[f.idx()], e2 / tol);
            if !(e2 <= tol) {
                st.violation(&format!("C14:{}:Cmplx:right-inverse", f.name()),
                    format!("{}({}({})) = {} with {} = {}; |diff| {:e} > {:e}", fw.name(), f.name(), showz(z), showz(&b), f.name(), showz(&v), e2, tol));
            }
        }
        other => st.violation(&format!("C14:{}:Cmplx:refused", fw.name()), format!("{}({}) {}", fw.name(), showz(&v), other.describe())),
    }
    judge_axis(st, acc, f, z, &v, eabs);
}

fn call2<R>(st: &mut Stats, name: &str, desc: impl Fn() -> String, f: impl FnOnce() -> R) -> Option<R> {
    st.eval();
    match catch(f) {
        Outcome::Ok(v) => Some(v),
        other => { st.violation(&format!("C14:{}:Cmplx:refused", name), format!("{} {}", desc(), other.describe())); None }
    }
}

/// candidate logarithms of z: the principal one and, for a negative real z with a -0 imaginary part, the lower side
fn ln_sides(z: &Cmplx, zc: CDD) -> Vec<CDD> {
    let l = c_ln(zc);
    if neg0(z.imag) && z.real < 0.0 { vec![l, cconj(l)] } else { vec![l] }
}
/// the candidate with the smallest error relative to its own magnitude: (error, candidate)
fn min_diff(v: &Cmplx, cands: &[CDD]) -> (f64, CDD) {
    let mut best = (cdiff(v, cands[0]), cands[0]);
    for c in cands.iter().skip(1) { let e = cdiff(v, *c); if e / m(*c) < best.0 / m(best.1) { best = (e, *c); } }
    best
}
fn pow_cond(mw: f64, ml: f64) -> f64 { 5.0 + 6.0 * mw * (1.0 + ml) }

fn judge_pow(st: &mut Stats, acc: &mut Acc, z: &Cmplx, zc: CDD, w: &Cmplx) {
    let wc = CDD::from(*w);
    let ls = ln_sides(z, zc);
    let cands: Vec<CDD> = ls.iter().map(|l| c_exp(wc * *l)).collect();
    let ml = m(ls[0]);
    let mw = m(wc);
    let desc = || format!("pow(z={}, w={})", showz(z), showz(w));
    let v = match call2(st, "pow", desc, || z.pow(w)) { Some(v) => v, None => return };
    let (err, r) = min_diff(&v, &cands);
    let mr = m(r);
    let env = K_POW * U * pow_cond(mw, ml) * mr;
    upd(&mut acc.misc[0], err / env);
    if !fin(&v) || !(err <= env) {
        st.violation("C14:pow:Cmplx:value", format!("{} = {} but exp(w ln z) = {}; |diff| {:e} > {:e}", desc(), showz(&v), showr(r), err, env));
        return;
    }
    // z^w = exp(w ln z) between library values
    let zz = *z; let ww = *w;
    if let Some(e) = call2(st, "exp", desc, move || (ww * zz.ln()).exp()) {
        let d = cdiff2(&v, e.real, e.imag);
        let tol = 2.0 * env + K_FWD * U * mr;
        upd(&mut acc.misc[1], d / tol);
        if !(d <= tol) {
            st.violation("C14:pow:Cmplx:exp-w-ln", format!("{} = {} but exp(w*ln(z)) = {} (library values); |diff| {:e} > {:e}", desc(), showz(&v), showz(&e), d, tol));
        }
    }
    if z.imag == 0.0 && z.real > 0.0 && w.imag == 0.0 {
        let p = z.real.powf(w.real);
        let d = cdiff2(&v, p, 0.0);
        let tol = env + 8.0 * U * p.abs();
        upd(&mut acc.misc[12], d / tol);
        if !(d <= tol) { st.violation("C14:pow:Cmplx:axis-reduction", format!("{} = {} but real powf gives {:e}; |diff| {:e} > {:e}", desc(), showz(&v), p, d, tol)); }
    }
}

fn judge_powf(st: &mut Stats, acc: &mut Acc, z: &Cmplx, zc: CDD, x: f64) {
    let ls = ln_sides(z, zc);
    let cands: Vec<CDD> = ls.iter().map(|l| c_exp(cdd(dmulf(l.re, x), dmulf(l.im, x)))).collect();
    let desc = || format!("powf(z={}, x={})", showz(z), hexf(x));
    let v = match call2(st, "powf", desc, || z.powf(x)) { Some(v) => v, None => return };
    let (err, r) = min_diff(&v, &cands);
    let env = K_POW * U * pow_cond(x.abs(), m(ls[0])) * m(r);
    upd(&mut acc.misc[2], err / env);
    if !fin(&v) || !(err <= env) {
        st.violation("C14:powf:Cmplx:value", format!("{} = {} but exp(x ln z) = {}; |diff| {:e} > {:e}", desc(), showz(&v), showr(r), err, env));
        return;
    }
    let xw = Cmplx::new(x, 0.0);
    if let Some(p) = call2(st, "pow", desc, || z.pow(&xw)) {
        let d = cdiff2(&v, p.real, p.imag);
        upd(&mut acc.misc[3], d / (2.0 * env));
        if !(d <= 2.0 * env) { st.violation("C14:powf:Cmplx:vs-pow", format!("{} = {} but pow(z,(x,0)) = {}; |diff| {:e} > {:e}", desc(), showz(&v), showz(&p), d, 2.0 * env)); }
    }
    if z.imag == 0.0 && z.real > 0.0 {
        let p = z.real.powf(x);
        let d = cdiff2(&v, p, 0.0);
        let tol = env + 8.0 * U * p.abs();
        upd(&mut acc.misc[12], d / tol);
        if !(d <= tol) { st.violation("C14:powf:Cmplx:axis-reduction", format!("{} = {} but real powf gives {:e}; |diff| {:e} > {:e}", desc(), showz(&v), p, d, tol)); }
    }
}

fn judge_log(st: &mut Stats, acc: &mut Acc, z: &Cmplx, zc: CDD, b: &Cmplx) {
    let bc = CDD::from(*b);
    let lz = ln_sides(z, zc);
    let lb = ln_sides(b, bc);
    let mlb = m(lb[0]);
    if !(mlb >= 1e-3) { st.count("skipped:log-base-too-close-to-1"); return; }
    let mut cands = vec![];
    for a in &lz { for c in &lb { cands.push(*a / *c); } }
    let desc = || format!("log(z={}, base={})", showz(z), showz(b));
    let bb = *b;
    let v = match call2(st, "log", desc, move || z.log(bb)) { Some(v) => v, None => return };
    let (err, r) = min_diff(&v, &cands);
    let mr = m(r);
    let env = K_POW * U * (8.0 * mr + 2.0 / mlb + 2.0 * mr / mlb);
    upd(&mut acc.misc[4], err / env);
    if !fin(&v) || !(err <= env) {
        st.violation("C14:log:Cmplx:value", format!("{} = {} but ln z / ln b = {}; |diff| {:e} > {:e}", desc(), showz(&v), showr(r), err, env));
        return;
    }
    if z.imag == 0.0 && z.real > 0.0 && b.imag == 0.0 && b.real > 0.0 {
        let p = z.real.ln() / b.real.ln();
        let d = cdiff2(&v, p, 0.0);
        let tol = env + 8.0 * U * p.abs();
        upd(&mut acc.misc[13], d / tol);
        if !(d <= tol) { st.violation("C14:log:Cmplx:axis-reduction", format!("{} = {} but real ln x/ln b = {:e}; |diff| {:e} > {:e}", desc(), showz(&v), p, d, tol)); }
    }
    // log_b z = ln z / ln b between LIBRARY values, for the base itself and - straight afterwards, on the same thread - for
    // its twin that differs only in the sign of a zero part (equal under ==, on the other side of the cut of ln): whatever the
    // library remembers of the previous base must not leak into the next call
    let zz = *z;
    let mut bases = vec![*b];
    if b.imag == 0.0 { bases.push(Cmplx::new(b.real, -b.imag)); bases.push(*b); }
    if b.real == 0.0 { bases.push(Cmplx::new(-b.real, b.imag)); }
    for bq in bases {
        let lq = match call2(st, "log", desc, move || (zz.log(bq), zz.ln() / bq.ln())) { Some(t) => t, None => return };
        let (lv, qv) = lq;
        if !fin(&qv) { continue; }
        let d = cdiff2(&lv, qv.real, qv.imag);
        let tol = 4.0 * env + K_FWD * U * mr;
        if !(d <= tol) { st.violation("C14:log:Cmplx:vs-ln-quotient", format!("log(z={}, base={}) = {} but ln(z)/ln(base) = {} (library values, base used right after base={}); |diff| {:e} > {:e}", showz(z), showz(&bq), showz(&lv), showz(&qv), showz(b), d, tol)); return; }
    }
}

/// abs, arg, abs_sqr, conj, Signed::abs, polar and the polar round trip
fn judge_polar(st: &mut Stats, acc: &mut Acc, z: &Cmplx, zc: CDD) {
    let zz = *z;
    let desc = || format!("z={}", showz(z));
    let rdd = cabs_dd(zc);
    let tdd = dd_atan2(zc.im, zc.re);
    let (rr, th) = (rdd.f(), tdd.f());
    // abs
    if let Some(a) = call2(st, "abs", desc, move || zz.abs()) {
        let e = (dd(a) - rdd).f().abs();
        let tol = K_FWD * U * rr;
        upd(&mut acc.misc[7], e / tol);
        if !(e <= tol) { st.violation("C14:abs:Cmplx:value", format!("abs({}) = {} but |z| = {:e}; |diff| {:e} > {:e}", showz(z), hexf(a), rr, e, tol)); }
        if let Some(s) = call2(st, "Signed::abs", desc, move || Signed::abs(&zz)) {
            if !(s.real == a && s.imag == 0.0) { st.violation("C14:signed_abs:Cmplx:value", format!("Signed::abs({}) = {} but abs = {}", showz(z), showz(&s), hexf(a))); }
        }
    }
    // arg (a -0 imaginary part on the negative real axis may select -pi)
    if let Some(t) = call2(st, "arg", desc, move || zz.arg()) {
        let mut e = (dd(t) - tdd).f().abs();
        if neg0(z.imag) && z.real < 0.0 { e = e.min((dd(t) + tdd).f().abs()); }
        // (plus four subnormal spacings: an argument below 2^-1022 has no relative accuracy left)
        let tol = K_FWD * U * th.abs() + f64::from_bits(4);
        if tol > 0.0 { upd(&mut acc.misc[8], e / tol); }
        if !(e <= tol) || !(t.abs() <= std::f64::consts::PI) {
            st.violation("C14:arg:Cmplx:value", format!("arg({}) = {} but the principal argument is {:e}; |diff| {:e} > {:e}", showz(z), hexf(t), th, e, tol));
        }
    }
    // abs_sqr
    if let Some(a) = call2(st, "abs_sqr", desc, move || zz.abs_sqr()) {
        let r2 = zc.re * zc.re + zc.im * zc.im;
        let e = (dd(a) - r2).f().abs();
        let tol = K_FWD * U * r2.f();
        upd(&mut acc.misc[9], e / tol);
        if !(e <= tol) { st.violation("C14:abs_sqr:Cmplx:value", format!("abs_sqr({}) = {} but |z|^2 = {:e}", showz(z), hexf(a), r2.f())); }
    }
    // conj: exact
    if let Some(c) = call2(st, "conj", desc, move || zz.conj()) {
        if !(c.real.to_bits() == z.real.to_bits() && c.imag.to_bits() == (-z.imag).to_bits()) {
            st.violation("C14:conj:Cmplx:value", format!("conj({}) = {}", showz(z), showz(&c)));
        }
    }
    // polar(r, theta) against r (cos theta, sin theta) in DD
    if let Some(p) = call2(st, "polar", desc, move || Cmplx::polar(rr, th)) {
        let (s, c) = dd_sincos(dd(th));
        let r = cdd(dmulf(c, rr), dmulf(s, rr));
        let e = cdiff(&p, r);
        let tol = K_FWD * U * rr;
        upd(&mut acc.misc[5], e / tol);
        if !(e <= tol) { st.violation("C14:polar:Cmplx:value", format!("polar({}, {}) = {} but r e^(i theta) = {}; |diff| {:e} > {:e}", hexf(rr), hexf(th), showz(&p), showr(r), e, tol)); }
    }
    // polar(|z|, arg z) = z through the library's own modulus and argument
    if let Some(p) = call2(st, "polar", desc, move || Cmplx::polar(zz.abs(), zz.arg())) {
        let e = cdiff(&p, zc);
        let tol = K_FWD * U * rr * (2.0 + th.abs());
        upd(&mut acc.misc[6], e / tol);
        if !(e <= tol) { st.violation("C14:polar:Cmplx:roundtrip", format!("polar(abs z, arg z) = {} for {}; |diff| {:e} > {:e}", showz(&p), desc(), e, tol)); }
    }
}

/// reciprocal and Pythagorean identities between library values
fn judge_identities(st: &mut Stats, acc: &mut Acc, z: &Cmplx, vals: &[Option<Cmplx>; NF]) {
    let one = |a: Cmplx, b: Cmplx| -> f64 { let p = a * b; (p.real - 1.0).hypot(p.imag) };
    for (a, b) in [(Sec, Cos), (Csc, Sin), (Cot, Tan), (Sech, Cosh), (Csch, Sinh), (Coth, Tanh)] {
        if let (Some(x), Some(y)) = (vals[a.idx()], vals[b.idx()]) {
            let e = one(x, y);
            let tol = 8.0 * K_ID * U;
            upd(&mut acc.misc[10], e / tol);
            if !(e <= tol) {
                st.violation(&format!("C14:{}:Cmplx:reciprocal", a.name()),
                    format!("{}(z)*{}(z) = 1 + {:e} (> {:e}) at z={}: {} = {}, {} = {}", a.name(), b.name(), e, tol, showz(z), a.name(), showz(&x), b.name(), showz(&y)));
            }
        }
    }
    for (sn, cs, sign, name) in [(Sin, Cos, 1.0, "sin^2+cos^2"), (Sinh, Cosh, -1.0, "cosh^2-sinh^2")] {
        if let (Some(s), Some(c)) = (vals[sn.idx()], vals[cs.idx()]) {
            let (s2, c2) = (s * s, c * c);
            let d = Cmplx::new(c2.real + sign * s2.real - 1.0, c2.imag + sign * s2.imag);
            let scale = s.abs_sqr() + c.abs_sqr();
            let tol = 4.0 * K_ID * U * scale;
            if !(tol <= ENV_CAP) { continue; }
            let e = d.real.hypot(d.imag);
            upd(&mut acc.misc[11], e / tol);
            if !(e <= tol) {
                st.violation(&format!("C14:{}:Cmplx:pythagorean", sn.name()), format!("{} = 1 + {:e} (> {:e}) at z={}: {} = {}, {} = {}", name, e, tol, showz(z), sn.name(), showz(&s), cs.name(), showz(&c)));
            }
        }
    }
}

/// everything at one point
struct Aux { w: [Cmplx; 2], x: [f64; 2], b: Cmplx }

fn judge_point(st: &mut Stats, acc: &mut Acc, class: &str, z: Cmplx, aux: &Aux) {
    let mz = z.real.hypot(z.imag);
    if !(mz >= 1e-3 * (1.0 - 1e-9) && mz <= 10.0 * (1.0 + 1e-9)) || !fin(&z) { st.count("skipped:outside-domain"); return; }
    st.next_case();
    let zc = CDD::from(z);
    let h = hmix(hmix(0xC14, z.real.to_bits()), z.imag.to_bits());
    let mut vals: [Option<Cmplx>; NF] = [None; NF];
    for f in FORWARD { vals[f.idx()] = judge_forward(st, acc, f, &z, zc); }
    for f in INVERSE { judge_inverse(st, acc, f, &z, zc, h % 4 == 0); }
    judge_identities(st, acc, &z, &vals);
    judge_polar(st, acc, &z, zc);
    for w in &aux.w { judge_pow(st, acc, &z, zc, w); }
    for x in &aux.x { judge_powf(st, acc, &z, zc, *x); }
    judge_log(st, acc, &z, zc, &aux.b);
    // a point is non-trivial unless it lies strictly inside the first quadrant part of the unit disc,
    // well away from every branch point (the only region the library's own tests sample)
    let near_bp = [(1.0, 0.0), (-1.0, 0.0), (0.0, 1.0), (0.0, -1.0)].iter().any(|(a, b)| (z.real - a).hypot(z.imag - b) < 1e-3);
    let tame = z.real > 0.0 && z.imag > 0.0 && mz < 1.0 && !near_bp;
    if !tame { st.nontrivial(h); }
    st.count(&format!("points:{}", class));
    let q = if z.real == 0.0 || z.imag == 0.0 { "axis" } else if z.real > 0.0 { if z.imag > 0.0 { "Q1" } else { "Q4" } } else if z.imag > 0.0 { "Q2" } else { "Q3" };
    st.count(&format!("region:{}:{}", q, if mz > 1.0 { "outside-unit-disc" } else { "inside-unit-disc" }));
    st.sample(|| format!("class={} z={} w={} {} x={:?} base={}", class, showz(&z), showz(&aux.w[0]), showz(&aux.w[1]), aux.x, showz(&aux.b)));
}

// ------------------------------------------------------------------------------------------------
// workload
// ------------------------------------------------------------------------------------------------
const W_LIST: [(f64, f64); 20] = [(2.0 + 7e-11, 0.0), (1e-11, 0.0), (-3.0 + 2e-11, 0.0), (1.0 - 1e-12, 1e-11), (2.0, 0.0), (-1.0, 0.0), (0.5, 0.0), (3.0, 0.0), (0.0, 1.0), (0.0, -2.0), (1.0, 1.0), (-1.5, 2.0),
    (2.0, -2.0), (0.0, 3.0), (0.25, -0.75), (-3.0, 0.0), (0.0, 0.0), (-0.5, 0.0), (1.0 / 3.0, 0.0), (-2.0, -2.0)];
const X_LIST: [f64; 17] = [2.0 + 7e-11, -1.0 - 1e-11, 3e-11, 1.0 - 1e-12, 3.0 + 5e-11, 2.0, 3.0, -1.0, 0.5, -0.5, 1.0 / 3.0, -2.0, 2.5, -3.0, 0.0, 1.0, 1.5];
const B_LIST: [(f64, f64); 12] = [(-2.0, -0.0), (-0.5, 0.0), (2.0, 0.0), (10.0, 0.0), (0.5, 0.0), (std::f64::consts::E, 0.0), (0.0, 1.0), (-2.0, 0.0), (1.0, 1.0), (-1.0, -1.0), (0.1, -3.0), (3.0, 4.0)];

fn enum_aux(i: usize) -> Aux {
    let w = |k: usize| { let (a, b) = W_LIST[k % W_LIST.len()]; Cmplx::new(a, b) };
    let (br, bi) = B_LIST[(i / 3) % B_LIST.len()];
    Aux { w: [w(i), w(i / 16 + 7 * i + 5)], x: [X_LIST[i % X_LIST.len()], X_LIST[(i / 12 + 5 * i + 1) % X_LIST.len()]], b: Cmplx::new(br, bi) }
}

fn radii(n: usize) -> Vec<f64> {
    (0..n).map(|k| (1e-3 * 1e4f64.powf(k as f64 / (n - 1) as f64)).clamp(1e-3, 10.0)).collect()
}

/// the seed-independent sweep: polar grid, both axes with signed zeros, both sides of every cut,
/// neighbourhoods of the branch points, zeros/poles of the trigonometric functions
fn enumerated(quick: bool) -> Vec<(Cmplx, &'static str)> {
    let mut p: Vec<(Cmplx, &'static str)> = vec![];
    let (nr, na, nax) = if quick { (40usize, 48usize, 64usize) } else { (160, 192, 512) };
    for r in radii(nr) {
        for k in 0..na {
            let t = (k as f64 + 0.25) * std::f64::consts::TAU / na as f64;
            let (x, y) = (r * t.cos(), r * t.sin());
            // keep |z| inside the quantified annulus despite the rounding of cos/sin
            let s = if x.hypot(y) > 10.0 { 1.0 - 1e-15 } else if x.hypot(y) < 1e-3 { 1.0 + 1e-15 } else { 1.0 };
            p.push((Cmplx::new(x * s, y * s), "polar-grid"));
        }
    }
    for (k_ax, r) in radii(nax).into_iter().enumerate() {
        for sr in [1.0, -1.0] {
            for z0 in [0.0, -0.0] {
                p.push((Cmplx::new(sr * r, z0), "real-axis-signed-zero"));
                p.push((Cmplx::new(z0, sr * r), "imag-axis-signed-zero"));
            }
            // (offsets down to the smallest subnormal: the sign of the imaginary part still selects the side of the cut)
            for eps in [1e-12, r * 1e-9, 1e-30, 1e-100, 1e-200, 1e-300, f64::MIN_POSITIVE, 1e-310, 2.5e-323, 5e-324] {
                if eps < 1e-13 && !(k_ax % 4 == 0) { continue; }
                for se in [1.0, -1.0] {
                    p.push((Cmplx::new(sr * r, se * eps), "beside-real-axis"));
                    p.push((Cmplx::new(se * eps, sr * r), "beside-imag-axis"));
                }
            }
        }
    }
    let centres = [(1.0, 0.0), (-1.0, 0.0), (0.0, 1.0), (0.0, -1.0)];
    for (cx, cy) in centres {
        for z0 in [0.0, -0.0] {
            p.push((if cy == 0.0 { Cmplx::new(cx, z0) } else { Cmplx::new(z0, cy) }, "branch-point"));
        }
        for d in [1e-3, 1e-6, 1e-9, 1e-12, 2f64.powi(-50), 2f64.powi(-52)] {
            for k in 0..16 {
                let t = (k as f64 + 0.5) * std::f64::consts::TAU / 16.0;
                p.push((Cmplx::new(cx + d * t.cos(), cy + d * t.sin()), "branch-point-neighbourhood"));
            }
            for s in [1.0, -1.0] {
                for z0 in [0.0, -0.0] {
                    if cy == 0.0 {
                        p.push((Cmplx::new(cx + s * d, z0), "branch-point-neighbourhood"));
                        p.push((Cmplx::new(cx, s * d), "branch-point-neighbourhood"));
                    } else {
                        p.push((Cmplx::new(z0, cy + s * d), "branch-point-neighbourhood"));
                        p.push((Cmplx::new(s * d, cy), "branch-point-neighbourhood"));
                    }
                }
            }
        }
    }
    for k in 1..=6 {
        let c = k as f64 * std::f64::consts::FRAC_PI_2;
        for s in [1.0, -1.0] {
            for v in [c, f64::from_bits(c.to_bits() + 1), f64::from_bits(c.to_bits() - 1), c + 1e-9, c - 1e-9] {
                for z0 in [0.0, -0.0] {
                    p.push((Cmplx::new(s * v, z0), "trig-zero-or-pole"));
                    p.push((Cmplx::new(z0, s * v), "trig-zero-or-pole"));
                }
                p.push((Cmplx::new(s * v, 1e-12), "trig-zero-or-pole"));
                p.push((Cmplx::new(-1e-12, s * v), "trig-zero-or-pole"));
            }
        }
    }
    p
}

fn rand_point(rng: &mut Rng) -> (Cmplx, &'static str) {
    let tiny = |rng: &mut Rng| 10f64.powf(-rng.range(1.0, 15.5));
    match rng.below(9) {
        0 | 1 => { let r = rng.logpos(1e-3, 10.0); let t = rng.range(-std::f64::consts::PI, std::f64::consts::PI); (Cmplx::new(r * t.cos(), r * t.sin()), "random-polar") }
        2 => { let (x, y) = (rng.range(-7.0, 7.0), rng.range(-7.0, 7.0)); (Cmplx::new(x, y), "random-box") }
        3 => {
            let r = rng.logmag(1e-3, 10.0);
            let e = if rng.chance(0.25) { *rng.pick(&[5e-324, 1.5e-323, 1e-320, 1e-310, f64::MIN_POSITIVE, 1e-300, 1e-250, 1e-150, 1e-60]) } else { r.abs() * tiny(rng) } * if rng.bool() { 1.0 } else { -1.0 };
            if rng.bool() { (Cmplx::new(r, e), "random-beside-real-axis") } else { (Cmplx::new(e, r), "random-beside-imag-axis") }
        }
        4 => {
            let (cx, cy) = *rng.pick(&[(1.0, 0.0), (-1.0, 0.0), (0.0, 1.0), (0.0, -1.0)]);
            let d = 10f64.powf(-rng.range(0.5, 15.5));
            let t = rng.range(0.0, std::f64::consts::TAU);
            (Cmplx::new(cx + d * t.cos(), cy + d * t.sin()), "random-near-branch-point")
        }
        5 => { let r = 1.0 + rng.sym() * tiny(rng); let t = rng.range(0.0, std::f64::consts::TAU); (Cmplx::new(r * t.cos(), r * t.sin()), "random-near-unit-circle") }
        6 => {
            let c = rng.int(1, 6) as f64 * std::f64::consts::FRAC_PI_2 * if rng.bool() { 1.0 } else { -1.0 };
            let d = tiny(rng);
            let t = rng.range(0.0, std::f64::consts::TAU);
            if rng.bool() { (Cmplx::new(c + d * t.cos(), d * t.sin()), "random-near-trig-zero") } else { (Cmplx::new(d * t.cos(), c + d * t.sin()), "random-near-trig-zero") }
        }
        7 => {
            // dyadic lattice: many points exactly on axes, on |x|=1, |y|=1, with exactly representable squares
            let (i, j) = (rng.int(-56, 56), rng.int(-56, 56));
            let z0 = if rng.bool() { 0.0 } else { -0.0 };
            let f = |k: i64| if k == 0 { z0 } else { k as f64 / 8.0 };
            (Cmplx::new(f(i), f(j)), "random-dyadic-lattice")
        }
        _ => {
            // beside a cut, far out or far in: x log-uniform, absolute offsets down to 1e-12
            let r = rng.logmag(1e-3, 10.0);
            let e = 10f64.powf(-rng.range(6.0, 12.0)) * if rng.bool() { 1.0 } else { -1.0 };
            if rng.bool() { (Cmplx::new(r, e), "random-beside-real-axis") } else { (Cmplx::new(e, r), "random-beside-imag-axis") }
        }
    }
}

fn rand_aux(rng: &mut Rng) -> Aux {
    let mut w = [Cmplx::new(0.0, 0.0); 2];
    for k in 0..2 {
        w[k] = match rng.below(5) {
            0 => Cmplx::new(rng.int(-3, 3) as f64, 0.0),
            1 => Cmplx::new(0.0, rng.range(-3.0, 3.0)),
            2 => Cmplx::new(rng.range(-3.0, 3.0), 0.0),
            _ => { let r = 3.0 * rng.unit().sqrt(); let t = rng.range(0.0, std::f64::consts::TAU); let c = Cmplx::new(r * t.cos(), r * t.sin()); if c.real.hypot(c.imag) <= 3.0 { c } else { Cmplx::new(0.5 * c.real, 0.5 * c.imag) } }
        };
    }
    // (a third of the real exponents lie within 1e-14..1e-9 of an integer -3..3: no fast path may round them)
    let near_int = |rng: &mut Rng| rng.int(-3, 3) as f64 + rng.sym().signum() * 10f64.powf(-rng.range(9.0, 14.0));
    let x = [match rng.below(3) { 0 => rng.range(-3.0, 3.0), 1 => near_int(rng), _ => *rng.pick(&X_LIST) }, rng.dyadic(12, 2)];
    if rng.chance(0.2) { w[0] = Cmplx::new(near_int(rng), 0.0); }
    let b = loop {
        let r = rng.logpos(1e-3, 10.0);
        let t = rng.range(-std::f64::consts::PI, std::f64::consts::PI);
        let b = if rng.chance(0.25) { Cmplx::new(if rng.bool() { r } else { -r }, 0.0) } else { Cmplx::new(r * t.cos(), r * t.sin()) };
        if (r.ln()).hypot(b.imag.atan2(b.real)) >= 0.05 { break b; }
    };
    Aux { w, x, b }
}

const CHUNK: usize = 32;

pub fn run(ctx: &Ctx) -> Report {
    let pts = enumerated(ctx.quick());
    let ne = ((pts.len() + CHUNK - 1) / CHUNK) as u64;
    let nrand = ctx.vol(12_000, 640_000);
    let stats = par_run(ctx, TAG, ne + nrand, |u, rng, st| {
        let mut acc = Acc::new();
        if u < ne {
            let lo = u as usize * CHUNK;
            let hi = (lo + CHUNK).min(pts.len());
            for i in lo..hi {
                let (z, class) = pts[i];
                judge_point(st, &mut acc, class, z, &enum_aux(i));
            }
        } else {
            for _ in 0..CHUNK {
                let (z, class) = rand_point(rng);
                let aux = rand_aux(rng);
                judge_point(st, &mut acc, class, z, &aux);
            }
        }
        acc.flush(st);
    });
    let mut rep = Report::new(stats,
        "points z with 1e-3 <= |z| <= 10: a seed-independent sweep (polar grid radii x angles; both axes with all four signed-zero variants; 1e-12 and 1e-9*r on both sides of both axes, i.e. of every cut; the branch points +-1, +-i themselves and rings of radius 1e-3..2^-52 around them; multiples of pi/2 on both axes and their neighbours) plus seeded random points (log-polar, box, beside an axis down to 1e-15 relative, near branch points, near the unit circle, near zeros/poles of the trigonometric functions, dyadic lattice). At every point all 27 unary functions, abs/arg/abs_sqr/conj/Signed::abs/polar, and pow (2 exponents |w|<=3), powf (2 real exponents), log (1 base) are called and judged. A point is non-trivial unless it lies strictly inside the first-quadrant part of the open unit disc and further than 1e-3 from every branch point (the only region the library's own tests sample); distinct = distinct bit patterns of z");
    rep.assumptions = vec![
        "real libm functions (f64::exp, sin, atan2, asinh, ...) are accurate to a few ulp; they are the trusted base of the axis-reduction oracle and of the starting guesses of the DD Newton steps".into(),
        "DD reference functions are implemented from the definitions (Taylor series / Newton) in this file and are self-checked in DD by F(reference) = z on a quarter of the cases; a failed self-check is a harness error (inconclusive), never a verdict".into(),
        "exactly ON a cut both one-sided limits are accepted for the value (they are conjugates / negated conjugates), except that ln, sqrt, arg with a +0 imaginary part must return the upper side; ranges and right-inverse are demanded everywhere".into(),
        "value envelopes: forward functions K_FWD*u*|f| (normwise); inverse functions K_INV*u*E with E the first-order rounding model of the textbook formula the library evaluates (cancellation for large |w|, sqrt-type loss next to +-1/+-i) computed from DD intermediates; checks whose envelope exceeds 1e-3 are skipped and counted; exact poles (atan/acot at +-i, atanh/acoth at +-1) are outside the non-overflowing domain".into(),
        "principal ranges are demanded up to the same accuracy envelope (closed ranges; ln: exactly the range of atan2); a wrong branch is off by O(1)".into(),
    ];
    // about a fifth of what a full-volume run observes (quick ~3.3e5, thorough ~4.1e6), scaled with the profile volume factor
    rep.min_nontrivial = (((if ctx.quick() { 60_000.0 } else { 800_000.0 }) * ctx.scale.min(1.0)) as u64).max(2_000);
    let mut ex = J::obj();
    ex.set("exhaustive_parts", J::s("seed-independent sweep of the grid/axes/cut sides/branch-point rings described in the rule"));
    ex.set("enumerated_points", J::UInt(pts.len() as u64));
    ex.set("functions", J::s("exp sin cos tan sec csc cot sinh cosh tanh sech csch coth sqrt ln asin acos atan asec acsc acot asinh acosh atanh asech acsch acoth pow powf log polar abs arg abs_sqr conj Signed::abs new"));
    rep.extra = ex;
    rep
}
