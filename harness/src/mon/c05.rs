//! C05 — tridiagonal matrix of any size equals its dense twin; solve is exact or refuses.
use crate::fl::{self, U};
use crate::model::{exact_det_rank_inv, vec_to_ohsl, DM};
use crate::mon::common::*;
use crate::rat::{CRat, Exact, Rat};
use crate::rng::Rng;
use crate::run::{catch, par_run, Ctx, Outcome, Report, Stats};
use ohsl::{Cmplx, Complex, Tridiagonal, Vector};

const TAG: u64 = 0xC05;

#[derive(Clone, Debug)]
pub struct Tri<T> { pub sub: Vec<T>, pub main: Vec<T>, pub sup: Vec<T> }

impl<T: Copy + ohsl::Number + std::fmt::Debug> Tri<T> {
    pub fn n(&self) -> usize { self.main.len() }
    pub fn dense(&self) -> DM<T> {
        let n = self.n();
        DM::from_fn(n, n, |i, j| if i == j { self.main[i] } else if i == j + 1 { self.sub[j] } else if i + 1 == j { self.sup[i] } else { T::zero() })
    }
    pub fn build(&self, ctor: usize) -> Tridiagonal<T> {
        let n = self.n();
        match ctor {
            0 => Tridiagonal::with_vecs(self.sub.clone(), self.main.clone(), self.sup.clone()),
            1 => Tridiagonal::with_vectors(Vector::create(self.sub.clone()), Vector::create(self.main.clone()), Vector::create(self.sup.clone())),
            2 => { let mut t = Tridiagonal::<T>::new(n); for i in 0..n { t[(i, i)] = self.main[i]; if i + 1 < n { t[(i + 1, i)] = self.sub[i]; t[(i, i + 1)] = self.sup[i]; } } t }
            _ => { let mut t = Tridiagonal::<T>::with_elements(T::one(), T::one(), T::one(), n); for i in 0..n { t[(i, i)] = self.main[i]; if i + 1 < n { t[(i + 1, i)] = self.sub[i]; t[(i, i + 1)] = self.sup[i]; } } t }
        }
    }
    pub fn same(&self, t: &Tridiagonal<T>) -> bool {
        t.size() == self.n() && t.subdiagonal().vec == self.sub && t.maindiagonal().vec == self.main && t.superdiagonal().vec == self.sup
    }
    pub fn map(&self, f: impl Fn(T) -> T) -> Tri<T> { Tri { sub: self.sub.iter().map(|x| f(*x)).collect(), main: self.main.iter().map(|x| f(*x)).collect(), sup: self.sup.iter().map(|x| f(*x)).collect() } }
    pub fn zip(&self, o: &Tri<T>, f: impl Fn(T, T) -> T) -> Tri<T> {
        Tri { sub: self.sub.iter().zip(&o.sub).map(|(a, b)| f(*a, *b)).collect(), main: self.main.iter().zip(&o.main).map(|(a, b)| f(*a, *b)).collect(), sup: self.sup.iter().zip(&o.sup).map(|(a, b)| f(*a, *b)).collect() }
    }
}

/// exact Thomas elimination on the same data: Err(step) when a zero pivot arises at `step`
pub fn thomas_exact<E: Exact>(t: &Tri<E>, r: &[E]) -> Result<Vec<E>, usize> {
    let n = t.n();
    let mut beta = t.main[0];
    if beta.is_zero_e() { return Err(0); }
    let mut u = vec![E::zero(); n];
    let mut gamma = vec![E::zero(); n];
    u[0] = r[0] / beta;
    for j in 1..n {
        gamma[j] = t.sup[j - 1] / beta;
        beta = t.main[j] - t.sub[j - 1] * gamma[j];
        if beta.is_zero_e() { return Err(j); }
        u[j] = (r[j] - t.sub[j - 1] * u[j - 1]) / beta;
    }
    for j in (0..n.saturating_sub(1)).rev() { let tmp = gamma[j + 1] * u[j + 1]; u[j] = u[j] - tmp; }
    Ok(u)
}

fn refusal_ok(msg: &str) -> bool { let m = msg.to_lowercase(); m.contains("zero") || m.contains("pivot") || m.contains("singular") }

fn gen_tri<E: Exact>(rng: &mut Rng, n: usize, class: u64, rv: &dyn Fn(&mut Rng) -> E) -> Tri<E> {
    let nz = |rng: &mut Rng| { let v = rv(rng); if v.is_zero_e() { E::from_int(2) } else { v } };
    let mut t = Tri { sub: (0..n - 1).map(|_| nz(rng)).collect(), main: (0..n).map(|_| nz(rng)).collect(), sup: (0..n - 1).map(|_| nz(rng)).collect() };
    match class {
        0 => {}
        1 => { for v in t.sub.iter_mut() { if rng.chance(0.4) { *v = E::zero(); } } for v in t.sup.iter_mut() { if rng.chance(0.4) { *v = E::zero(); } } }
        2 => { // zero pivot forced at a chosen step j (possibly the first)
            let j = rng.usize(0, n - 1);
            if j == 0 { t.main[0] = E::zero(); } else {
                // run the recurrence up to j-1 and set main[j] = sub[j-1]*sup[j-1]/beta_{j-1}
                let mut beta = t.main[0]; let mut ok = !beta.is_zero_e();
                for k in 1..j { if !ok { break; } beta = t.main[k] - t.sub[k - 1] * t.sup[k - 1] / beta; ok = !beta.is_zero_e(); }
                if ok { t.main[j] = t.sub[j - 1] * t.sup[j - 1] / beta; }
            }
        }
        3 => { for v in t.main.iter_mut() { if rng.chance(0.3) { *v = E::zero(); } } }
        _ => { for v in t.sub.iter_mut() { *v = E::zero(); } if rng.bool() { for v in t.sup.iter_mut() { *v = E::zero(); } } }
    }
    t
}

fn judge_exact<E: Exact>(st: &mut Stats, rng: &mut Rng, class: u64, rv: &dyn Fn(&mut Rng) -> E) {
    let n = if rng.chance(0.3) { rng.usize(1, 2) } else { rng.usize(1, 12) };
    st.next_case();
    let t = gen_tri::<E>(rng, n, class, rv);
    let d = t.dense();
    let ctor = rng.usize(0, 3);
    let tn = E::NAME;
    let desc = || format!("T={} n={} ctor={} sub={:?} main={:?} sup={:?}", tn, n, ["with_vecs", "with_vectors", "new+index", "with_elements+index"][ctor], t.sub, t.main, t.sup);
    let m = match catch(|| t.build(ctor)) { Outcome::Ok(m) => m, o => { st.violation(&format!("C05:construct:{}:panic", tn), format!("{}; {}", o.describe(), desc())); return; } };
    st.eval();
    if !t.same(&m) { st.violation(&format!("C05:construct:{}:wrong-diagonals", tn), desc()); return; }
    // element access everywhere
    st.eval();
    for i in 0..n { for j in 0..n {
        let r = catch(|| m[(i, j)]);
        let band = (i as isize - j as isize).abs() <= 1;
        if band { if !matches!(r, Outcome::Ok(v) if v == d.a[i][j]) { st.violation(&format!("C05:index:{}:wrong-value", tn), format!("T[({},{})] = {:?} expected {:?}; {}", i, j, r, d.a[i][j], desc())); } }
        else if !r.is_panic() { st.violation(&format!("C05:index:{}:outside-band-accepted", tn), format!("T[({},{})] returned {:?}; {}", i, j, r, desc())); }
    } }
    // convert / transpose / det
    st.eval();
    match catch(|| m.convert()) { Outcome::Ok(x) => if !d.eq_ohsl(&x) { st.violation(&format!("C05:convert:{}:wrong-result", tn), desc()); }, o => st.violation(&format!("C05:convert:{}:panic", tn), format!("{}; {}", o.describe(), desc())) }
    let tt = Tri { sub: t.sup.clone(), main: t.main.clone(), sup: t.sub.clone() };
    st.eval();
    match catch(|| m.transpose()) { Outcome::Ok(x) => if !tt.same(&x) { st.violation(&format!("C05:transpose:{}:wrong-result", tn), desc()); }, o => st.violation(&format!("C05:transpose:{}:panic", tn), format!("{}; {}", o.describe(), desc())) }
    st.eval();
    match catch(|| { let mut x = m.clone(); x.transpose_in_place(); x }) { Outcome::Ok(x) => if !tt.same(&x) { st.violation(&format!("C05:transpose_in_place:{}:wrong-result", tn), desc()); }, o => st.violation(&format!("C05:transpose_in_place:{}:panic", tn), format!("{}; {}", o.describe(), desc())) }
    if let Outcome::Ok((det, _, _)) = catch(|| exact_det_rank_inv(&d)) {
        st.eval();
        match catch(|| m.det()) { Outcome::Overflow => st.count("skipped:rat-overflow"), Outcome::Ok(x) => if x != det { st.violation(&format!("C05:det:{}:wrong-value", tn), format!("det = {:?} exact {:?}; {}", x, det, desc())); }, o => st.violation(&format!("C05:det:{}:panic", tn), format!("{}; {}", o.describe(), desc())) }
    }
    // product
    let v: Vec<E> = (0..n).map(|_| rv(rng)).collect();
    let want = d.mulvec(&v);
    let vv = vec_to_ohsl(&v);
    st.eval();
    match catch(|| &m * &vv) { Outcome::Overflow => st.count("skipped:rat-overflow"), Outcome::Ok(p) => if p.vec != want { st.violation(&format!("C05:mulvec:{}:wrong-value", tn), format!("T*v = {:?} expected {:?}; v={:?}; {}", p.vec, want, v, desc())); }, o => st.violation(&format!("C05:mulvec:{}:panic-n{}", tn, if n == 1 { "1" } else { "ge2" }), format!("&T*&v {}; v={:?}; {}", o.describe(), v, desc())) }
    st.eval();
    match catch(|| m.clone() * vv.clone()) { Outcome::Overflow => {}, Outcome::Ok(p) => if p.vec != want { st.violation(&format!("C05:mulvec-owned:{}:wrong-value", tn), desc()); }, o => st.violation(&format!("C05:mulvec-owned:{}:panic-n{}", tn, if n == 1 { "1" } else { "ge2" }), format!("T*v {}; {}", o.describe(), desc())) }
    // solve: exact or refuse
    let r: Vec<E> = (0..n).map(|_| rv(rng)).collect();
    let rr = vec_to_ohsl(&r);
    if let Outcome::Ok(model) = catch(|| thomas_exact(&t, &r)) {
        st.eval();
        let out = catch(|| m.solve(&rr));
        match (&model, out) {
            (_, Outcome::Overflow) => st.count("skipped:rat-overflow"),
            (Ok(x), Outcome::Ok(y)) => {
                let tx_ok = matches!(catch(|| d.mulvec(&y.vec)), Outcome::Ok(p) if p == r);
                if y.vec != *x || !tx_ok { st.violation(&format!("C05:solve:{}:wrong-solution", tn), format!("solve = {:?} exact {:?}; r={:?}; {}", y.vec, x, r, desc())); }
                st.count(&format!("solve:{}:solved", tn));
            }
            (Ok(x), o) => st.violation(&format!("C05:solve:{}:refused-without-zero-pivot", tn), format!("solve {} but elimination meets no zero pivot (solution {:?}); r={:?}; {}", o.describe(), x, r, desc())),
            (Err(step), Outcome::Ok(y)) => st.violation(&format!("C05:solve:{}:returned-despite-zero-pivot", tn), format!("zero pivot at step {} but solve returned {:?}; r={:?}; {}", step, y.vec, r, desc())),
            (Err(step), Outcome::Panic { msg, loc }) => {
                st.count(&format!("solve:{}:refused", tn));
                st.set_insert(&format!("zero-pivot-steps:{}", tn), format!("n{}@{}", n, step));
                if !refusal_ok(&msg) { st.violation(&format!("C05:solve:{}:refusal-message", tn), format!("zero pivot at step {}: panic message '{}' at {} does not name a zero pivot; {}", step, msg, loc, desc())); }
            }
            (Err(_), Outcome::Budget) => {}
        }
        if !t.same(&m) { st.violation(&format!("C05:solve:{}:mutated-matrix", tn), desc()); }
    }
    // arithmetic forms
    let o = gen_tri::<E>(rng, n, 0, rv);
    let om = o.build(0);
    let s = { let x = rv(rng); if x.is_zero_e() { E::from_int(3) } else { x } };
    let mut chk = |st: &mut Stats, name: &str, out: Outcome<Tridiagonal<E>>, want: Tri<E>| {
        st.eval();
        match out { Outcome::Overflow => st.count("skipped:rat-overflow"), Outcome::Ok(x) => if !want.same(&x) { st.violation(&format!("C05:{}:{}:wrong-result", name, tn), format!("{} other sub={:?} main={:?} sup={:?} s={:?}; {}", name, o.sub, o.main, o.sup, s, desc())); }, oo => st.violation(&format!("C05:{}:{}:panic", name, tn), format!("{} {}; {}", name, oo.describe(), desc())) }
    };
    chk(st, "neg", catch(|| -m.clone()), t.map(|a| -a));
    chk(st, "add", catch(|| m.clone() + om.clone()), t.zip(&o, |a, b| a + b));
    chk(st, "sub", catch(|| m.clone() - om.clone()), t.zip(&o, |a, b| a - b));
    chk(st, "mul-scalar", catch(|| m.clone() * s), t.map(|a| a * s));
    chk(st, "div-scalar", catch(|| m.clone() / s), t.map(|a| a / s));
    chk(st, "add_assign", catch(|| { let mut x = m.clone(); x += s; x }), t.map(|a| a + s));
    chk(st, "sub_assign", catch(|| { let mut x = m.clone(); x -= s; x }), t.map(|a| a - s));
    chk(st, "mul_assign", catch(|| { let mut x = m.clone(); x *= s; x }), t.map(|a| a * s));
    chk(st, "div_assign", catch(|| { let mut x = m.clone(); x /= s; x }), t.map(|a| a / s));
    let n2 = rng.usize(1, 12);
    chk(st, "resize", catch(|| { let mut x = m.clone(); x.resize(n2); x }), Tri { sub: vec![E::zero(); n2 - 1], main: vec![E::zero(); n2], sup: vec![E::zero(); n2 - 1] });
    st.count(&format!("cases:{}:n{}", tn, n));
    let mut h = hash_str(tn) ^ class;
    for x in t.sub.iter().chain(&t.main).chain(&t.sup) { h = hmix(h, x.hash_u64()); }
    st.nontrivial(h);
    st.sample(|| desc());
}

/// conj() on Tridiagonal<Complex<Rat>> (real generic code) vs model
fn judge_conj(st: &mut Stats, rng: &mut Rng) {
    let n = rng.usize(1, 8);
    st.next_case();
    let g = |rng: &mut Rng| Complex::<Rat>::new(Rat::int(rng.int(-9, 9)), Rat::int(rng.int(-9, 9)));
    let sub: Vec<Complex<Rat>> = (0..n - 1).map(|_| g(rng)).collect();
    let main: Vec<Complex<Rat>> = (0..n).map(|_| g(rng)).collect();
    let sup: Vec<Complex<Rat>> = (0..n - 1).map(|_| g(rng)).collect();
    let t = Tridiagonal::with_vecs(sub.clone(), main.clone(), sup.clone());
    st.eval();
    match catch(|| t.conj()) {
        Outcome::Ok(c) => {
            let cj = |v: &Vec<Complex<Rat>>| v.iter().map(|z| Complex::new(z.real, -z.imag)).collect::<Vec<_>>();
            if c.subdiagonal().vec != cj(&sub) || c.maindiagonal().vec != cj(&main) || c.superdiagonal().vec != cj(&sup) || c.size() != n { st.violation("C05:conj:Complex<Rat>:wrong-result", format!("sub={:?} main={:?} sup={:?}", sub, main, sup)); }
            if t.subdiagonal().vec != sub || t.maindiagonal().vec != main || t.superdiagonal().vec != sup { st.violation("C05:conj:Complex<Rat>:mutated", format!("main={:?}", main)); }
        }
        o => st.violation("C05:conj:Complex<Rat>:panic", o.describe()),
    }
}

fn judge_f64(st: &mut Stats, rng: &mut Rng) {
    // "for every size": one case in eight is long (13..96 rows), so that blocked / unrolled loops with a remainder
    // are driven through every residue; long cases always take the exactly representable class (a)
    let big = rng.chance(0.125);
    let n = if big { rng.usize(13, 96) } else if rng.chance(0.3) { rng.usize(1, 2) } else { rng.usize(1, 12) };
    st.next_case();
    if big { st.count("cases:f64:long(13..96)"); }
    if big || rng.bool() {
        // (a) exactly representable elimination: T = L*U, L unit lower bidiagonal (integer l), U upper bidiagonal with
        // power-of-two diagonal (possibly zero at one step) => f64 Thomas is exact and must mirror the Rat model
        let l: Vec<i64> = (0..n - 1).map(|_| rng.int(-3, 3)).collect();
        let mut ud: Vec<i64> = (0..n).map(|_| { let p = 1i64 << rng.int(0, 3); if rng.bool() { p } else { -p } }).collect();
        let uu: Vec<i64> = (0..n - 1).map(|_| rng.int(-3, 3)).collect();
        let zero_at = if rng.chance(0.4) { Some(rng.usize(0, n - 1)) } else { None };
        if let Some(z) = zero_at { ud[z] = 0; }
        // T[i][i] = ud[i] + l[i-1]*uu[i-1]; T[i+1][i] = l[i]*ud[i]; T[i][i+1] = uu[i]
        let main: Vec<i64> = (0..n).map(|i| ud[i] + if i > 0 { l[i - 1] * uu[i - 1] } else { 0 }).collect();
        let sub: Vec<i64> = (0..n - 1).map(|i| l[i] * ud[i]).collect();
        let tr = Tri { sub: sub.iter().map(|x| Rat::int(*x)).collect(), main: main.iter().map(|x| Rat::int(*x)).collect(), sup: uu.iter().map(|x| Rat::int(*x)).collect() };
        let tf = Tri { sub: sub.iter().map(|x| *x as f64).collect::<Vec<f64>>(), main: main.iter().map(|x| *x as f64).collect(), sup: uu.iter().map(|x| *x as f64).collect() };
        // right-hand side chosen as T*x for a small dyadic x so that the exact solution is representable
        let xs: Vec<i64> = (0..n).map(|_| rng.int(-8, 8)).collect();
        let xr: Vec<Rat> = xs.iter().map(|x| Rat::int(*x)).collect();
        let rr = tr.dense().mulvec(&xr);
        let rf: Vec<f64> = rr.iter().map(|x| x.to_f64()).collect();
        let desc = || format!("T=f64(exact class) n={} sub={:?} main={:?} sup={:?} r={:?}", n, tf.sub, tf.main, tf.sup, rf);
        let m = tf.build(rng.usize(0, 3));
        let model = thomas_exact(&tr, &rr);
        st.eval();
        match (model, catch(|| m.solve(&Vector::create(rf.clone())))) {
            (Ok(x), Outcome::Ok(y)) => { let xe: Vec<f64> = x.iter().map(|v| v.to_f64()).collect(); if y.vec != xe { st.violation("C05:solve:f64:exact-class-wrong", format!("solve = {:?} exact {:?}; {}", y.vec, xe, desc())); } st.count("solve:f64:exact-solved"); }
            (Ok(_), o) => st.violation("C05:solve:f64:refused-without-zero-pivot", format!("{}; {}", o.describe(), desc())),
            (Err(step), Outcome::Ok(y)) => st.violation("C05:solve:f64:returned-despite-zero-pivot", format!("zero pivot at step {} but solve returned {:?}; {}", step, y.vec, desc())),
            (Err(step), Outcome::Panic { msg, .. }) => { st.count("solve:f64:exact-refused"); if !refusal_ok(&msg) { st.violation("C05:solve:f64:refusal-message", format!("step {} message '{}'; {}", step, msg, desc())); } }
            _ => {}
        }
        // the same system in units of 2^-e, e = 1030..1068: every entry, every pivot (ud_k * 2^-e) and the right-hand side are
        // subnormal yet exactly representable and the elimination stays exact; a non-zero subnormal pivot is not a zero pivot
        if rng.chance(0.4) {
            let e = rng.int(1030, 1068) as i32;
            let sc = |v: f64| v * 2f64.powi(-e / 2) * 2f64.powi(-(e - e / 2));
            let ts = Tri { sub: tf.sub.iter().map(|v| sc(*v)).collect::<Vec<f64>>(), main: tf.main.iter().map(|v| sc(*v)).collect(), sup: tf.sup.iter().map(|v| sc(*v)).collect() };
            let rs: Vec<f64> = rf.iter().map(|v| sc(*v)).collect();
            let ms = ts.build(0);
            st.eval();
            match (thomas_exact(&tr, &rr), catch(|| ms.solve(&Vector::create(rs.clone())))) {
                (Ok(x), Outcome::Ok(y)) => { let xe: Vec<f64> = x.iter().map(|v| v.to_f64()).collect(); if y.vec != xe { st.violation("C05:solve:f64:subnormal-scale", format!("system scaled by 2^-{}: solve = {:?} exact {:?}; {}", e, y.vec, xe, desc())); } st.count("solve:f64:subnormal-scale-solved"); }
                (Ok(_), o) => st.violation("C05:solve:f64:refused-without-zero-pivot", format!("system scaled by 2^-{} (all pivots non-zero subnormals): {}; {}", e, o.describe(), desc())),
                (Err(step), Outcome::Ok(y)) => st.violation("C05:solve:f64:returned-despite-zero-pivot", format!("system scaled by 2^-{}: zero pivot at step {} but solve returned {:?}; {}", e, step, y.vec, desc())),
                _ => {}
            }
        }
        // a tiny but NON-zero last pivot: sub[n-2] is chosen so that main[n-1] - sub*gamma == ulp(main[n-1]) exactly
        // (pred(m) is representable); elimination meets no zero pivot, so the solver must not refuse
        if n >= 2 && zero_at.is_none() && rng.chance(0.5) {
            // gamma at the last step = sup[n-2] / beta_{n-2}; in this class beta_k == ud[k] (a power of two)
            if uu[n - 2] != 0 && (uu[n - 2].abs() as u64).is_power_of_two() {
                let g = uu[n - 2] as f64 / ud[n - 2] as f64;
                let mlast = *rng.pick(&[1.0f64, 2.0, 4.0, -1.0, 0.5]);
                let pred = f64::from_bits(mlast.abs().to_bits() - 1) * mlast.signum();
                let mut t2 = Tri { sub: tf.sub.clone(), main: tf.main.clone(), sup: tf.sup.clone() };
                t2.sub[n - 2] = pred / g;
                t2.main[n - 1] = mlast;
                let m2 = t2.build(0);
                st.eval();
                match catch(|| m2.solve(&Vector::create(rf.clone()))) {
                    Outcome::Panic { msg, .. } => st.violation("C05:solve:f64:refused-without-zero-pivot", format!("last pivot is ulp({}) = {:e}, not zero, yet solve panicked '{}'; sub={:?} main={:?} sup={:?}", mlast, (mlast - pred).abs(), msg, t2.sub, t2.main, t2.sup)),
                    _ => st.count("solve:f64:half-ulp-pivot-not-refused"),
                }
            }
        }
        // product and det on integer data are exact
        let v: Vec<f64> = (0..n).map(|_| rng.int(-9, 9) as f64).collect();
        let d = tf.dense();
        if big {
            // structural operations at long sizes (the exact-type judges stay at n <= 12)
            st.eval();
            match catch(|| m.convert()) { Outcome::Ok(x) => if !d.eq_ohsl(&x) { st.violation("C05:convert:f64:wrong-result", desc()); }, o => st.violation("C05:convert:f64:panic", format!("{}; {}", o.describe(), desc())) }
            let tt = Tri { sub: tf.sup.clone(), main: tf.main.clone(), sup: tf.sub.clone() };
            st.eval();
            match catch(|| m.transpose()) { Outcome::Ok(x) => if !tt.same(&x) { st.violation("C05:transpose:f64:wrong-result", desc()); }, o => st.violation("C05:transpose:f64:panic", format!("{}; {}", o.describe(), desc())) }
            st.eval();
            match catch(|| { let mut x = m.clone(); x.transpose_in_place(); x }) { Outcome::Ok(x) => if !tt.same(&x) { st.violation("C05:transpose_in_place:f64:wrong-result", desc()); }, o => st.violation("C05:transpose_in_place:f64:panic", format!("{}; {}", o.describe(), desc())) }
            st.eval();
            for i in 0..n { for j in i.saturating_sub(1)..(i + 2).min(n) {
                if !matches!(catch(|| m[(i, j)]), Outcome::Ok(x) if x == d.a[i][j]) { st.violation("C05:index:f64:wrong-value", format!("T[({},{})] != {:?}; {}", i, j, d.a[i][j], desc())); }
            } }
            st.eval();
            match catch(|| m.clone() * Vector::create(v.clone())) { Outcome::Ok(p) => if p.vec != d.mulvec(&v) { st.violation("C05:mulvec-owned:f64:wrong-value", format!("v={:?}; {}", v, desc())); }, o => st.violation("C05:mulvec-owned:f64:panic", format!("{}; {}", o.describe(), desc())) }
            st.eval();
            match catch(|| (m.clone() + m.clone(), m.clone() - m.clone(), -m.clone())) {
                Outcome::Ok((a, b, c)) => { if !tf.map(|x| x + x).same(&a) || !tf.map(|x| x - x).same(&b) || !tf.map(|x| -x).same(&c) { st.violation("C05:arith:f64:wrong-result", desc()); } }
                o => st.violation("C05:arith:f64:panic", format!("{}; {}", o.describe(), desc())),
            }
        }
        let want = d.mulvec(&v);
        st.eval();
        match catch(|| &m * &Vector::create(v.clone())) { Outcome::Ok(p) => if p.vec != want { st.violation("C05:mulvec:f64:wrong-value", format!("T*v={:?} expected {:?} v={:?}; {}", p.vec, want, v, desc())); }, o => st.violation(&format!("C05:mulvec:f64:panic-n{}", if n == 1 { "1" } else { "ge2" }), format!("{}; {}", o.describe(), desc())) }
        // (long cases: only while the exact determinant is below 2^53, where Rat::to_f64 is certainly exact)
        if let Outcome::Ok((det, _, _)) = catch(|| exact_det_rank_inv(&tr.dense())) { if !big || det.to_f64().abs() < 9.0e15 {
            st.eval();
            match catch(|| m.det()) { Outcome::Ok(x) => if x != det.to_f64() { st.violation("C05:det:f64:wrong-value", format!("det={} exact {:?}; {}", x, det, desc())); }, o => st.violation("C05:det:f64:panic", format!("{}; {}", o.describe(), desc())) }
        } }
        // det under a diagonal similarity scaling D T D^-1 (sub_i * 2^-e_i, sup_i * 2^e_i: every product sub_i*sup_i, hence
        // the determinant, is unchanged bit for bit) with the first row scaled by 2^300 (det scales by exactly 2^300)
        if n >= 2 {
            // (the first pair shares row 0 with the 2^300 factor, hence the smaller range there)
            let es: Vec<i32> = (0..n - 1).map(|i| if i == 0 { rng.int(-600, 600) } else { rng.int(-900, 900) } as i32).collect();
            let t3 = Tri { sub: (0..n - 1).map(|i| tf.sub[i] * 2f64.powi(-es[i])).collect::<Vec<f64>>(), main: (0..n).map(|i| if i == 0 { tf.main[0] * 2f64.powi(300) } else { tf.main[i] }).collect(), sup: (0..n - 1).map(|i| tf.sup[i] * 2f64.powi(es[i]) * if i == 0 { 2f64.powi(300) } else { 1.0 }).collect() };
            if t3.sup.iter().chain(&t3.sub).all(|x| x.is_finite()) {
                st.eval();
                if let (Outcome::Ok(d0), o) = (catch(|| m.det()), catch(|| t3.build(0).det())) {
                    let want = d0 * 2f64.powi(300);
                    match o { Outcome::Ok(d3) => if d3.to_bits() != want.to_bits() && d3 != want { st.violation("C05:det:f64:similarity-scaling", format!("det of D T D^-1 (first row * 2^300) = {:e}, expected {:e}; sub={:?} main={:?} sup={:?}", d3, want, t3.sub, t3.main, t3.sup)); }, oo => st.violation("C05:det:f64:panic", oo.describe()) }
                }
            }
        }
        // f64 * Tridiagonal
        st.eval();
        match catch(|| 2.0 * m.clone()) { Outcome::Ok(x) => if !tf.map(|a| 2.0 * a).same(&x) { st.violation("C05:f64*T:wrong-result", desc()); }, o => st.violation("C05:f64*T:panic", format!("{}; {}", o.describe(), desc())) }
        let mut h = hash_str("f64-exact"); for x in sub.iter().chain(&main).chain(&uu) { h = hmix(h, *x as u64); }
        st.nontrivial(h);
    } else {
        // (b) strictly diagonally dominant random systems: backward stable
        let sub: Vec<f64> = (0..n - 1).map(|_| rng.sym()).collect();
        let sup: Vec<f64> = (0..n - 1).map(|_| rng.sym()).collect();
        let main: Vec<f64> = (0..n).map(|i| { let s = if i > 0 { sub[i - 1].abs() } else { 0.0 } + if i + 1 < n { sup[i].abs() } else { 0.0 }; (s + rng.range(0.05, 1.0)) * if rng.bool() { 1.0 } else { -1.0 } }).collect();
        // units anywhere between 2^-300 and 2^300 ("all diagonal contents"): the scale must not matter
        let sc = if rng.chance(0.4) { 2f64.powi(rng.int(-300, 300) as i32) } else { rng.logpos(1e-6, 1e6) };
        let tf = Tri { sub: sub.iter().map(|x| x * sc).collect::<Vec<f64>>(), main: main.iter().map(|x| x * sc).collect(), sup: sup.iter().map(|x| x * sc).collect() };
        let rsc = if sc < 1e-30 || sc > 1e30 { sc } else { 1.0 };
        let r: Vec<f64> = (0..n).map(|_| rng.sym() * rng.logpos(1e-3, 1e3) * rsc).collect();
        let desc = || format!("T=f64(dominant) n={} sub={:?} main={:?} sup={:?} r={:?}", n, tf.sub, tf.main, tf.sup, r);
        let m = tf.build(rng.usize(0, 1));
        st.eval();
        match catch(|| m.solve(&Vector::create(r.clone()))) {
            Outcome::Ok(x) => {
                let a = tf.dense().a;
                let (res, an, xn, bn) = fl::residual_real(&a, &x.vec, &r);
                let eta = fl::backward_error(res, an, xn, bn);
                let tol = 64.0 * n as f64 * U;
                st.max("f64:dominant_eta_over_tol", eta / tol);
                if x.vec.len() != n || !fl::all_finite(&x.vec) || !(eta <= tol) { st.violation("C05:solve:f64:backward-error", format!("eta {:e} > {:e}; x={:?}; {}", eta, tol, x.vec, desc())); }
            }
            o => st.violation("C05:solve:f64:refused-dominant", format!("{}; {}", o.describe(), desc())),
        }
        let mut h = hash_str("f64-dom"); for x in tf.sub.iter().chain(&tf.main).chain(&tf.sup) { h = hmix(h, x.to_bits()); }
        st.nontrivial(h);
    }
    st.count("cases:f64");
}

fn judge_cmplx(st: &mut Stats, rng: &mut Rng) {
    let n = if rng.chance(0.3) { rng.usize(1, 2) } else { rng.usize(1, 12) };
    st.next_case();
    let z = |rng: &mut Rng| Cmplx::new(rng.sym(), rng.sym());
    let sub: Vec<Cmplx> = (0..n - 1).map(|_| z(rng)).collect();
    let sup: Vec<Cmplx> = (0..n - 1).map(|_| z(rng)).collect();
    let main: Vec<Cmplx> = (0..n).map(|i| { let s = if i > 0 { fl::cabs(sub[i - 1]) } else { 0.0 } + if i + 1 < n { fl::cabs(sup[i]) } else { 0.0 }; Cmplx::polar(s + rng.range(0.05, 1.0), rng.range(-3.1, 3.1)) }).collect();
    let tf = Tri { sub, main, sup };
    let r: Vec<Cmplx> = (0..n).map(|_| z(rng)).collect();
    let desc = || format!("T=Cmplx(dominant) n={} sub={:?} main={:?} sup={:?} r={:?}", n, tf.sub, tf.main, tf.sup, r);
    let m = tf.build(rng.usize(0, 3));
    st.eval();
    match catch(|| m.solve(&Vector::create(r.clone()))) {
        Outcome::Ok(x) => {
            let a = tf.dense().a;
            let (res, an, xn, bn) = fl::residual_cmplx(&a, &x.vec, &r);
            let eta = fl::backward_error(res, an, xn, bn);
            let tol = 64.0 * n as f64 * U;
            st.max("Cmplx:dominant_eta_over_tol", eta / tol);
            if x.vec.len() != n || !fl::all_finite_c(&x.vec) || !(eta <= tol) { st.violation("C05:solve:Cmplx:backward-error", format!("eta {:e} > {:e}; x={:?}; {}", eta, tol, x.vec, desc())); }
        }
        o => st.violation("C05:solve:Cmplx:refused-dominant", format!("{}; {}", o.describe(), desc())),
    }
    // conj on Cmplx
    st.eval();
    match catch(|| m.conj()) { Outcome::Ok(c) => { let want = Tri { sub: tf.sub.iter().map(|z| z.conj()).collect::<Vec<_>>(), main: tf.main.iter().map(|z| z.conj()).collect(), sup: tf.sup.iter().map(|z| z.conj()).collect() }; if !want.same(&c) { st.violation("C05:conj:Cmplx:wrong-result", desc()); } } o => st.violation("C05:conj:Cmplx:panic", format!("{}; {}", o.describe(), desc())) }
    // product vs dense twin (tolerance 8u relative to sum |a||v|)
    let v: Vec<Cmplx> = (0..n).map(|_| z(rng)).collect();
    st.eval();
    match catch(|| &m * &Vector::create(v.clone())) {
        Outcome::Ok(p) => { let d = tf.dense(); for i in 0..n { let mut s = fl::CDD::ZERO; let mut mag = 0.0; for j in 0..n { s = s + fl::CDD::from(d.a[i][j]) * fl::CDD::from(v[j]); mag += fl::cabs(d.a[i][j]) * fl::cabs(v[j]); } if p.vec.len() != n || !((fl::CDD::from(p.vec[i]) - s).abs() <= 16.0 * U * mag) { st.violation("C05:mulvec:Cmplx:wrong-value", format!("row {} v={:?}; {}", i, v, desc())); break; } } }
        o => st.violation(&format!("C05:mulvec:Cmplx:panic-n{}", if n == 1 { "1" } else { "ge2" }), format!("{}; {}", o.describe(), desc())),
    }
    st.count("cases:Cmplx");
    let mut h = hash_str("Cmplx"); for x in tf.main.iter() { h = hmix(h, x.real.to_bits()); }
    st.nontrivial(h);
}

/// one live Tridiagonal<Rat> through queries (det, solve, product, convert) interleaved with in-place mutators
/// (index writes, +=, -=, *=, /= scalar, transpose_in_place, resize), against the three-diagonal model after every step
fn history_case(st: &mut Stats, rng: &mut Rng) {
    st.next_case();
    let n = rng.usize(1, 7);
    let rv = |r: &mut Rng| Rat::int(r.int(-6, 6));
    let mut t = gen_tri::<Rat>(rng, n, 0, &rv);
    let mut m = t.build(rng.usize(0, 3));
    let mut log: Vec<String> = vec![format!("start sub={:?} main={:?} sup={:?}", t.sub, t.main, t.sup)];
    for _ in 0..rng.usize(3, 14) {
        let c = Rat::int(rng.nzint(4));
        let n = t.n();
        match rng.below(12) {
            11 => { // the receiver takes over another matrix (of another size) through clone_from / assignment of a clone
                let n2 = rng.usize(1, 7);
                let t2 = gen_tri::<Rat>(rng, n2, 0, &rv);
                let m2 = t2.build(0);
                let via = rng.bool();
                log.push(format!("{} matrix of size {} sub={:?} main={:?} sup={:?}", if via { "clone_from" } else { "= clone of" }, n2, t2.sub, t2.main, t2.sup));
                if !catch(|| if via { m.clone_from(&m2) } else { m = m2.clone() }).is_ok() { st.violation("C05:history:clone_from:panic", format!("after {:?}", log)); return; }
                t = t2;
                if m.size() != t.n() { st.violation("C05:history:clone_from:size", format!("size() = {} after taking over a matrix of size {}; {:?}", m.size(), t.n(), log)); return; }
            }
            0 | 1 => { log.push("det()".into()); if let Outcome::Ok((det, _, _)) = catch(|| exact_det_rank_inv(&t.dense())) { st.eval(); match catch(|| m.det()) { Outcome::Ok(x) => if x != det { st.violation("C05:history:det:stale-or-wrong", format!("det = {:?} expected {:?} after {:?}", x, det, log)); return; }, Outcome::Overflow => return, o => { st.violation("C05:history:det:panic", format!("{} after {:?}", o.describe(), log)); return; } } } }
            2 | 3 => { let r: Vec<Rat> = (0..n).map(|_| rv(rng)).collect(); log.push(format!("solve({:?})", r));
                if let Outcome::Ok(model) = catch(|| thomas_exact(&t, &r)) { st.eval(); match (model, catch(|| m.solve(&vec_to_ohsl(&r)))) {
                    (Ok(x), Outcome::Ok(y)) => if y.vec != x { st.violation("C05:history:solve:stale-or-wrong", format!("solve = {:?} expected {:?} after {:?}", y.vec, x, log)); return; },
                    (Ok(_), Outcome::Overflow) => return,
                    (Ok(x), o) => { st.violation("C05:history:solve:refused-without-zero-pivot", format!("{} (solution {:?}) after {:?}", o.describe(), x, log)); return; }
                    (Err(s), Outcome::Ok(y)) => { st.violation("C05:history:solve:returned-despite-zero-pivot", format!("zero pivot at step {} but returned {:?} after {:?}", s, y.vec, log)); return; }
                    _ => {}
                } } }
            4 => { let v: Vec<Rat> = (0..n).map(|_| rv(rng)).collect(); log.push("mulvec".into()); st.eval(); match catch(|| &m * &vec_to_ohsl(&v)) { Outcome::Ok(p) => if p.vec != t.dense().mulvec(&v) { st.violation("C05:history:mulvec:wrong", format!("after {:?}", log)); return; }, Outcome::Overflow => return, o => { st.violation("C05:history:mulvec:panic", format!("{} after {:?}", o.describe(), log)); return; } } }
            5 => { let i = rng.usize(0, n - 1); let which = rng.below(3); let (r, cidx) = if which == 0 || n == 1 { (i, i) } else if which == 1 { let k = rng.usize(0, n - 2); (k + 1, k) } else { let k = rng.usize(0, n - 2); (k, k + 1) };
                log.push(format!("[({},{})] = {:?}", r, cidx, c)); if r == cidx { t.main[r] = c; } else if r == cidx + 1 { t.sub[cidx] = c; } else { t.sup[r] = c; }
                if !catch(|| m[(r, cidx)] = c).is_ok() { st.violation("C05:history:index_mut:panic", format!("after {:?}", log)); return; } }
            6 => { log.push(format!("+= {:?}", c)); t = t.map(|a| a + c); if !catch(|| m += c).is_ok() { return; } }
            7 => { log.push(format!("-= {:?}", c)); t = t.map(|a| a - c); if !catch(|| m -= c).is_ok() { return; } }
            8 => { log.push(format!("*= {:?}", c)); t = t.map(|a| a * c); if !catch(|| m *= c).is_ok() { return; } }
            9 => { log.push(format!("/= {:?}", c)); t = t.map(|a| a / c); if !catch(|| m /= c).is_ok() { return; } }
            _ => { log.push("transpose_in_place()".into()); t = Tri { sub: t.sup.clone(), main: t.main.clone(), sup: t.sub.clone() }; if !catch(|| m.transpose_in_place()).is_ok() { st.violation("C05:history:transpose_in_place:panic", format!("after {:?}", log)); return; } }
        }
        st.eval();
        if !t.same(&m) { st.violation("C05:history:diagonals-differ-from-model", format!("after {:?}", log)); return; }
    }
    st.count("histories");
}

pub fn run(ctx: &Ctx) -> Report {
    let units = ctx.vol(8000, 400_000);
    let stats = par_run(ctx, TAG, units, |u, rng, st| {
        let class = u % 5;
        for _ in 0..6 {
            judge_exact::<Rat>(st, rng, class, &|r| if r.chance(0.15) { Rat::new(r.int(-9, 9) as i128, r.int(1, 4) as i128) } else { Rat::int(r.int(-9, 9)) });
            judge_exact::<CRat>(st, rng, class, &|r| CRat::new(Rat::int(r.int(-5, 5)), Rat::int(r.int(-5, 5))));
            judge_f64(st, rng);
            judge_cmplx(st, rng);
            judge_conj(st, rng);
            history_case(st, rng);
        }
    });
    let mut rep = Report::new(stats,
        "[round 6: one f64 case in eight is long, n=13..96, exactly representable LU class: solve, det, both products, scalar product, construct/index/convert/transpose/arithmetic] random tridiagonal matrices n=1..12 (n=1,2 weighted x10) over Rat, CRat, f64, Complex<f64>, built through all four constructors; classes: generic nonzero, zero sub/super entries, zero pivot forced at a chosen elimination step (every step seen: see zero-pivot-steps sets), zero main entries, triangular. Per case: every (i,j) access, convert, transpose (both), det, &T*&v and T*v, solve vs exact Thomas model (solution or refusal + message), 10 arithmetic/resize forms; f64: exactly representable L*U class mirrored against the Rat model, strictly dominant class by backward error. Plus live-object histories (det/solve/product queries interleaved with index writes, scalar compound assignments and transpose_in_place, compared with the model after every step). Every case non-trivial; distinct = distinct (type,class,diagonals) hashes");
    rep.assumptions = vec!["refusal message accepted if it matches /zero|pivot|singular/i".into(), "f64 dominant systems: backward error <= 64*n*u".into()];
    rep.min_nontrivial = 2000;
    rep
}
