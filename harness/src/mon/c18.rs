//! C18 — finite-difference Jacobian is m x n and equals the forward difference quotients.
//!
//! Observation: the closure handed to `Mat64::jacobian` / `Matrix::<Cmplx>::jacobian_cmplx` logs every
//! point it is called at and every value it returns (RefCell captured by the closure). The oracle judges
//!   (a) shape: rows == m, cols == n, storage == m*n for every (m,n) in [1,6]^2 (wide and tall included);
//!   (b) call log: n+1 calls, call 0 at x, call j+1 at x + delta*e_j with every coordinate l > j bit-equal
//!       to x_l (never touched) and every coordinate l < j restored (bit-equal on dyadic data, within
//!       RESTORE_TOL*u*(|x_l|+delta) on general data);
//!   (c) affine maps on dyadic data (every operation exact in f64, certified by an integer model of the
//!       logged calls): J == M exactly;
//!   (d) general maps: J_ij equals the difference quotient of the values the closure actually returned
//!       (double-double reference, QTOL relative), and |J_ij - dF_i/dx_j| <= 1/2*M2*h^2/delta + rounding
//!       allowance, M2 a rigorous bound of the second derivative on the segment.
//! Everything (real and complex) is driven through one internal complex representation `Z`; in the real
//! instantiation all imaginary parts are exactly zero.
use crate::fl::{DD, U};
use crate::json::J;
use crate::mon::common::*;
use crate::rng::Rng;
use crate::run::{catch, par_run, Ctx, Outcome, Report, Stats};
use ohsl::{Cmplx, Mat64, Matrix, Vec64, Vector};
use std::cell::RefCell;

const TAG: u64 = 0xC18;

// ---- fixed tolerances (audited through the recorded maxima) -------------------------------------------
/// restored coordinate l<j (and perturbed coordinate j) on general data: |seen - expected| <= RESTORE_TOL*u*(|x_l|+delta).
/// Rigorous rounding bound is 2 units (x+d then -d), measured worst 1.0 unit; a missing restore is >= delta >= 1e-8,
/// i.e. >= 2e7 units at |x|<=4.
const RESTORE_TOL: f64 = 256.0;
/// entry vs double-double difference quotient of the logged closure values, relative, per real component.
/// f64: 2 roundings (subtract, divide); Cmplx: 4 (subtract, *delta, delta^2, divide). Measured worst 2.4u (ratio 0.0048).
const QTOL: f64 = 512.0 * U;
/// rounding allowance of the derivative bound, in units of u*(A_i(x)+A_i(x+) + sum_{l<=j} D_il*(|x_l|+delta))/delta where
/// A_i bounds the magnitude of the terms of f_i (so u*A_i bounds the closure's own evaluation error) and D_il the
/// magnitude of dF_i/dx_l (perturbation rounding and restore drift of earlier coordinates). Measured worst use of
/// this allowance on the unchanged tree: 0.0044 (5 M Jacobians); at delta=1e-8 it is 5.7e-6*A, a wrong formula is O(1)*D.
const CN: f64 = 512.0;
/// rounding allowance for the oracle's own f64 evaluation of the analytic derivative, units of u*D_ij
const CD: f64 = 64.0;
/// steps: delta = 2^-k, k = 4..=26, and 1e-8
const KMIN: u32 = 4;
const KMAX: u32 = 26;

#[derive(Clone, Copy, PartialEq, Debug)]
enum Ty { R, C }
impl Ty {
    fn name(self) -> &'static str { if self == Ty::R { "f64" } else { "Cmplx" } }
    fn site(self) -> &'static str { if self == Ty::R { "jacobian" } else { "jacobian_cmplx" } }
}

// ---- minimal complex arithmetic of the oracle (independent of ohsl's Complex) --------------------------
#[derive(Clone, Copy, PartialEq)]
struct Z { re: f64, im: f64 }
impl std::fmt::Debug for Z {
    fn fmt(&self, f: &mut std::fmt::Formatter<'_>) -> std::fmt::Result {
        if self.im == 0.0 { write!(f, "{:?}", self.re) } else { write!(f, "({:?},{:?})", self.re, self.im) }
    }
}
impl Z {
    const ZERO: Z = Z { re: 0.0, im: 0.0 };
    fn new(re: f64, im: f64) -> Z { Z { re, im } }
    fn r(re: f64) -> Z { Z { re, im: 0.0 } }
    fn add(self, o: Z) -> Z { Z::new(self.re + o.re, self.im + o.im) }
    fn sub(self, o: Z) -> Z { Z::new(self.re - o.re, self.im - o.im) }
    fn mul(self, o: Z) -> Z { Z::new(self.re * o.re - self.im * o.im, self.re * o.im + self.im * o.re) }
    fn scale(self, s: f64) -> Z { Z::new(self.re * s, self.im * s) }
    fn abs(self) -> f64 { self.re.hypot(self.im) }
    fn sin(self) -> Z { Z::new(self.re.sin() * self.im.cosh(), self.re.cos() * self.im.sinh()) }
    fn cos(self) -> Z { Z::new(self.re.cos() * self.im.cosh(), -(self.re.sin() * self.im.sinh())) }
    fn exp(self) -> Z { let e = self.re.exp(); Z::new(e * self.im.cos(), e * self.im.sin()) }
    fn recip(self) -> Z {
        if self.im == 0.0 { Z::new(1.0 / self.re, 0.0) } else { let d = self.re * self.re + self.im * self.im; Z::new(self.re / d, -self.im / d) }
    }
    fn finite(self) -> bool { self.re.is_finite() && self.im.is_finite() }
    fn hash(self, h: u64) -> u64 { hmix(hmix(h, self.re.to_bits()), self.im.to_bits()) }
}

// ---- what one execution of the library shows --------------------------------------------------------------
struct JacOut { rows: usize, cols: usize, store: usize, ent: Vec<Z> }
struct Obs { calls: Vec<Vec<Z>>, outs: Vec<Vec<Z>>, res: Outcome<JacOut> }

thread_local! {
    /// re-entrant mode: the closure handed to the library itself calls the library's Jacobian routines (a finite-difference
    /// Hessian, an inner Newton solve ... are ordinary user code) before it evaluates the map
    static REENTER: std::cell::Cell<bool> = std::cell::Cell::new(false);
    static INNER_BAD: std::cell::Cell<u32> = std::cell::Cell::new(0);
}
fn inner_library_calls() {
    if !REENTER.with(|r| r.get()) { return; }
    let g = |v: Vec64| -> Vec64 { Vector::create(vec![2.0 * v[0] + 3.0 * v[1], v[0] - v[1], 4.0 * v[1]]) };
    let j = Mat64::jacobian(Vector::create(vec![1.0, 2.0]), &g, 2f64.powi(-10));
    let ok = j.rows() == 3 && j.cols() == 2 && j[(0, 0)] == 2.0 && j[(0, 1)] == 3.0 && j[(1, 0)] == 1.0 && j[(1, 1)] == -1.0 && j[(2, 0)] == 0.0 && j[(2, 1)] == 4.0;
    let gc = |v: Vector<Cmplx>| -> Vector<Cmplx> { Vector::create(vec![Cmplx::new(0.0, 2.0) * v[0] + v[1], v[0] - Cmplx::new(3.0, 0.0) * v[1]]) };
    let jc = Matrix::<Cmplx>::jacobian_cmplx(Vector::create(vec![Cmplx::new(1.0, 1.0), Cmplx::new(0.0, -2.0)]), &gc, 2f64.powi(-10));
    let okc = jc.rows() == 2 && jc.cols() == 2 && jc[(0, 0)] == Cmplx::new(0.0, 2.0) && jc[(0, 1)] == Cmplx::new(1.0, 0.0) && jc[(1, 0)] == Cmplx::new(1.0, 0.0) && jc[(1, 1)] == Cmplx::new(-3.0, 0.0);
    if !ok || !okc { INNER_BAD.with(|b| b.set(b.get() + 1)); }
}

/// Run the real library routine on point `x` with step `delta`; `f` is the map (evaluated by the harness),
/// every call point and returned value is logged.
fn drive(ty: Ty, x: &[Z], delta: f64, f: &dyn Fn(&[Z]) -> Vec<Z>) -> Obs {
    let log: RefCell<(Vec<Vec<Z>>, Vec<Vec<Z>>)> = RefCell::new((vec![], vec![]));
    let res = match ty {
        Ty::R => {
            let clos = |v: Vec64| -> Vec64 {
                inner_library_calls();
                let p: Vec<Z> = v.vec.iter().map(|&r| Z::r(r)).collect();
                let o: Vec<Z> = f(&p).iter().map(|z| Z::r(z.re)).collect();
                let ret = Vector::create(o.iter().map(|z| z.re).collect::<Vec<f64>>());
                let mut l = log.borrow_mut();
                l.0.push(p);
                l.1.push(o);
                ret
            };
            let pt: Vec64 = Vector::create(x.iter().map(|z| z.re).collect::<Vec<f64>>());
            catch(|| {
                let jm = Mat64::jacobian(pt, &clos, delta);
                let (rows, cols, store) = (jm.rows(), jm.cols(), jm.verif_storage_len());
                let mut ent = vec![];
                if store == rows * cols && store <= 4096 { for i in 0..rows { for j in 0..cols { ent.push(Z::r(jm[(i, j)])); } } }
                JacOut { rows, cols, store, ent }
            })
        }
        Ty::C => {
            let clos = |v: Vector<Cmplx>| -> Vector<Cmplx> {
                inner_library_calls();
                let p: Vec<Z> = v.vec.iter().map(|c| Z::new(c.real, c.imag)).collect();
                let o: Vec<Z> = f(&p);
                let ret = Vector::create(o.iter().map(|z| Cmplx::new(z.re, z.im)).collect::<Vec<Cmplx>>());
                let mut l = log.borrow_mut();
                l.0.push(p);
                l.1.push(o);
                ret
            };
            let pt: Vector<Cmplx> = Vector::create(x.iter().map(|z| Cmplx::new(z.re, z.im)).collect::<Vec<Cmplx>>());
            catch(|| {
                let jm = Matrix::<Cmplx>::jacobian_cmplx(pt, &clos, delta);
                let (rows, cols, store) = (jm.rows(), jm.cols(), jm.verif_storage_len());
                let mut ent = vec![];
                if store == rows * cols && store <= 4096 { for i in 0..rows { for j in 0..cols { let c = jm[(i, j)]; ent.push(Z::new(c.real, c.imag)); } } }
                JacOut { rows, cols, store, ent }
            })
        }
    };
    let (calls, outs) = log.into_inner();
    Obs { calls, outs, res }
}

/// Outcome + shape. Returns the entries when the routine returned an m x n matrix.
fn check_outcome<'a>(st: &mut Stats, ty: Ty, m: usize, n: usize, obs: &'a Obs, desc: &dyn Fn() -> String) -> Option<&'a JacOut> {
    match &obs.res {
        Outcome::Ok(j) => {
            if j.rows != m || j.cols != n || j.store != m * n || j.ent.len() != m * n {
                st.violation(&format!("C18:{}:{}:shape", ty.site(), ty.name()),
                    format!("returned {}x{} (storage {}) for a map from {} variables to {} components; {}", j.rows, j.cols, j.store, n, m, desc()));
                None
            } else { Some(j) }
        }
        Outcome::Panic { msg, loc } => {
            // the known set_col range-check failure gets its own narrow signature; any other refusal is separate
            let mode = if m < n && msg.contains("range error in set_col") { "panic-rectangular" } else { "panic" };
            st.violation(&format!("C18:{}:{}:{}", ty.site(), ty.name(), mode),
                format!("panic '{}' at {} after {} closure calls, expected a {}x{} matrix; {}", msg, loc, obs.calls.len(), m, n, desc()));
            None
        }
        Outcome::Overflow | Outcome::Budget => { st.count("skipped:overflow-or-budget"); None }
    }
}

/// Call-log monitor. `exact`: data on which x_j+delta and the restore are exact in f64 (bit-equality demanded).
fn check_calls(st: &mut Stats, ty: Ty, exact: bool, x: &[Z], delta: f64, obs: &Obs, desc: &dyn Fn() -> String) -> bool {
    let n = x.len();
    let sig = |mode: &str| format!("C18:calls:{}:{}", ty.name(), mode);
    if obs.calls.len() != n + 1 || obs.outs.len() != n + 1 {
        st.violation(&sig("call-count"), format!("closure called {} times, expected n+1={}; calls={:?}; {}", obs.calls.len(), n + 1, obs.calls, desc()));
        return false;
    }
    if obs.calls.iter().any(|p| p.len() != n) {
        st.violation(&sig("call-point"), format!("closure called with a point of wrong length; calls={:?}; {}", obs.calls, desc()));
        return false;
    }
    if (0..n).any(|l| !(obs.calls[0][l].re == x[l].re && obs.calls[0][l].im == x[l].im)) {
        st.violation(&sig("base-point"), format!("call 0 at {:?}, expected the evaluation point itself; {}", obs.calls[0], desc()));
        return false;
    }
    let mut ok = true;
    for j in 0..n {
        let p = &obs.calls[j + 1];
        for l in 0..n {
            let unit = U * (x[l].re.abs() + delta);
            let im_ok = p[l].im == x[l].im;
            if l == j {
                let want = x[l].re + delta;
                let err = (p[l].re - want).abs();
                if !exact { st.max("calls:max_perturb_err_units(tol 256)", err / unit); }
                let good = if exact { p[l].re == want } else { err <= RESTORE_TOL * unit };
                if !(good && im_ok) {
                    if ok { st.violation(&sig("call-point"), format!("call {} has coordinate {} = {:?}, expected x_{}+delta = {:?}; point={:?}; {}", j + 1, l, p[l], l, Z::new(want, x[l].im), p, desc())); }
                    ok = false;
                }
            } else if l > j {
                if !(p[l].re == x[l].re && im_ok) {
                    if ok { st.violation(&sig("call-point"), format!("call {} has untouched coordinate {} = {:?} != x_{} = {:?}; point={:?}; {}", j + 1, l, p[l], l, x[l], p, desc())); }
                    ok = false;
                }
            } else {
                let err = (p[l].re - x[l].re).abs();
                if !exact { st.max("calls:max_restore_err_units(tol 256)", err / unit); }
                let good = if exact { p[l].re == x[l].re } else { err <= RESTORE_TOL * unit };
                if !(good && im_ok) {
                    if ok { st.violation(&sig("not-restored"), format!("call {} has coordinate {} = {:?}, expected it restored to x_{} = {:?} before coordinate {} was perturbed; point={:?}; {}", j + 1, l, p[l], l, x[l], j, p, desc())); }
                    ok = false;
                }
            }
        }
    }
    ok
}

/// Entry (i,j) must be the forward difference quotient (F_i(call j+1) - F_i(call 0))/delta of the values the
/// closure returned; reference in double-double, per real component.
fn check_quotient(st: &mut Stats, ty: Ty, m: usize, n: usize, delta: f64, obs: &Obs, jac: &JacOut, desc: &dyn Fn() -> String) {
    if obs.outs.len() != n + 1 || obs.outs.iter().any(|o| o.len() != m) { return; }
    let dd = DD::from(delta);
    let mut flagged = false;
    for i in 0..m {
        for j in 0..n {
            let (a, b, got) = (obs.outs[j + 1][i], obs.outs[0][i], jac.ent[i * n + j]);
            for (av, bv, gv) in [(a.re, b.re, got.re), (a.im, b.im, got.im)] {
                let q = (DD::from(av) - DD::from(bv)) / dd;
                let err = ((gv - q.hi) - q.lo).abs();
                let tol = QTOL * q.hi.abs() + 1e-290;
                if q.hi != 0.0 { st.max("quotient:max_err_over_tol", err / tol); }
                if !(err <= tol) && !flagged {
                    flagged = true;
                    st.violation(&format!("C18:{}:{}:quotient", ty.site(), ty.name()),
                        format!("entry ({},{}) = {:?} but (F_{}(x+delta e_{}) - F_{}(x))/delta = ({:?} - {:?})/{:e} = {:e}; {}", i, j, got, i, j, i, a, b, delta, q.hi, desc()));
                }
            }
        }
    }
}

// ---- (c) affine maps on dyadic data: exact -------------------------------------------------------------------
/// integer description: M = mq/2^sm, c = cq/2^sc, x = xp/16 (Gaussian integers in the complex instantiation)
#[derive(Clone, Debug)]
struct AffInt { m: usize, n: usize, mq: Vec<(i64, i64)>, sm: u32, cq: Vec<(i64, i64)>, sc: u32, xp: Vec<(i64, i64)> }

fn pow2(e: i32) -> f64 { 2f64.powi(e) }

fn judge_affine_exact(st: &mut Stats, ty: Ty, class: &str, a: &AffInt, k: u32) {
    let (m, n) = (a.m, a.n);
    st.next_case();
    let delta = pow2(-(k as i32));
    let mf: Vec<Z> = a.mq.iter().map(|&(r, i)| Z::new(r as f64 / pow2(a.sm as i32), i as f64 / pow2(a.sm as i32))).collect();
    let cf: Vec<Z> = a.cq.iter().map(|&(r, i)| Z::new(r as f64 / pow2(a.sc as i32), i as f64 / pow2(a.sc as i32))).collect();
    let x: Vec<Z> = a.xp.iter().map(|&(r, i)| Z::new(r as f64 / 16.0, i as f64 / 16.0)).collect();
    let f = |p: &[Z]| -> Vec<Z> {
        (0..m).map(|i| { let mut s = cf[i]; for j in 0..n.min(p.len()) { s = s.add(mf[i * n + j].mul(p[j])); } s }).collect()
    };
    let desc = || format!("T={} class={} m={} n={} delta=2^-{} map x->Mx+c with M(row-major)={:?} c={:?} x={:?}", ty.name(), class, m, n, k, mf, cf, x);
    let reenter = (k as usize + m + n) % 7 == 0;
    REENTER.with(|r| r.set(reenter)); INNER_BAD.with(|b| b.set(0));
    let obs = drive(ty, &x, delta, &f);
    REENTER.with(|r| r.set(false));
    if reenter { st.count("reentrant-closure-cases"); if INNER_BAD.with(|b| b.get()) > 0 { st.violation(&format!("C18:{}:{}:reentrant-inner-call-wrong", ty.site(), ty.name()), format!("a Jacobian computed INSIDE the closure of an outer Jacobian call came out wrong; {}", desc())); } }
    let desc = || format!("{}{}", desc(), if reenter { " [closure re-enters jacobian / jacobian_cmplx]" } else { "" });
    st.eval();
    st.count(&format!("cases:{}:affine-exact", ty.name()));
    st.set_insert(&format!("shapes:{}:affine-exact", ty.name()), format!("{}x{}", m, n));
    st.set_insert("steps:affine-exact", format!("2^-{:02}", k));
    if mf.iter().any(|z| z.re != 0.0 || z.im != 0.0) {
        let mut h = hmix(hash_str(ty.name()) ^ hash_str("affine-exact"), ((m as u64) << 32) | ((n as u64) << 16) | k as u64);
        for z in mf.iter().chain(cf.iter()).chain(x.iter()) { h = z.hash(h); }
        st.nontrivial(h);
    }
    st.sample(|| desc());
    let jac = check_outcome(st, ty, m, n, &obs, &desc);
    if !obs.res.is_ok() { return; } // refused: the call log is truncated, nothing more to judge
    let calls_ok = check_calls(st, ty, true, &x, delta, &obs, &desc);
    let jac = match jac { Some(j) if calls_ok => j, _ => return };
    // certificate (integer model of the logged calls): the closure's f64 evaluation was exact
    let sh = 26 + a.sm.max(a.sc);
    let mut cert = true;
    'c: for (p, o) in obs.calls.iter().zip(obs.outs.iter()) {
        let mut xi: Vec<(i128, i128)> = vec![];
        for z in p {
            let (r, i) = (z.re * pow2(26), z.im * pow2(26));
            if r.fract() != 0.0 || i.fract() != 0.0 || r.abs() > 1e15 || i.abs() > 1e15 { cert = false; break 'c; }
            xi.push((r as i128, i as i128));
        }
        for i in 0..m {
            let up = 1i128 << (sh - 26 - a.sm);
            let (mut fr, mut fi) = ((a.cq[i].0 as i128) << (sh - a.sc), (a.cq[i].1 as i128) << (sh - a.sc));
            for j in 0..n {
                let (qr, qi) = (a.mq[i * n + j].0 as i128 * up, a.mq[i * n + j].1 as i128 * up);
                fr += qr * xi[j].0 - qi * xi[j].1;
                fi += qr * xi[j].1 + qi * xi[j].0;
            }
            if !repr53(fr) || !repr53(fi) || o.len() != m { cert = false; break 'c; }
            if o[i].re * pow2(sh as i32) != fr as f64 || o[i].im * pow2(sh as i32) != fi as f64 { cert = false; break 'c; }
        }
    }
    if !cert {
        st.count("skipped:affine-exactness-certificate-failed");
        if st.harness_errors.len() < 3 { st.harness_errors.push(format!("C18 affine exactness certificate failed: {}", desc())); }
        return;
    }
    st.count("certified:affine-exact");
    let bad = (0..m * n).find(|&e| !(jac.ent[e].re == mf[e].re && jac.ent[e].im == mf[e].im));
    if let Some(e) = bad {
        st.violation(&format!("C18:{}:{}:affine-not-exact", ty.site(), ty.name()),
            format!("entry ({},{}) = {:?} but M entry is {:?} (all operations exact on this data); J(row-major)={:?}; {}", e / n, e % n, jac.ent[e], mf[e], jac.ent, desc()));
    }
}

/// v/2^s is a double exactly when the odd part of v has at most 53 bits (the exponent range is never an issue here)
fn repr53(v: i128) -> bool { if v == 0 { return true; } let t = v.unsigned_abs(); (t >> t.trailing_zeros()) < (1u128 << 53) }

/// wide dynamic range inside a row: small dyadic entries M_ij = q/2^s (|q| <= 3, s <= 6) next to an offset c_i of up to
/// 2^(52-k-s), the largest for which every closure value is still an exact double: the increment M_ij*delta is then as
/// small as ONE unit in the last place of f_i(x) - exact data, not rounding noise
fn gen_affine_wide(rng: &mut Rng, ty: Ty, m: usize, n: usize, k: u32) -> AffInt {
    let cplx = ty == Ty::C && rng.bool();
    let sm = rng.below(7) as u32;
    let mut mq = vec![(0i64, 0i64); m * n];
    for e in mq.iter_mut() { if rng.chance(0.8) { *e = (rng.int(-3, 3), if cplx { rng.int(-3, 3) } else { 0 }); } }
    let cq: Vec<(i64, i64)> = (0..m).map(|_| {
        let e = (52 - k as i64 - sm as i64 - rng.below(3) as i64).max(8);
        let big = |rng: &mut Rng| (if rng.bool() { 1 } else { -1 }) * ((1i64 << e) + if rng.bool() { 0 } else { rng.int(0, 64) });
        let re = big(rng);
        (re, if cplx { if rng.bool() { big(rng) } else { rng.int(-64, 64) } } else { 0 })
    }).collect();
    let xp: Vec<(i64, i64)> = (0..n).map(|_| (rng.int(-64, 64), if cplx { rng.int(-64, 64) } else { 0 })).collect();
    AffInt { m, n, mq, sm, cq, sc: 0, xp }
}

fn gen_affine(rng: &mut Rng, ty: Ty, m: usize, n: usize) -> (AffInt, &'static str) {
    let cplx = ty == Ty::C && !rng.chance(0.2);
    let variant = rng.below(4);
    let im = |rng: &mut Rng, lim: i64| if cplx { rng.int(-lim, lim) } else { 0 };
    let mut mq = vec![(0i64, 0i64); m * n];
    let (sm, class) = match variant {
        0 => { for e in mq.iter_mut() { *e = (rng.int(-64, 64), im(rng, 64)); } (rng.below(4) as u32, "dense") }
        1 => { for e in mq.iter_mut() { if rng.bool() { *e = (rng.int(-64, 64), im(rng, 64)); } } (rng.below(4) as u32, "sparse") }
        2 => { for e in mq.iter_mut() { *e = (rng.int(-3, 3), im(rng, 3)); } (0, "small-int") }
        _ => { for i in 0..m { let j = rng.usize(0, n - 1); mq[i * n + j] = if cplx && rng.bool() { (0, rng.nzint(1)) } else { (rng.nzint(1), 0) }; } (0, "selection") }
    };
    let sc = rng.below(4) as u32;
    let cq: Vec<(i64, i64)> = (0..m).map(|_| (rng.int(-64, 64), im(rng, 64))).collect();
    let coord = |rng: &mut Rng| -> i64 { if rng.chance(0.2) { *rng.pick(&[-64i64, 0, 64]) } else { rng.int(-64, 64) } };
    let xp: Vec<(i64, i64)> = (0..n).map(|_| { let r = coord(rng); let i = if cplx { coord(rng) } else { 0 }; (r, i) }).collect();
    (AffInt { m, n, mq, sm, cq, sc, xp }, class)
}

/// seed-independent sweep: index-coded M (all entries distinct), fixed corner / centre / staggered points
fn enumerated_affine(ty: Ty, m: usize, n: usize, pt: usize) -> AffInt {
    let c = ty == Ty::C;
    let mq = (0..m * n).map(|e| { let v = e as i64 + 1; (if e % 2 == 0 { v } else { -v }, if c { 37 - v } else { 0 }) }).collect();
    let cq = (0..m).map(|i| (i as i64 + 1, if c { -(i as i64) - 2 } else { 0 })).collect();
    let xp = (0..n).map(|j| {
        let j = j as i64;
        match pt {
            0 => (0, 0),
            1 => (64, if c { 64 } else { 0 }),
            2 => (-64, if c { -64 } else { 0 }),
            _ => (if j % 2 == 0 { 8 * (j + 1) + 1 } else { -8 * (j + 1) - 1 }, if c { 5 * j - 13 } else { 0 }),
        }
    }).collect();
    AffInt { m, n, mq, sm: 3, cq, sc: 0, xp }
}

// ---- (d) general maps with known derivatives ----------------------------------------------------------------------
#[derive(Clone, Debug)]
enum Term {
    /// a
    Const(Z),
    /// a*x_p
    Lin(Z, usize),
    /// a*x_p*x_q (p == q allowed)
    Quad(Z, usize, usize),
    /// a*x_p^2*x_q (p == q allowed)
    Cubic(Z, usize, usize),
    /// a*sin(w.x + b)
    Sin(Z, Vec<Z>, Z),
    /// a*exp(w.x + b)
    Exp(Z, Vec<Z>, Z),
    /// a/(8 + x_p)   (Re x_p >= -4, so |8+x_p| >= 4)
    Recip(Z, usize),
    /// a/(1 + x_p^2), real instantiation only
    Lorentz(f64, usize),
}

/// zeta = b + w.x and S = |b| + sum |w_j||x_j| (rounding error of zeta <= ~24u*S for n <= 6)
fn ridge(w: &[Z], b: Z, x: &[Z]) -> (Z, f64) {
    let (mut z, mut s) = (b, b.abs());
    for j in 0..w.len().min(x.len()) { z = z.add(w[j].mul(x[j])); s += w[j].abs() * x[j].abs(); }
    (z, s)
}
const INFL: f64 = 1.0 + 1e-9;

impl Term {
    /// value and magnitude A (u*A*const bounds the rounding error of this evaluation)
    fn val(&self, x: &[Z]) -> (Z, f64) {
        match self {
            Term::Const(a) => (*a, a.abs()),
            Term::Lin(a, p) => (a.mul(x[*p]), a.abs() * x[*p].abs()),
            Term::Quad(a, p, q) => (a.mul(x[*p]).mul(x[*q]), a.abs() * x[*p].abs() * x[*q].abs()),
            Term::Cubic(a, p, q) => (a.mul(x[*p]).mul(x[*p]).mul(x[*q]), a.abs() * x[*p].abs() * x[*p].abs() * x[*q].abs()),
            Term::Sin(a, w, b) => { let (z, s) = ridge(w, *b, x); (a.mul(z.sin()), a.abs() * z.im.abs().cosh() * (1.0 + s)) }
            Term::Exp(a, w, b) => { let (z, s) = ridge(w, *b, x); (a.mul(z.exp()), a.abs() * z.re.exp() * (1.0 + s)) }
            Term::Recip(a, p) => { let d = Z::r(8.0).add(x[*p]); (a.mul(d.recip()), a.abs() / d.abs()) }
            Term::Lorentz(a, p) => { let t = x[*p].re; let v = a / (1.0 + t * t); (Z::r(v), v.abs()) }
        }
    }
    /// d/dx_j and magnitude D
    fn der(&self, x: &[Z], j: usize) -> (Z, f64) {
        let mk = |z: Z| (z, z.abs());
        match self {
            Term::Const(_) => (Z::ZERO, 0.0),
            Term::Lin(a, p) => if j == *p { mk(*a) } else { (Z::ZERO, 0.0) },
            Term::Quad(a, p, q) => {
                if p == q { if j == *p { mk(a.mul(x[*p]).scale(2.0)) } else { (Z::ZERO, 0.0) } }
                else if j == *p { mk(a.mul(x[*q])) } else if j == *q { mk(a.mul(x[*p])) } else { (Z::ZERO, 0.0) }
            }
            Term::Cubic(a, p, q) => {
                if p == q { if j == *p { mk(a.mul(x[*p]).mul(x[*p]).scale(3.0)) } else { (Z::ZERO, 0.0) } }
                else if j == *p { mk(a.mul(x[*p]).mul(x[*q]).scale(2.0)) } else if j == *q { mk(a.mul(x[*p]).mul(x[*p])) } else { (Z::ZERO, 0.0) }
            }
            Term::Sin(a, w, b) => { let (z, s) = ridge(w, *b, x); (a.mul(w[j]).mul(z.cos()), a.abs() * w[j].abs() * z.im.abs().cosh() * (1.0 + s)) }
            Term::Exp(a, w, b) => { let (z, s) = ridge(w, *b, x); (a.mul(w[j]).mul(z.exp()), a.abs() * w[j].abs() * z.re.exp() * (1.0 + s)) }
            Term::Recip(a, p) => if j == *p { let r = Z::r(8.0).add(x[*p]).recip(); mk(a.mul(r).mul(r).scale(-1.0)) } else { (Z::ZERO, 0.0) },
            Term::Lorentz(a, p) => if j == *p { let t = x[*p].re; let d = 1.0 + t * t; mk(Z::r(-2.0 * a * t / (d * d))) } else { (Z::ZERO, 0.0) },
        }
    }
    /// rigorous bound of |d^2/dx_j^2| on the segment x + t e_j, 0 <= t <= h (t real)
    fn m2(&self, x: &[Z], j: usize, h: f64) -> f64 {
        let v = match self {
            Term::Const(_) | Term::Lin(..) => 0.0,
            Term::Quad(a, p, q) => if p == q && j == *p { 2.0 * a.abs() } else { 0.0 },
            Term::Cubic(a, p, q) => {
                if p == q { if j == *p { 6.0 * a.abs() * x[*p].abs().max(Z::new(x[*p].re + h, x[*p].im).abs()) } else { 0.0 } }
                else if j == *p { 2.0 * a.abs() * x[*q].abs() } else { 0.0 }
            }
            Term::Sin(a, w, b) => {
                let (z, s) = ridge(w, *b, x);
                let y = z.im.abs().max((z.im + w[j].im * h).abs()) + 1e-9 * (1.0 + s);
                a.abs() * w[j].abs() * w[j].abs() * y.cosh()
            }
            Term::Exp(a, w, b) => {
                let (z, s) = ridge(w, *b, x);
                let r = z.re.max(z.re + w[j].re * h) + 1e-9 * (1.0 + s);
                a.abs() * w[j].abs() * w[j].abs() * r.exp()
            }
            Term::Recip(a, p) => if j == *p { let r0 = 8.0 + x[*p].re; if r0 >= 1.0 { 2.0 * a.abs() / (r0 * r0 * r0) } else { f64::INFINITY } } else { 0.0 },
            Term::Lorentz(a, p) => if j == *p { 2.0 * a.abs() } else { 0.0 },
        };
        v * INFL
    }
    fn hash(&self, h: u64) -> u64 {
        match self {
            Term::Const(a) => a.hash(hmix(h, 1)),
            Term::Lin(a, p) => a.hash(hmix(h, 2 + 16 * *p as u64)),
            Term::Quad(a, p, q) => a.hash(hmix(h, 3 + 16 * *p as u64 + 256 * *q as u64)),
            Term::Cubic(a, p, q) => a.hash(hmix(h, 4 + 16 * *p as u64 + 256 * *q as u64)),
            Term::Sin(a, w, b) => { let mut g = b.hash(a.hash(hmix(h, 5))); for z in w { g = z.hash(g); } g }
            Term::Exp(a, w, b) => { let mut g = b.hash(a.hash(hmix(h, 6))); for z in w { g = z.hash(g); } g }
            Term::Recip(a, p) => a.hash(hmix(h, 7 + 16 * *p as u64)),
            Term::Lorentz(a, p) => hmix(hmix(h, 8 + 16 * *p as u64), a.to_bits()),
        }
    }
}

type Map = Vec<Vec<Term>>;

fn eval_map(map: &Map, x: &[Z]) -> Vec<Z> {
    map.iter().map(|comp| { let mut s = Z::ZERO; for t in comp { s = s.add(t.val(x).0); } s }).collect()
}
fn mag_comp(comp: &[Term], x: &[Z]) -> f64 { comp.iter().map(|t| t.val(x).1).sum() }

fn judge_general(st: &mut Stats, ty: Ty, class: &str, m: usize, n: usize, delta: f64, dname: &str, map: &Map, x: &[Z]) {
    st.next_case();
    let desc = || format!("T={} class={} m={} n={} delta={}({:e}) x={:?} map(components as term sums)={:?}", ty.name(), class, m, n, dname, delta, x, map);
    let f = |p: &[Z]| -> Vec<Z> { if p.len() == n { eval_map(map, p) } else { vec![Z::ZERO; m] } };
    let obs = drive(ty, x, delta, &f);
    st.eval();
    st.count(&format!("cases:{}:{}", ty.name(), class));
    st.set_insert(&format!("shapes:{}:general", ty.name()), format!("{}x{}", m, n));
    st.set_insert("steps:general", dname.to_string());
    // analytic Jacobian, derivative magnitudes at x
    let mut jt = vec![Z::ZERO; m * n];
    let mut dmag = vec![0.0f64; m * n];
    for i in 0..m { for j in 0..n { for t in &map[i] { let (d, g) = t.der(x, j); jt[i * n + j] = jt[i * n + j].add(d); dmag[i * n + j] += g; } } }
    if !(jt.iter().all(|z| z.finite()) && dmag.iter().all(|v| v.is_finite())) { st.count("skipped:model-not-finite"); return; }
    if jt.iter().any(|z| z.re != 0.0 || z.im != 0.0) {
        let mut h = hmix(hash_str(ty.name()) ^ hash_str(class), ((m as u64) << 32) | ((n as u64) << 16));
        h = hmix(h, delta.to_bits());
        for z in x { h = z.hash(h); }
        for comp in map { h = hmix(h, 0xC0); for t in comp { h = t.hash(h); } }
        st.nontrivial(h);
    }
    st.sample(|| desc());
    let jac = check_outcome(st, ty, m, n, &obs, &desc);
    if !obs.res.is_ok() { return; } // refused: the call log is truncated, nothing more to judge
    let calls_ok = check_calls(st, ty, false, x, delta, &obs, &desc);
    let jac = match jac { Some(j) if calls_ok => j, _ => return };
    if !jac.ent.iter().all(|z| z.finite()) {
        st.violation(&format!("C18:{}:{}:nonfinite", ty.site(), ty.name()), format!("non-finite entry in J(row-major)={:?}; {}", jac.ent, desc()));
        return;
    }
    check_quotient(st, ty, m, n, delta, &obs, jac, &desc);
    // derivative bound, all from the generator's own data (x, delta, map), never from the library's output
    let a0: Vec<f64> = (0..m).map(|i| mag_comp(&map[i], x)).collect();
    let wl: Vec<f64> = x.iter().map(|z| z.re.abs() + delta).collect();
    let mut flagged = false;
    let (mut r_bound, mut r_excess, mut r_lin) = (f64::NEG_INFINITY, f64::NEG_INFINITY, f64::NEG_INFINITY);
    for j in 0..n {
        let mut xp = x.to_vec();
        xp[j].re = x[j].re + delta;
        let hup = delta + 2.0 * U * wl[j];
        for i in 0..m {
            let e = i * n + j;
            let m2: f64 = map[i].iter().map(|t| t.m2(x, j, hup)).sum();
            let trunc = 0.5 * m2 * hup * hup / delta * INFL;
            // rounding allowance: closure evaluation noise at x and x+, perturbation rounding of coordinate j (|h-delta| <= u*w_j)
            // and restore drift of the earlier coordinates l<j (<= 2u*w_l each) seen through dF_i/dx_l at the perturbed point
            let dp: f64 = map[i].iter().map(|t| t.der(&xp, j).1).sum();
            let mut moved = dmag[e].max(dp) * wl[j];
            for l in 0..j { moved += map[i].iter().map(|t| t.der(&xp, l).1).sum::<f64>() * wl[l]; }
            let noise = CN * U * (a0[i] + mag_comp(&map[i], &xp) + moved) / delta + CD * U * dmag[e];
            let bound = trunc + noise;
            let err = jac.ent[e].sub(jt[e]).abs();
            if !bound.is_finite() { st.count("skipped:entry-bound-not-finite"); continue; }
            if bound > 0.0 { r_bound = r_bound.max(err / bound); }
            if noise > 0.0 { r_excess = r_excess.max((err - trunc) / noise); }
            if m2 == 0.0 && noise > 0.0 { r_lin = r_lin.max(err / noise); }
            if !(err <= bound) && !flagged {
                flagged = true;
                st.violation(&format!("C18:{}:{}:derivative-bound", ty.site(), ty.name()),
                    format!("entry ({},{}) = {:?}, analytic dF_{}/dx_{} = {:?}, |difference| = {:e} > bound {:e} (= truncation 1/2*{:e}*h^2/delta = {:e} + rounding allowance {:e}); J(row-major)={:?}; {}",
                        i, j, jac.ent[e], i, j, jt[e], err, bound, m2, trunc, noise, jac.ent, desc()));
            }
        }
    }
    st.max(if ty == Ty::R { "deriv:f64:max_err_over_bound" } else { "deriv:Cmplx:max_err_over_bound" }, r_bound);
    st.max(if ty == Ty::R { "deriv:f64:max_(err-trunc)_over_rounding_allowance" } else { "deriv:Cmplx:max_(err-trunc)_over_rounding_allowance" }, r_excess);
    st.max(if ty == Ty::R { "deriv:f64:max_err_over_allowance_when_M2=0" } else { "deriv:Cmplx:max_err_over_allowance_when_M2=0" }, r_lin);
}

fn gen_coef(rng: &mut Rng, ty: Ty, scale: f64) -> Z {
    let one = |rng: &mut Rng| if rng.chance(0.3) { rng.dyadic(16, 4) * scale } else { rng.range(-scale, scale) };
    let re = one(rng);
    let im = if ty == Ty::C && !rng.chance(0.15) { one(rng) } else { 0.0 };
    Z::new(re, im)
}

fn gen_term(rng: &mut Rng, ty: Ty, n: usize) -> Term {
    let kinds = if ty == Ty::R { 8 } else { 7 };
    let p = rng.usize(0, n - 1);
    let q = rng.usize(0, n - 1);
    match rng.below(kinds) {
        0 => Term::Lin(gen_coef(rng, ty, 8.0), p),
        1 => Term::Quad(gen_coef(rng, ty, 2.0), p, q),
        2 => Term::Cubic(gen_coef(rng, ty, 0.5), p, q),
        3 => {
            let sparse = rng.chance(0.3);
            let w = (0..n).map(|_| if sparse && rng.bool() { Z::ZERO } else { gen_coef(rng, ty, if ty == Ty::R { 1.0 } else { 0.25 }) }).collect();
            Term::Sin(gen_coef(rng, ty, 4.0), w, gen_coef(rng, ty, 3.0))
        }
        4 => {
            let sparse = rng.chance(0.3);
            let w = (0..n).map(|_| if sparse && rng.bool() { Z::ZERO } else { gen_coef(rng, ty, 0.125) }).collect();
            Term::Exp(gen_coef(rng, ty, 2.0), w, gen_coef(rng, ty, 1.0))
        }
        5 => Term::Recip(gen_coef(rng, ty, 16.0), p),
        6 => Term::Const(gen_coef(rng, ty, 8.0)),
        _ => Term::Lorentz(rng.range(-8.0, 8.0), p),
    }
}

fn gen_map(rng: &mut Rng, ty: Ty, m: usize, n: usize) -> (Map, &'static str) {
    if rng.chance(0.25) {
        // affine with general (non-dyadic) data: "exact up to rounding"
        let map = (0..m).map(|_| {
            let mut comp = vec![Term::Const(gen_coef(rng, ty, 8.0))];
            for j in 0..n { if rng.chance(0.85) { comp.push(Term::Lin(gen_coef(rng, ty, 8.0), j)); } }
            comp
        }).collect();
        (map, "affine-general")
    } else {
        let map = (0..m).map(|_| { let k = rng.usize(1, 3); (0..k).map(|_| gen_term(rng, ty, n)).collect() }).collect();
        (map, "smooth")
    }
}

fn gen_point(rng: &mut Rng, ty: Ty, n: usize) -> Vec<Z> {
    let style = rng.below(10);
    let one = |rng: &mut Rng| -> f64 {
        match style {
            0 | 1 => rng.int(-64, 64) as f64 / 16.0,
            2 => *rng.pick(&[-4.0, 4.0, 0.0, 1e-9, -1e-9, 9.313225746154785e-10, 3.999999999999999, -3.999999999999999, 0.1, -0.7]),
            _ => rng.range(-4.0, 4.0),
        }
    };
    (0..n).map(|_| { let re = one(rng); let im = if ty == Ty::C { one(rng) } else { 0.0 }; Z::new(re, im) }).collect()
}

pub fn run(ctx: &Ctx) -> Report {
    // unit u: shape (m,n) = (u%36/6+1, u%36%6+1), repetition u/36. Every unit sweeps both types and all steps.
    let units = ctx.vol(36 * 400, 36 * 30_000).max(36);
    let stats = par_run(ctx, TAG, units, |u, rng, st| {
        let s = (u % 36) as usize;
        let (m, n) = (s / 6 + 1, s % 6 + 1);
        let rep = u / 36;
        for ty in [Ty::R, Ty::C] {
            if rep == 0 {
                for pt in 0..4 { for k in KMIN..=KMAX { judge_affine_exact(st, ty, "enumerated", &enumerated_affine(ty, m, n, pt), k); } }
            }
            for k in KMIN..=KMAX {
                let (a, class) = gen_affine(rng, ty, m, n);
                judge_affine_exact(st, ty, class, &a, k);
                let a = gen_affine_wide(rng, ty, m, n, k);
                judge_affine_exact(st, ty, "wide-row", &a, k);
            }
            for k in KMIN..=KMAX + 1 {
                let (delta, dname) = if k <= KMAX { (pow2(-(k as i32)), format!("2^-{:02}", k)) } else { (1e-8, "1e-8".to_string()) };
                let (map, class) = gen_map(rng, ty, m, n);
                let x = gen_point(rng, ty, n);
                judge_general(st, ty, class, m, n, delta, &dname, &map, &x);
            }
        }
        // long shapes ("for every m and n" does not stop at 6): one unit in eight also drives an exact affine map of
        // shape (7..24) x (7..24), tall and wide alike
        if u % 8 == 3 {
            let (m, n) = (rng.usize(7, 24), rng.usize(7, 24));
            for ty in [Ty::R, Ty::C] {
                for k in [KMIN, 11, 19, KMAX] { let (a, class) = gen_affine(rng, ty, m, n); judge_affine_exact(st, ty, class, &a, k); }
            }
            st.count("long-shape-units(7..24)");
        }
    });
    let mut rep = Report::new(stats,
        "[round 6: one unit in eight adds exact affine maps of shape (7..24) x (7..24), both types, four steps] cases: every shape (m,n) in [1,6]^2 x {f64 via Mat64::jacobian, Cmplx via jacobian_cmplx}; per shape and type (i) affine maps x->Mx+c with dyadic M (q/2^s, |q|<=64, s<=3; dense / sparse / small-integer / signed-selection patterns; plus a wide-row class: entries q/2^s with |q|<=3, s<=6 next to offsets c_i of up to 2^(52-k-s), where the exact increment M_ij*delta is as small as one ulp of f_i), dyadic c and points k/16 in [-4,4]^n (Gaussian-dyadic in the complex case) for EVERY step delta=2^-k, k=4..26, plus a seed-independent sweep (index-coded M with all entries distinct at 4 fixed points x all k); (ii) for every delta in {2^-4..2^-26, 1e-8} a random map built from terms {const, a*x_p, a*x_p*x_q, a*x_p^2*x_q, a*sin(w.x+b), a*exp(w.x+b), a/(8+x_p), a/(1+x_p^2) (real only)} (class smooth, 1-3 terms per component) or a general-coefficient affine map (class affine-general) at general / dyadic / special points in [-4,4]^n. The closure logs all call points and returned values. A case is non-trivial when the analytic Jacobian has a nonzero entry; distinct = distinct (type, class, m, n, delta, map data, point) hashes");
    rep.assumptions = vec![
        "affine-exact cases: exactness of every f64 operation is certified per case by an integer (2^-29 grid) model of the logged closure calls; a failed certificate is a harness error, never a verdict".into(),
        "call log follows DESIGN: exactly n+1 calls, call 0 at x, call j+1 at x+delta*e_j; coordinates l>j bit-equal to x_l; coordinates l<=j bit-equal on dyadic data, within 256*u*(|x_l|+delta) on general data (rigorous rounding bound of (x+d)-d is 2 such units)".into(),
        "entry vs forward difference quotient of the logged closure values: double-double reference, 512u relative per real/imaginary component".into(),
        "derivative bound per entry: 1/2*M2*h^2/delta (M2 = sum over terms of a rigorous sup of the second derivative on the segment, h <= delta+2u(|x_j|+delta)) + 512u*(A_i(x)+A_i(x+delta e_j)+sum_{l<=j} D_il(|x_l|+delta))/delta + 64u*D_ij where A_i / D_il are term-magnitude sums of F_i and dF_i/dx_l; complex maps are holomorphic so the real-direction quotient converges to the complex partial derivative".into(),
        "a panic for m<n whose message names the set_col range check is reported under the narrow signature panic-rectangular; any other refusal under panic".into(),
    ];
    rep.min_nontrivial = if ctx.quick() { 5000 } else { 100_000 };
    let mut ex = J::obj();
    ex.set("exhaustive_parts", J::Arr(vec![
        J::s("all 36 shapes (m,n) in [1,6]^2 for both f64 and Cmplx in every run (unit index -> shape)"),
        J::s("all 23 dyadic steps 2^-4..2^-26 for the exact affine class and all 24 steps (incl. 1e-8) for the general class, per shape, type and repetition"),
        J::s("seed-independent affine sweep: 36 shapes x 2 types x 4 points x 23 steps"),
    ]));
    rep.extra = ex;
    rep
}
