//! C10 — root finder returns n finite values that are roots for every degree-n input.
use crate::fl::{self, CDD, U};
use crate::mon::common::*;
use crate::rng::Rng;
use crate::run::{catch, par_run, Ctx, Outcome, Report, Stats};
use ohsl::verif::{self, Event};
use ohsl::{Cmplx, Polynomial};
use std::cell::RefCell;
use std::rc::Rc;

const TAG: u64 = 0xC10;

/// backward-error thresholds per solution path (fixed; see DESIGN 5/C10 and section 8)
pub fn tau(degree: usize, refine: bool) -> f64 {
    match degree {
        1 | 2 => 64.0 * U,
        3 => if refine { 64.0 * U } else { 1e-6 },
        _ => if refine { 1e-12 } else { 1e-8 },
    }
}

#[derive(Clone, Debug, Default)]
pub struct LagLog { pub calls: usize, pub max_iter: usize, pub exhausted: usize, pub stalled: usize }

/// call `roots` with the H5 sink installed
fn with_log<R>(f: impl FnOnce() -> R) -> (Outcome<R>, LagLog) {
    let log = Rc::new(RefCell::new(LagLog::default()));
    let l2 = log.clone();
    verif::set_sink(Box::new(move |ev| {
        if let Event::Laguer { iterations, exit, .. } = ev {
            let mut l = l2.borrow_mut();
            l.calls += 1;
            l.max_iter = l.max_iter.max(iterations);
            if exit == 2 { l.exhausted += 1; }
            if exit == 1 { l.stalled += 1; }
        }
    }));
    let out = catch(f);
    verif::clear_sink();
    let l = log.borrow().clone();
    (out, l)
}

/// p(z) by Horner in complex double-double, with coefficient magnitudes
fn eval_dd(c: &[Cmplx], z: Cmplx) -> f64 {
    let zz = CDD::from(z);
    let mut p = CDD::from(c[c.len() - 1]);
    for k in (0..c.len() - 1).rev() { p = p * zz + CDD::from(c[k]); }
    p.abs()
}

pub fn backward_error(c: &[Cmplx], z: Cmplx) -> f64 {
    let n = c.len() - 1;
    let amax = c.iter().fold(0.0f64, |m, a| m.max(fl::cabs(*a)));
    let az = fl::cabs(z);
    if az <= 1.0 { eval_dd(c, z) / amax }
    else {
        // evaluate the reversed polynomial at 1/z to avoid overflow: p(z)/z^n = sum a_k (1/z)^(n-k)
        let w = CDD::from_re(1.0) / CDD::from(z);
        let mut p = CDD::from(c[0]);
        for k in 1..=n { p = p * w + CDD::from(c[k]); }
        p.abs() / amax
    }
}

/// inputs on which the Laguerre iteration needs at least this many passes (i.e. got past its second fractional step)
/// exercise its cycle-breaking machinery
const HARD_ITER: usize = 21;
static HARD_OUT: std::sync::OnceLock<String> = std::sync::OnceLock::new();
static HARD_LOCK: std::sync::Mutex<()> = std::sync::Mutex::new(());
/// committed corpus of such inputs, found by earlier thorough runs of this monitor on the repaired tree (hook H5)
const CORPUS: &str = "/verif/corpus/c10_hard.txt";

fn load_corpus() -> Vec<(bool, Vec<Cmplx>)> {
    let mut out = vec![];
    if let Ok(text) = std::fs::read_to_string(CORPUS) {
        for line in text.lines() {
            let parts: Vec<&str> = line.split_whitespace().collect();
            if parts.len() != 4 { continue; }
            let real = parts[1] == "f64";
            let mut c = vec![];
            let mut ok = true;
            for t in parts[3].split(',') {
                let h: Vec<&str> = t.split(':').collect();
                if h.len() != 2 { ok = false; break; }
                match (u64::from_str_radix(h[0], 16), u64::from_str_radix(h[1], 16)) { (Ok(a), Ok(b)) => c.push(Cmplx::new(f64::from_bits(a), f64::from_bits(b))), _ => { ok = false; break; } }
            }
            if ok && c.len() >= 5 { out.push((real, c)); }
        }
    }
    out
}

pub struct Case { pub coeffs: Vec<Cmplx>, pub real: bool, pub class: &'static str, pub known_roots: Option<Vec<Cmplx>> }

fn expand(roots: &[Cmplx], lead: Cmplx) -> Vec<Cmplx> {
    let mut c = vec![lead];
    for r in roots { let mut n = vec![Cmplx::new(0.0, 0.0); c.len() + 1]; for (i, a) in c.iter().enumerate() { n[i + 1] = n[i + 1] + *a; n[i] = n[i] - *a * *r; } c = n; }
    c
}

/// well-separated roots on the half-integer lattice (separation >= 0.5); real case: conjugate-closed. Coefficients exact in f64.
fn separated_roots(rng: &mut Rng, n: usize, real: bool) -> Vec<Cmplx> {
    let mut out: Vec<Cmplx> = vec![];
    let mut tries = 0;
    while out.len() < n && tries < 10_000 {
        tries += 1;
        let z = Cmplx::new(rng.int(-4, 4) as f64 * 0.5, if real && (n - out.len() < 2 || rng.bool()) { 0.0 } else { rng.int(-4, 4) as f64 * 0.5 });
        let cand: Vec<Cmplx> = if real && z.imag != 0.0 { vec![z, z.conj()] } else { vec![z] };
        if out.len() + cand.len() > n { continue; }
        if cand.iter().all(|c| out.iter().all(|o| fl::cabs(*o - *c) >= 0.5)) { out.extend(cand); }
    }
    out
}

pub fn gen_case(rng: &mut Rng, n: usize, real: bool, class: u64) -> Case {
    let z0 = Cmplx::new(0.0, 0.0);
    // complex coefficients: general, purely real, purely imaginary, or exact units (+-1, +-i) — axis-aligned values
    // exercise the signed-zero / lexicographic-ordering branches of the closed-form solvers
    let rc = |rng: &mut Rng, s: f64| if real { Cmplx::new(rng.sym() * s, 0.0) } else {
        match rng.below(8) { 0 => Cmplx::new(rng.sym() * s, 0.0), 1 => Cmplx::new(0.0, rng.sym() * s), 2 => *rng.pick(&[Cmplx::new(1.0, 0.0), Cmplx::new(-1.0, 0.0), Cmplx::new(0.0, 1.0), Cmplx::new(0.0, -1.0)]) * s, _ => Cmplx::new(rng.sym() * s, rng.sym() * s) }
    };
    let nzlead = |rng: &mut Rng| { let mut l = rc(rng, 1.0); if fl::cabs(l) < 0.1 { l = Cmplx::new(1.0, 0.0); } l };
    match class {
        0 => { let mut c: Vec<Cmplx> = (0..=n).map(|_| rc(rng, 1.0)).collect(); c[n] = nzlead(rng); Case { coeffs: c, real, class: "random", known_roots: None } }
        1 => { let mut c: Vec<Cmplx> = (0..=n).map(|_| { let s = rng.logpos(1e-3, 1e3); rc(rng, s) }).collect(); c[n] = nzlead(rng) * rng.logpos(1e-3, 1e3); Case { coeffs: c, real, class: "scale-ratio-1e6", known_roots: None } }
        2 => { let k = rng.usize(1, n); let mut c: Vec<Cmplx> = (0..=n).map(|i| if i < k { z0 } else { rc(rng, 1.0) }).collect(); c[n] = nzlead(rng); if k < n && fl::cabs(c[k]) < 0.05 { c[k] = Cmplx::new(0.7, 0.0); } Case { coeffs: c, real, class: "roots-at-zero", known_roots: None } }
        3 => { let mut c: Vec<Cmplx> = (0..=n).map(|_| if rng.chance(0.5) { z0 } else { rc(rng, 1.0) }).collect(); c[n] = nzlead(rng); Case { coeffs: c, real, class: "vanishing-inner", known_roots: None } }
        4 => { let r = separated_roots(rng, n, real); if r.len() < n { return gen_case(rng, n, real, 0); } let lead = Cmplx::new(*rng.pick(&[1.0, -1.0, 2.0, 0.5]), 0.0); Case { coeffs: expand(&r, lead), real, class: "well-separated", known_roots: Some(r) } }
        5 => { // repeated roots
            // (a quarter of the time a single n-fold root: exact data, so the closed forms meet their exactly-degenerate branches)
            let nb = if rng.chance(0.25) { 1 } else if rng.chance(0.2) { 2.min(n) } else { (n + 1) / 2 };
            let mut base = separated_roots(rng, nb, real);
            // (half of the n-fold roots are decimal fractions: the expanded coefficients are ROUNDED, so the discriminant-type
            //  quantities of the closed forms are rounding dust of either sign instead of exact zeros)
            if nb == 1 && base.len() == 1 && rng.bool() { base[0] = Cmplx::new(rng.nzint(70) as f64 / 10.0, if real || rng.bool() { 0.0 } else { rng.int(-30, 30) as f64 / 10.0 }); }
            let mut r = vec![]; while r.len() < n { for b in &base { if r.len() < n { r.push(*b); } } }
            if real { let im: f64 = r.iter().map(|z| z.imag).sum(); if im != 0.0 { return gen_case(rng, n, real, 0); } }
            Case { coeffs: expand(&r, Cmplx::new(1.0, 0.0)), real, class: "repeated", known_roots: None } }
        6 => { // clusters 1e-3 apart
            let c0 = Cmplx::new(rng.int(-2, 2) as f64 * 0.5, 0.0); let mut r: Vec<Cmplx> = (0..n).map(|i| if i < 3.min(n) { c0 + Cmplx::new(1e-3 * i as f64, 0.0) } else { Cmplx::new(rng.int(-6, 6) as f64 * 0.5 + 0.25, 0.0) }).collect();
            if !real && n >= 2 { r[n - 1] = Cmplx::new(0.0, 1.0); }
            Case { coeffs: expand(&r, Cmplx::new(1.0, 0.0)), real, class: "clustered", known_roots: None } }
        7 => { // conjugate pairs / purely imaginary roots
            let mut r = vec![]; while r.len() + 1 < n { let y = rng.int(1, 6) as f64 * 0.5; let x = if rng.bool() { 0.0 } else { rng.int(-3, 3) as f64 * 0.5 }; r.push(Cmplx::new(x, y)); r.push(Cmplx::new(x, -y)); }
            if r.len() < n { r.push(Cmplx::new(rng.int(-3, 3) as f64, 0.0)); }
            Case { coeffs: expand(&r, Cmplx::new(1.0, 0.0)), real, class: "conjugate-pairs", known_roots: None } }
        8 => { let mut c = vec![z0; n + 1]; c[n] = Cmplx::new(1.0, 0.0); c[0] = if real { Cmplx::new(rng.logmag(1e-3, 1e3), 0.0) } else { match rng.below(4) { 0 => Cmplx::new(0.0, rng.logmag(1e-3, 1e3)), 1 => Cmplx::new(rng.logmag(1e-3, 1e3), 0.0), 2 => *rng.pick(&[Cmplx::new(0.0, 1.0), Cmplx::new(0.0, -1.0), Cmplx::new(-1.0, 0.0), Cmplx::new(0.0, -16.0)]), _ => Cmplx::new(rng.sym(), rng.sym()) } };
            if rng.chance(0.3) { let l = *rng.pick(&[2.0, -1.0, 0.5, 3.0]); c[n] = if real || rng.bool() { Cmplx::new(l, 0.0) } else { Cmplx::new(0.0, l) }; }
            Case { coeffs: c, real, class: "x^n+c", known_roots: None } }
        12 => { // complex polynomials with isolated roots a hair off the real axis (|Im| = 1e-12..1e-9 |Re|), others generic
            if real { return gen_case(rng, n, real, 0); }
            let mut r: Vec<Cmplx> = (0..n).map(|_| Cmplx::new(rng.int(-6, 6) as f64 * 0.5 + 0.25, rng.int(-6, 6) as f64 * 0.5)).collect();
            let x = rng.int(1, 6) as f64 * if rng.bool() { 1.0 } else { -1.0 };
            r[0] = Cmplx::new(x, x.abs() * rng.logpos(1e-12, 1e-9) * if rng.bool() { 1.0 } else { -1.0 });
            let mut ok = true; for i in 0..n { for j in 0..i { if fl::cabs(r[i] - r[j]) < 0.4 { ok = false; } } }
            if !ok { return gen_case(rng, n, real, 0); }
            Case { coeffs: expand(&r, Cmplx::new(1.0, 1.0)), real, class: "nearly-real-root", known_roots: None } }
        10 => { // sparse, wide-scale: about half of the coefficients vanish, the others spread over six decades
            let mut c: Vec<Cmplx> = (0..=n).map(|_| if rng.chance(0.45) { z0 } else { let s = rng.logpos(1e-3, 1e3); rc(rng, s) }).collect();
            c[n] = nzlead(rng) * rng.logpos(1e-3, 1e3);
            if fl::cabs(c[0]) == 0.0 && rng.bool() { c[0] = Cmplx::new(rng.logmag(1e-2, 1e2), 0.0); }
            Case { coeffs: c, real, class: "sparse-wide-scale", known_roots: None } }
        _ => { let mut c = vec![z0; n + 1]; c[n] = Cmplx::new(1.0, 0.0); c[0] = Cmplx::new(rng.logmag(0.1, 10.0), 0.0); if n >= 2 { c[1] = Cmplx::new(rng.logmag(1e-8, 1e-2), 0.0); } Case { coeffs: c, real, class: "x^n+eps*x+c", known_roots: None } }
    }
}

fn judge(st: &mut Stats, case: &Case, refine: bool) {
    st.next_case();
    let c = &case.coeffs;
    let n = c.len() - 1;
    let ty = if case.real { "f64" } else { "Cmplx" };
    let desc = || format!("T={} degree={} refine={} class={} coeffs(low->high)={:?}", ty, n, refine, case.class, c);
    let (out, log) = if case.real { let p = Polynomial::new(c.iter().map(|z| z.real).collect::<Vec<f64>>()); with_log(|| p.roots(refine)) } else { let p = Polynomial::new(c.clone()); with_log(|| p.roots(refine)) };
    st.eval();
    let path = match n { 1 => "linear", 2 => "quadratic", 3 => "cubic", _ => "laguer" };
    // classification key for the iterative path (hook H5): did any Laguerre call hit its iteration cap?
    let lag = if n >= 4 || refine { if log.exhausted > 0 { ":cap-exhausted" } else { ":converged" } } else { "" };
    if n >= 4 { st.count(&format!("laguer-calls:{}", if log.exhausted > 0 { "with-cap-exhausted" } else { "all-converged-or-stalled" })); st.max("laguer:max_iterations_used", log.max_iter as f64); }
    if n >= 4 && log.max_iter >= HARD_ITER && case.class != "corpus" {
        st.count("hard-inputs-seen(laguer>=21-iterations)");
        if let Some(path) = HARD_OUT.get() {
            use std::io::Write;
            let _g = HARD_LOCK.lock();
            if let Ok(mut f) = std::fs::OpenOptions::new().create(true).append(true).open(path) {
                let _ = writeln!(f, "{} {} {} {}", log.max_iter, if case.real { "f64" } else { "cmplx" }, log.exhausted, c.iter().map(|z| format!("{:016x}:{:016x}", z.real.to_bits(), z.imag.to_bits())).collect::<Vec<_>>().join(","));
            }
        }
    }
    let roots = match out {
        Outcome::Ok(r) => r.vec,
        o => { st.violation(&format!("C10:roots:{}{}:panic", path, lag), format!("{}; {}", o.describe(), desc())); return; }
    };
    if roots.len() != n { st.violation(&format!("C10:roots:{}{}:count", path, lag), format!("{} values returned; {}", roots.len(), desc())); return; }
    if !fl::all_finite_c(&roots) { st.violation(&format!("C10:roots:{}{}:nonfinite", path, lag), format!("roots = {:?}; {}", roots, desc())); return; }
    let t = tau(n, refine);
    let mut worst = 0.0f64;
    for z in &roots { worst = worst.max(backward_error(c, *z)); }
    if log.exhausted == 0 { st.max(&format!("be_over_tau:deg{}:{}", n.min(4), if refine { "refined" } else { "plain" }), worst / t); st.count(&format!("be-decade:deg{}{}:{}:1e{}", if n >= 4 { "4+" } else { ["", "1", "2", "3"][n] }, lag, if refine { "refined" } else { "plain" }, (worst.max(1e-20).log10().ceil() as i64).max(-17))); }
    if !(worst <= t) { st.violation(&format!("C10:roots:{}{}:backward-error", path, lag), format!("worst backward error {:e} > {:e}; roots = {:?}; {}", worst, t, roots, desc())); }
    else if let Some(kr) = &case.known_roots {
        // one-to-one correspondence with the true (well-separated) roots
        let mut used = vec![false; n];
        for zeta in kr {
            // cond(zeta) = sum|a_k||zeta|^k / (|zeta||p'(zeta)|)
            let az = fl::cabs(*zeta);
            let mut s = 0.0; let mut dp = CDD::ZERO;
            for k in 0..=n { s += fl::cabs(c[k]) * az.powi(k as i32); }
            for k in (1..=n).rev() { dp = dp * CDD::from(*zeta) + CDD::from(c[k] * (k as f64)); }
            let amax = c.iter().fold(0.0f64, |m, a| m.max(fl::cabs(*a)));
            let radius = (16.0 * t * amax * az.max(1.0).powi(n as i32) / dp.abs().max(1e-300)).max(64.0 * U * az.max(1.0)).min(0.2);
            let _ = s;
            let mut best: Option<usize> = None;
            for (i, z) in roots.iter().enumerate() { if !used[i] && fl::cabs(*z - *zeta) <= radius { best = Some(i); break; } }
            match best { Some(i) => used[i] = true, None => { st.violation(&format!("C10:roots:{}{}:no-match-for-true-root", path, lag), format!("true root {:?} has no returned value within {:e}; roots = {:?}; {}", zeta, radius, roots, desc())); break; } }
        }
        st.count("matched-known-root-sets");
    }
    st.count(&format!("cases:{}:deg{}:{}", ty, n, case.class));
    let mut h = hash_str(ty) ^ (refine as u64); for z in c { h = hmix(hmix(h, z.real.to_bits()), z.imag.to_bits()); }
    st.nontrivial(h);
    st.sample(|| desc());
}

fn rejection(st: &mut Stats, rng: &mut Rng) {
    st.next_case();
    let c = rng.sym();
    for (name, out) in [
        ("degree0-f64", catch(|| Polynomial::new(vec![c]).roots(rng.bool()).vec.len())),
        ("degree0-Cmplx", catch(|| Polynomial::new(vec![Cmplx::new(c, 1.0)]).roots(false).vec.len())),
        ("empty-f64", catch(|| Polynomial::<f64>::new(vec![]).roots(true).vec.len())),
        ("empty-Cmplx", catch(|| Polynomial::<Cmplx>::new(vec![]).roots(false).vec.len())),
    ] {
        st.eval();
        if let Outcome::Ok(k) = out { st.violation(&format!("C10:roots:{}:accepted", name), format!("returned {} values for c={}", k, c)); } else { st.count("rejections"); }
    }
}

/// one live polynomial: roots() interleaved with edits through the index operator and coeffs(); every answer is judged
/// against the polynomial as it is stored at that moment (a stale cached answer is not a root of it)
fn history(st: &mut Stats, rng: &mut Rng) {
    st.next_case();
    let n = rng.usize(2, 6);
    let real = rng.bool();
    let mut c: Vec<Cmplx> = (0..=n).map(|_| Cmplx::new(rng.int(-9, 9) as f64, if real { 0.0 } else { rng.int(-9, 9) as f64 })).collect();
    if fl::cabs(c[n]) == 0.0 { c[n] = Cmplx::new(1.0, 0.0); }
    let mut pr = Polynomial::new(c.iter().map(|z| z.real).collect::<Vec<f64>>());
    let mut pc = Polynomial::new(c.clone());
    let mut log: Vec<String> = vec![format!("start {:?}", c)];
    for _ in 0..rng.usize(2, 6) {
        let refine = rng.bool();
        let out = if real { catch(|| pr.roots(refine)) } else { catch(|| pc.roots(refine)) };
        st.eval();
        log.push(format!("roots({})", refine));
        match out {
            Outcome::Ok(r) => {
                let t = tau(n, refine).max(1e-9);
                let worst = r.vec.iter().map(|z| backward_error(&c, *z)).fold(0.0f64, f64::max);
                if r.vec.len() != n || !fl::all_finite_c(&r.vec) || !(worst <= t) { st.violation("C10:history:roots:stale-or-wrong", format!("after {:?}: roots = {:?} have backward error {:e} for the current coefficients {:?}", log, r.vec, worst, c)); return; }
            }
            o => { st.violation("C10:history:roots:panic", format!("{} after {:?}", o.describe(), log)); return; }
        }
        // edit a non-leading coefficient in place (index operator or coeffs())
        let i = rng.usize(0, n - 1);
        let v = rng.int(-9, 9) as f64;
        c[i] = Cmplx::new(v, if real { 0.0 } else { c[i].imag });
        if rng.bool() { log.push(format!("p[{}] = {}", i, v)); if real { pr[i] = v; } else { pc[i] = c[i]; } }
        else { log.push(format!("coeffs()[{}] = {}", i, v)); if real { pr.coeffs()[i] = v; } else { pc.coeffs()[i] = c[i]; } }
    }
    st.count("roots-histories");
}

pub fn run(ctx: &Ctx) -> Report {
    // hook liveness
    let (_, log) = with_log(|| Polynomial::new(vec![1.0, -3.0, 0.5, 2.0, 1.0]).roots(true));
    let hook_live = log.calls > 0;
    let units = 12u64 * 12 * 2; // degree x class x {real, complex}
    if !ctx.quick() { let _ = HARD_OUT.set(format!("{}/c10_hard_candidates.{}.txt", ctx.workdir, ctx.profile)); }
    let corpus = load_corpus();
    let corpus_units = ((corpus.len() + 49) / 50) as u64;
    let reps = ctx.vol(12_000, 600_000);
    let stats = par_run(ctx, TAG, units + corpus_units, |u, rng, st| {
        if u >= units {
            let lo = (u - units) as usize * 50;
            for (real, c) in &corpus[lo..(lo + 50).min(corpus.len())] {
                let case = Case { coeffs: c.clone(), real: *real, class: "corpus", known_roots: None };
                judge(st, &case, false);
                judge(st, &case, true);
            }
            return;
        }
        let n = (u / 24) as usize + 1;
        let class = [0, 1, 2, 3, 4, 5, 6, 7, 8, 9, 10, 12][((u / 2) % 12) as usize];
        let class = if class == 9 { 11 } else { class }; // 11 = x^n+eps*x+c (the default arm)
        let real = u % 2 == 0;
        for k in 0..reps {
            let case = gen_case(rng, n, real, class);
            judge(st, &case, k % 2 == 0);
            if k % 16 == 0 { judge(st, &case, k % 2 == 1); }
        }
        if u % 24 == 0 { for _ in 0..5 { rejection(st, rng); history(st, rng); } }
        if u % 3 == 0 { history(st, rng); }
    });
    let mut rep = Report::new(stats,
        "degrees 1..12 x {f64, Complex<f64>} x {refine, no refine} x 12 classes (complex roots a hair off the real axis, random, sparse wide-scale (half of the coefficients zero, the rest over six decades), coefficient scale ratio up to 1e6, vanishing constant term of multiplicity 1..n, vanishing inner coefficients, well-separated half-integer-lattice roots with exact coefficients, repeated roots, clusters 1e-3 apart, conjugate/purely imaginary pairs, x^n+c, x^n+eps*x+c); per call: n finite values, normwise backward error |p(z)|/(max|a_k| max(1,|z|)^n) in complex double-double <= tau(path), one-to-one matching for the well-separated class; degree-0 and empty polynomials must be rejected. Hook H5 classifies each call by whether a Laguerre iteration hit its cap, and (thorough tier) records inputs on which an iteration needs >= 21 passes; a committed corpus of such inputs (corpus/c10_hard.txt, found by this monitor on the repaired tree) is replayed on every run in both refinement modes. Every case non-trivial; distinct = distinct (type,refine,coefficients) hashes");
    rep.assumptions = vec![
        "thresholds: degree 1-2 64u; degree 3 1e-6 plain / 64u refined; degree>=4 1e-8 plain / 1e-12 refined".into(),
        "matching radius 16*tau*max|a|*max(1,|zeta|)^n/|p'(zeta)| (first-order forward error), capped at 0.2".into(),
    ];
    rep.min_nontrivial = 2000;
    if !hook_live { rep.inconclusive.push("hook-H5-laguer-silent".into()); }
    rep
}
