//! C02 — determinant and inverse agree with exact linear algebra; matrix left intact.
use crate::fl::{self, U};
use crate::model::{exact_det_rank_inv, DM};
use crate::mon::c01::{kappa_exact, mag_crat, mag_rat, plu_exact, rand_dense_exact, KMAX};
use crate::mon::common::*;
use crate::rat::{CRat, Exact, Rat};
use crate::rng::{permutations, Rng};
use crate::run::{catch, par_run, Ctx, Outcome, Report, Stats};
use ohsl::{Cmplx, Matrix};

const TAG: u64 = 0xC02;
fn tau(n: usize) -> f64 { 1024.0 * n as f64 * U }

fn hash_dm<E: Exact>(tag: &str, class: &str, a: &DM<E>) -> u64 {
    let mut h = hash_str(tag) ^ hash_str(class);
    for row in &a.a { for v in row { h = hmix(h, v.hash_u64()); } }
    h
}

/// exact determinant / inverse through the real generic code
fn judge_exact<E: Exact>(st: &mut Stats, class: &str, a: &DM<E>) {
    let n = a.r;
    st.next_case();
    let (det, rank, inv) = match catch(|| exact_det_rank_inv(a)) { Outcome::Ok(t) => t, _ => { st.count("skipped:rat-overflow-in-model"); return; } };
    let desc = || format!("T={} n={} class={} rank={} A={}", E::NAME, n, class, rank, a.show());
    let m = a.to_ohsl();
    let len0 = m.verif_storage_len();
    // determinant: every square matrix, singular ones included
    st.eval();
    match catch(|| m.determinant()) {
        Outcome::Overflow => st.count("skipped:rat-overflow-in-library"),
        Outcome::Ok(d) => {
            if d != det {
                let kind = if rank < n { "singular-nonzero" } else { "wrong-value" };
                st.violation(&format!("C02:determinant:{}:{}", E::NAME, kind), format!("determinant() = {:?}, exact = {:?}; {}", d, det, desc()));
            }
        }
        other => {
            let kind = if rank < n { "singular-panic" } else { "nonsingular-panic" };
            st.violation(&format!("C02:determinant:{}:{}", E::NAME, kind), format!("determinant() {} (exact det {:?}); {}", other.describe(), det, desc()));
        }
    }
    if !a.eq_ohsl(&m) || m.verif_storage_len() != len0 {
        st.violation(&format!("C02:determinant:{}:mutated-matrix", E::NAME), format!("matrix changed by determinant(); {}", desc()));
    }
    st.count(&format!("det:{}:{}:{}", E::NAME, class, if rank < n { "singular" } else { "nonsingular" }));
    st.set_insert(&format!("ranks_seen:{}", E::NAME), format!("n{}r{}", n, rank));
    if n >= 2 { st.nontrivial(hash_dm(E::NAME, class, a)); }
    // inverse: nonsingular matrices
    if let Some(invm) = inv {
        st.eval();
        match catch(|| m.inverse()) {
            Outcome::Overflow => st.count("skipped:rat-overflow-in-library"),
            Outcome::Ok(x) => {
                let xm = DM::from_ohsl(&x);
                let shape_ok = xm.r == n && xm.c == n;
                let both = if shape_ok { catch(|| (a.mul(&xm).is_identity(), xm.mul(a).is_identity())).ok() } else { Some((false, false)) };
                if let Some((l, r)) = both {
                    if !l || !r || xm != invm {
                        st.violation(&format!("C02:inverse:{}:wrong-value", E::NAME), format!("inverse() = {} but A*X==I:{} X*A==I:{} exact inverse {}; {}", xm.show(), l, r, invm.show(), desc()));
                    }
                } else { st.count("skipped:rat-overflow-in-model"); }
            }
            other => st.violation(&format!("C02:inverse:{}:nonsingular-panic", E::NAME), format!("inverse() {}; {}", other.describe(), desc())),
        }
        if !a.eq_ohsl(&m) || m.verif_storage_len() != len0 {
            st.violation(&format!("C02:inverse:{}:mutated-matrix", E::NAME), format!("matrix changed by inverse(); {}", desc()));
        }
    }
    st.sample(|| desc());
}

/// det(AB) = det(A) det(B) through the library only (multiplication via the model to stay independent of Matrix::mul)
fn judge_product_rule<E: Exact>(st: &mut Stats, a: &DM<E>, b: &DM<E>) {
    st.next_case();
    let ab = match catch(|| a.mul(b)) { Outcome::Ok(x) => x, _ => { st.count("skipped:rat-overflow-in-model"); return; } };
    let r = catch(|| (a.to_ohsl().determinant(), b.to_ohsl().determinant(), ab.to_ohsl().determinant()));
    st.eval();
    if let Outcome::Ok((da, db, dab)) = r {
        if let Outcome::Ok(p) = catch(|| da * db) {
            if p != dab { st.violation(&format!("C02:determinant:{}:product-rule", E::NAME), format!("det(A)={:?} det(B)={:?} det(AB)={:?}; A={} B={}", da, db, dab, a.show(), b.show())); }
        }
    } // panics here are reported by judge_exact on the same classes
}

fn judge_f64(st: &mut Stats, class: &str, ar: &DM<Rat>) {
    let n = ar.r;
    st.next_case();
    let af: Vec<Vec<f64>> = match ar.a.iter().map(|r| r.iter().map(|v| v.as_exact_f64()).collect::<Option<Vec<f64>>>()).collect::<Option<Vec<_>>>() { Some(x) => x, None => return };
    let (det, rank, inv) = match catch(|| exact_det_rank_inv(ar)) { Outcome::Ok(t) => t, _ => { st.count("skipped:rat-overflow-in-model"); return; } };
    let desc = || format!("T=f64 n={} class={} rank={} A={:?}", n, class, rank, af);
    let m = mat_f64(&af);
    let snapshot: Vec<u64> = af.iter().flatten().map(|v| v.to_bits()).collect();
    let unchanged = |m: &Matrix<f64>| { let mut k = 0; for i in 0..n { for j in 0..n { if m[(i, j)].to_bits() != snapshot[k] { return false; } k += 1; } } m.rows() == n && m.cols() == n && m.verif_storage_len() == n * n };
    if rank < n {
        st.eval();
        match catch(|| m.determinant()) {
            Outcome::Ok(d) => {
                let had: f64 = af.iter().map(|r| r.iter().map(|v| v * v).sum::<f64>().sqrt()).product();
                let bound = n as f64 * tau(n) * had;
                if !d.is_finite() { st.violation("C02:determinant:f64:singular-nonfinite", format!("determinant() = {} on exactly singular matrix; {}", d, desc())); }
                else {
                    st.max("f64:singular_det_over_bound", if bound > 0.0 { d.abs() / bound } else if d == 0.0 { 0.0 } else { f64::INFINITY });
                    if !(d.abs() <= bound) { st.violation("C02:determinant:f64:singular-large", format!("determinant() = {:e} > {:e} on exactly singular matrix; {}", d, bound, desc())); }
                }
            }
            other => st.violation("C02:determinant:f64:singular-panic", format!("determinant() {}; {}", other.describe(), desc())),
        }
        if !unchanged(&m) { st.violation("C02:determinant:f64:mutated-matrix", format!("matrix changed; {}", desc())); }
        st.count(&format!("det:f64:{}:singular", class));
        if n >= 2 { st.nontrivial(hash_dm("f64", class, ar)); }
        return;
    }
    let k = match kappa_exact(ar, mag_rat) { Some(k) if k <= KMAX => k, _ => { st.count("skipped:float-kappa-too-large"); return; } };
    let dex = det.to_f64();
    st.eval();
    match catch(|| m.determinant()) {
        Outcome::Ok(d) => {
            let bound = n as f64 * k * tau(n) * dex.abs();
            st.max("f64:det_err_over_bound", (d - dex).abs() / bound);
            if !d.is_finite() || !((d - dex).abs() <= bound) { st.violation("C02:determinant:f64:inaccurate", format!("determinant() = {:e}, exact {:e}, bound {:e}; {}", d, dex, bound, desc())); }
        }
        other => st.violation("C02:determinant:f64:nonsingular-panic", format!("determinant() {}; {}", other.describe(), desc())),
    }
    if !unchanged(&m) { st.violation("C02:determinant:f64:mutated-matrix", format!("matrix changed; {}", desc())); }
    st.eval();
    match catch(|| m.inverse()) {
        Outcome::Ok(x) => {
            if x.rows() != n || x.cols() != n { st.violation("C02:inverse:f64:shape", format!("inverse shape {}x{}; {}", x.rows(), x.cols(), desc())); }
            else {
                // residuals in double-double
                let mut r1 = 0.0f64; let mut r2 = 0.0f64; let mut finite = true;
                for i in 0..n {
                    let (mut s1, mut s2) = (0.0, 0.0);
                    for j in 0..n {
                        let mut p = fl::DD::ZERO; let mut q = fl::DD::ZERO;
                        for l in 0..n { p = p + fl::DD::prod(af[i][l], x[(l, j)]); q = q + fl::DD::prod(x[(i, l)], af[l][j]); finite &= x[(l, j)].is_finite(); }
                        let e = if i == j { 1.0 } else { 0.0 };
                        s1 += (p.f() - e).abs(); s2 += (q.f() - e).abs();
                    }
                    r1 = r1.max(s1); r2 = r2.max(s2);
                }
                let bound = 4.0 * n as f64 * k * tau(n);
                st.max("f64:inv_right_resid_over_bound", r1 / bound);
                st.max("f64:inv_left_resid_over_bound", r2 / bound);
                if !finite || !(r1 <= bound) || !(r2 <= bound) { st.violation("C02:inverse:f64:inaccurate", format!("|AX-I|={:e} |XA-I|={:e} bound {:e} (kappa {:e}); {}", r1, r2, bound, k, desc())); }
                let _ = &inv;
            }
        }
        other => st.violation("C02:inverse:f64:nonsingular-panic", format!("inverse() {}; {}", other.describe(), desc())),
    }
    if !unchanged(&m) { st.violation("C02:inverse:f64:mutated-matrix", format!("matrix changed; {}", desc())); }
    st.count(&format!("det:f64:{}:nonsingular", class));
    if n >= 2 { st.nontrivial(hash_dm("f64", class, ar)); }
}

fn judge_cmplx(st: &mut Stats, class: &str, ac: &DM<CRat>) {
    let n = ac.r;
    st.next_case();
    let af: Vec<Vec<Cmplx>> = match ac.a.iter().map(|r| r.iter().map(|v| Some(Cmplx::new(v.re.as_exact_f64()?, v.im.as_exact_f64()?))).collect::<Option<Vec<Cmplx>>>()).collect::<Option<Vec<_>>>() { Some(x) => x, None => return };
    let (det, rank, _inv) = match catch(|| exact_det_rank_inv(ac)) { Outcome::Ok(t) => t, _ => { st.count("skipped:rat-overflow-in-model"); return; } };
    let desc = || format!("T=Cmplx n={} class={} rank={} A={:?}", n, class, rank, af);
    let m = mat_c(&af);
    let snapshot: Vec<(u64, u64)> = af.iter().flatten().map(|v| (v.real.to_bits(), v.imag.to_bits())).collect();
    let unchanged = |m: &Matrix<Cmplx>| { let mut k = 0; for i in 0..n { for j in 0..n { let v = m[(i, j)]; if (v.real.to_bits(), v.imag.to_bits()) != snapshot[k] { return false; } k += 1; } } m.rows() == n && m.cols() == n && m.verif_storage_len() == n * n };
    if rank < n {
        st.eval();
        match catch(|| m.determinant()) {
            Outcome::Ok(d) => {
                let had: f64 = af.iter().map(|r| r.iter().map(|v| v.abs_sqr()).sum::<f64>().sqrt()).product();
                let bound = n as f64 * tau(n) * had;
                if !(d.real.is_finite() && d.imag.is_finite()) { st.violation("C02:determinant:Cmplx:singular-nonfinite", format!("determinant() = {:?} on exactly singular matrix; {}", d, desc())); }
                else {
                    st.max("Cmplx:singular_det_over_bound", if bound > 0.0 { fl::cabs(d) / bound } else if fl::cabs(d) == 0.0 { 0.0 } else { f64::INFINITY });
                    if !(fl::cabs(d) <= bound) { st.violation("C02:determinant:Cmplx:singular-large", format!("determinant() = {:?} > {:e}; {}", d, bound, desc())); }
                }
            }
            other => st.violation("C02:determinant:Cmplx:singular-panic", format!("determinant() {}; {}", other.describe(), desc())),
        }
        if !unchanged(&m) { st.violation("C02:determinant:Cmplx:mutated-matrix", format!("matrix changed; {}", desc())); }
        st.count(&format!("det:Cmplx:{}:singular", class));
        if n >= 2 { st.nontrivial(hash_dm("Cmplx", class, ac)); }
        return;
    }
    let k = match kappa_exact(ac, mag_crat) { Some(k) if k <= KMAX => k, _ => { st.count("skipped:float-kappa-too-large"); return; } };
    let dex = Cmplx::new(det.re.to_f64(), det.im.to_f64());
    st.eval();
    match catch(|| m.determinant()) {
        Outcome::Ok(d) => {
            let bound = n as f64 * k * tau(n) * fl::cabs(dex);
            let err = fl::cabs(d - dex);
            st.max("Cmplx:det_err_over_bound", err / bound);
            if !(err <= bound) { st.violation("C02:determinant:Cmplx:inaccurate", format!("determinant() = {:?}, exact {:?}, bound {:e}; {}", d, dex, bound, desc())); }
        }
        other => st.violation("C02:determinant:Cmplx:nonsingular-panic", format!("determinant() {}; {}", other.describe(), desc())),
    }
    if !unchanged(&m) { st.violation("C02:determinant:Cmplx:mutated-matrix", format!("matrix changed; {}", desc())); }
    st.eval();
    match catch(|| m.inverse()) {
        Outcome::Ok(x) => {
            if x.rows() != n || x.cols() != n { st.violation("C02:inverse:Cmplx:shape", format!("inverse shape {}x{}; {}", x.rows(), x.cols(), desc())); }
            else {
                let mut r1 = 0.0f64; let mut r2 = 0.0f64;
                for i in 0..n {
                    let (mut s1, mut s2) = (0.0, 0.0);
                    for j in 0..n {
                        let mut p = fl::CDD::ZERO; let mut q = fl::CDD::ZERO;
                        for l in 0..n { p = p + fl::CDD::from(af[i][l]) * fl::CDD::from(x[(l, j)]); q = q + fl::CDD::from(x[(i, l)]) * fl::CDD::from(af[l][j]); }
                        let e = fl::CDD::from_re(if i == j { 1.0 } else { 0.0 });
                        s1 += (p - e).abs(); s2 += (q - e).abs();
                    }
                    r1 = r1.max(s1); r2 = r2.max(s2);
                }
                let bound = 4.0 * n as f64 * k * tau(n);
                st.max("Cmplx:inv_right_resid_over_bound", r1 / bound);
                st.max("Cmplx:inv_left_resid_over_bound", r2 / bound);
                if !(r1 <= bound) || !(r2 <= bound) { st.violation("C02:inverse:Cmplx:inaccurate", format!("|AX-I|={:e} |XA-I|={:e} bound {:e}; {}", r1, r2, bound, desc())); }
            }
        }
        other => st.violation("C02:inverse:Cmplx:nonsingular-panic", format!("inverse() {}; {}", other.describe(), desc())),
    }
    if !unchanged(&m) { st.violation("C02:inverse:Cmplx:mutated-matrix", format!("matrix changed; {}", desc())); }
    st.count(&format!("det:Cmplx:{}:nonsingular", class));
    if n >= 2 { st.nontrivial(hash_dm("Cmplx", class, ac)); }
}

/// make a matrix of the given class rank-deficient
fn make_singular<E: Exact>(rng: &mut Rng, a: &mut DM<E>, how: u64) -> &'static str {
    let n = a.r;
    match how {
        0 => { let i = rng.usize(0, n - 1); for j in 0..n { a.a[i][j] = E::zero(); } "zero-row" }
        1 => { let j = rng.usize(0, n - 1); for i in 0..n { a.a[i][j] = E::zero(); } "zero-col" }
        2 if n >= 2 => { let i = rng.usize(0, n - 1); let mut k = rng.usize(0, n - 1); if k == i { k = (i + 1) % n; } let c = E::from_int(rng.nzint(3)); for j in 0..n { a.a[k][j] = a.a[i][j] * c; } "proportional-rows" }
        3 if n >= 3 => { // rank n-2: two rows are combinations of the others
            let c1 = E::from_int(rng.nzint(2)); let c2 = E::from_int(rng.nzint(2));
            for j in 0..n { a.a[n - 1][j] = a.a[0][j] * c1 + a.a[1][j] * c2; a.a[n - 2][j] = a.a[0][j] - a.a[1][j]; } "rank-n-2"
        }
        4 if n >= 2 => { // last column is a combination of the first columns (zero pivot appears only at the last step)
            for i in 0..n { let mut s = E::zero(); for j in 0..n - 1 { s = s + a.a[i][j] * E::from_int((j as i64 % 3) - 1); } a.a[i][n - 1] = s; } "dependent-last-col"
        }
        _ => { for j in 0..n { a.a[0][j] = E::zero(); } "zero-row" }
    }
}

/// Exact metamorphic check: multiplying column j by 2^cj changes no comparison in the pivot search and no rounding, so
/// determinant(A*D) must equal determinant(A) * 2^(sum cj) bit for bit (nonsingular or not), whatever the scale.
fn judge_det_scaling(st: &mut Stats, rng: &mut Rng, class: &str, ar: &DM<Rat>) {
    let n = ar.r;
    let af: Vec<Vec<f64>> = match ar.a.iter().map(|r| r.iter().map(|v| v.as_exact_f64()).collect::<Option<Vec<f64>>>()).collect::<Option<Vec<_>>>() { Some(x) => x, None => return };
    st.next_case();
    let global = rng.bool();
    let g = rng.int(-120, 120) as i32;
    let cs: Vec<i32> = (0..n).map(|_| if global { g } else { rng.int(-70, 70) as i32 }).collect();
    let tot: i32 = cs.iter().sum();
    if tot.abs() > 900 { return; }
    let asc: Vec<Vec<f64>> = af.iter().map(|r| r.iter().enumerate().map(|(j, v)| v * 2f64.powi(cs[j])).collect()).collect();
    st.eval();
    if let (Outcome::Ok(d0), o1) = (catch(|| mat_f64(&af).determinant()), catch(|| mat_f64(&asc).determinant())) {
        if !d0.is_finite() { return; }
        let want = d0 * 2f64.powi(tot);
        if want != 0.0 && (want.abs() < 1e-290 || want.abs() > 1e290) { return; }
        match o1 {
            Outcome::Ok(d1) => if d1.to_bits() != want.to_bits() && d1 != want {
                st.violation("C02:determinant:f64:scale-dependent", format!("columns scaled by 2^{:?}: determinant = {:e}, unscaled determinant {:e} times 2^{} = {:e}; class={} A={:?}", cs, d1, d0, tot, want, class, af));
            },
            o => st.violation("C02:determinant:f64:scale-dependent", format!("columns scaled by 2^{:?}: {}; class={} A={:?}", cs, o.describe(), class, af)),
        }
    }
    st.count("det:f64:pow2-column-scaling");
    // one column in the subnormal range (entries k*2^-1030 are still exactly representable): the determinant
    // d0*2^-1030 is representable to ~44 bits; it must come out finite and close to it (a reciprocal of a subnormal
    // pivot overflows; a quotient by it does not)
    let nonsingular = matches!(catch(|| exact_det_rank_inv(ar)), Outcome::Ok((d, _, _)) if !d.is_zero());
    // (only for matrices without tiny entries: with a leading entry of 2^-40 the expected value d0*2^-1030 lies so deep in the
    //  subnormal range - and the running product of pivots dips deeper still - that gradual underflow legitimately costs most of
    //  its digits; thorough seed 3 showed a 26 % deviation at 6e-319, which is rounding, not a defect)
    let no_tiny = af.iter().flatten().all(|v| *v == 0.0 || v.abs() >= 2f64.powi(-20));
    if n >= 2 && nonsingular && no_tiny && rng.chance(0.15) {
        let j0 = rng.usize(0, n - 1);
        let asub: Vec<Vec<f64>> = af.iter().map(|r| r.iter().enumerate().map(|(j, v)| if j == j0 { v * 2f64.powi(-515) * 2f64.powi(-515) } else { *v }).collect()).collect();
        st.eval();
        if let (Outcome::Ok(d0), Outcome::Ok(d1)) = (catch(|| mat_f64(&af).determinant()), catch(|| mat_f64(&asub).determinant())) {
            let want = d0 * 2f64.powi(-515) * 2f64.powi(-515);
            if d0.is_finite() && (!d1.is_finite() || (d1 - want).abs() > 1e-6 * want.abs() + 2f64.powi(-1060)) {
                st.violation("C02:determinant:f64:subnormal-column", format!("column {} scaled by 2^-1030: determinant = {:e}, expected about {:e}; class={} A={:?}", j0, d1, want, class, af));
            }
        }
        st.count("det:f64:subnormal-column");
    }
}

/// inverse under column scaling: inverse(B*D) = D^-1 * inverse(B) for D = diag(2^c_j). Column scaling leaves every pivot
/// choice and every multiplier unchanged, so the result must agree bit for bit (row i of the inverse times 2^-c_i) although
/// the LU pivots of B*D span up to 2^1080 - a perfectly invertible matrix, all of whose entries and inverse entries are normal
fn judge_inverse_scaling(st: &mut Stats, rng: &mut Rng, class: &str, ar: &DM<Rat>) {
    let n = ar.r;
    if n == 0 || n != ar.c { return; }
    let af: Vec<Vec<f64>> = match ar.a.iter().map(|r| r.iter().map(|v| v.as_exact_f64()).collect::<Option<Vec<f64>>>()).collect::<Option<Vec<_>>>() { Some(x) => x, None => return };
    if !matches!(catch(|| exact_det_rank_inv(ar)), Outcome::Ok((d, _, _)) if !d.is_zero()) { return; }
    st.next_case();
    let wide = rng.bool();
    let cs: Vec<i32> = (0..n).map(|_| if wide { rng.int(-540, 540) } else { rng.int(-60, 60) } as i32).collect();
    let p2 = |e: i32| 2f64.powi(e / 2) * 2f64.powi(e - e / 2);
    let asc: Vec<Vec<f64>> = af.iter().map(|r| r.iter().enumerate().map(|(j, v)| v * p2(cs[j])).collect()).collect();
    st.eval();
    let x0 = match catch(|| mat_f64(&af).inverse()) { Outcome::Ok(x) => x, _ => return };
    let want: Vec<Vec<f64>> = (0..n).map(|i| (0..n).map(|j| x0[(i, j)] * p2(-cs[i])).collect()).collect();
    let in_range = |v: f64| v == 0.0 || (v.is_finite() && v.abs() > 1e-290 && v.abs() < 1e290);
    if !want.iter().flatten().all(|v| in_range(*v)) || !(0..n).all(|i| (0..n).all(|j| in_range(x0[(i, j)]))) || !asc.iter().flatten().all(|v| in_range(*v)) { st.count("skipped:inverse-scaling-out-of-range"); return; }
    match catch(|| mat_f64(&asc).inverse()) {
        Outcome::Ok(x1) => {
            let bad = (0..n).any(|i| (0..n).any(|j| x1[(i, j)].to_bits() != want[i][j].to_bits() && x1[(i, j)] != want[i][j]));
            if bad { st.violation("C02:inverse:f64:scale-dependent", format!("columns scaled by 2^{:?}: inverse = {:?}, expected the row-scaled unscaled inverse {:?}; class={} A={:?}", cs, (0..n).map(|i| (0..n).map(|j| x1[(i, j)]).collect::<Vec<_>>()).collect::<Vec<_>>(), want, class, af)); }
        }
        o => st.violation("C02:inverse:f64:scale-dependent", format!("columns scaled by 2^{:?}: {} although the unscaled matrix was inverted; class={} A={:?}", cs, o.describe(), class, af)),
    }
    st.count("inverse:f64:pow2-column-scaling");
}

/// Graded matrices with an exact oracle: for block upper-triangular [[B11, H],[0, B22]] the elimination of the B11 columns
/// has zero multipliers for the lower block, so H never mixes into B22 and the pivots are those of B11 and B22 computed
/// separately; det must equal det(B11)*det(B22) (up to the association of one product) however huge H is.
fn judge_block_graded(st: &mut Stats, rng: &mut Rng) {
    st.next_case();
    let (n1, n2) = (rng.usize(1, 4), rng.usize(1, 4));
    let n = n1 + n2;
    let blk = |rng: &mut Rng, k: usize| -> Vec<Vec<f64>> { (0..k).map(|_| (0..k).map(|_| rng.int(-9, 9) as f64).collect()).collect() };
    let (b11, b22) = (blk(rng, n1), blk(rng, n2));
    let e = rng.int(40, 200) as i32;
    let a: Vec<Vec<f64>> = (0..n).map(|i| (0..n).map(|j| if i < n1 && j < n1 { b11[i][j] } else if i >= n1 && j >= n1 { b22[i - n1][j - n1] } else if i < n1 { rng.int(-9, 9) as f64 * 2f64.powi(e) } else { 0.0 }).collect()).collect();
    st.eval();
    if let (Outcome::Ok(d1), Outcome::Ok(d2), o) = (catch(|| mat_f64(&b11).determinant()), catch(|| mat_f64(&b22).determinant()), catch(|| mat_f64(&a).determinant())) {
        let want = d1 * d2;
        match o {
            Outcome::Ok(d) => if !d.is_finite() || (d - want).abs() > 8.0 * U * want.abs() { st.violation("C02:determinant:f64:graded-block-triangular", format!("det = {:e} but det(B11)*det(B22) = {:e} * {:e}; A={:?}", d, d1, d2, a)); },
            oo => st.violation("C02:determinant:f64:graded-block-triangular", format!("{}; A={:?}", oo.describe(), a)),
        }
    }
    st.count("det:f64:graded-block-triangular");
}

fn all_types(st: &mut Stats, class: &str, ar: &DM<Rat>, ac: &DM<CRat>) {
    judge_exact(st, class, ar);
    judge_exact(st, class, ac);
    judge_f64(st, class, ar);
    judge_cmplx(st, class, ac);
    let mut r = Rng::new(ar.a.iter().flatten().fold(17u64, |h, v| hmix(h, v.n as u64)));
    judge_det_scaling(st, &mut r, class, ar);
    judge_inverse_scaling(st, &mut r, class, ar);
}

pub fn run(ctx: &Ctx) -> Report {
    let mut perms: Vec<Vec<usize>> = vec![];
    let maxn = if ctx.quick() { 6 } else { 7 };
    for n in 1..=maxn { perms.extend(permutations(n)); }
    let chunk = 8usize;
    let np = ((perms.len() + chunk - 1) / chunk) as u64;
    let nrand = ctx.vol(8000, 350_000);
    let stats = par_run(ctx, TAG, np + nrand, |u, rng, st| {
        if u < np {
            let lo = u as usize * chunk;
            for p in &perms[lo..(lo + chunk).min(perms.len())] {
                let n = p.len();
                // permutation matrix (sign rule) and a scaled permutation
                let pm = DM::<Rat>::from_fn(n, n, |i, j| if p[i] == j { Rat::ONE } else { Rat::ZERO });
                let pc = DM::<CRat>::from_fn(n, n, |i, j| if p[i] == j { CRat::from_int(1) } else { CRat::from_int(0) });
                all_types(st, "permutation", &pm, &pc);
                let sc: Vec<i64> = (0..n).map(|_| rng.nzint(7)).collect();
                let sm = DM::<Rat>::from_fn(n, n, |i, j| if p[i] == j { Rat::int(sc[i]) } else { Rat::ZERO });
                let scc = DM::<CRat>::from_fn(n, n, |i, j| if p[i] == j { CRat::new(Rat::int(sc[i]), Rat::int(sc[(i + 1) % n])) } else { CRat::from_int(0) });
                all_types(st, "scaled-permutation", &sm, &scc);
                // P*L*U: parity of the forced exchanges
                let variant = rng.below(3) as u32;
                let mut r2 = rng.clone();
                let ar = plu_exact::<Rat>(rng, p, variant);
                let ac = plu_exact::<CRat>(&mut r2, p, variant);
                all_types(st, "plu", &ar, &ac);
            }
        } else {
            for _ in 0..8 {
                let n = rng.usize(1, 8);
                let sel = rng.below(10);
                let kind = rng.below(5) as u32;
                let cname = ["dense", "sparse-pattern", "triangular", "perm-like", "zero-diagonal"][kind as usize];
                let mut r2 = rng.clone();
                judge_block_graded(st, rng);
                let mut ar = if sel < 2 { let p = rng.perm(n); plu_exact::<Rat>(rng, &p, kind % 3) } else { rand_dense_exact::<Rat>(rng, n, kind) };
                // exactly symmetric matrices (a value coincidence a symmetric fast path would key on), some with a tiny
                // leading entry 2^-40 so that unpivoted elimination would be unstable
                let symmetric = sel >= 2 && sel < 5 && rng.chance(0.3);
                if symmetric { for i in 0..n { for j in 0..i { ar.a[i][j] = ar.a[j][i]; } } if rng.bool() { ar.a[0][0] = Rat::new(rng.nzint(3) as i128, 1i128 << 40); } }
                let mut ac = if sel < 2 { let p = r2.perm(n); plu_exact::<CRat>(&mut r2, &p, kind % 3) } else { rand_dense_exact::<CRat>(&mut r2, n, kind) };
                if sel >= 6 {
                    let how = rng.below(5);
                    let mut r3 = rng.clone();
                    let c1 = make_singular(rng, &mut ar, how);
                    let _ = make_singular(&mut r3, &mut ac, how);
                    all_types(st, c1, &ar, &ac);
                } else if sel == 5 && n <= 5 {
                    let b = rand_dense_exact::<Rat>(rng, n, 0);
                    judge_product_rule(st, &ar, &b);
                    let bc = rand_dense_exact::<CRat>(rng, n, 0);
                    judge_product_rule(st, &ac, &bc);
                } else {
                    all_types(st, if sel < 2 { "plu" } else if symmetric { "symmetric" } else { cname }, &ar, &ac);
                }
            }
        }
    });
    let mut rep = Report::new(stats,
        "cases: all n! permutation matrices and scaled permutations for n<=6 (quick)/7 (thorough), P*L*U matrices for every such P (parity of forced exchanges), random dense/sparse-pattern/triangular/permutation-like/zero-diagonal integer matrices of order 1..8, rank-deficient families (zero row, zero column, proportional rows, rank n-2, dependent last column), det(AB)=det(A)det(B), exactly symmetric matrices (some with a 2^-40 leading entry), graded block upper-triangular matrices with a 2^40..2^200 off-diagonal block; each through Rat, CRat, f64, Complex<f64>. Non-trivial: n>=2 and determinant (and inverse when nonsingular) judged; distinct = distinct (type,class,matrix) hashes");
    rep.assumptions = vec![
        "exact model: harness Gauss-Jordan over Rat/CRat with first-nonzero pivoting".into(),
        "float demands: data are integer/dyadic so the exact determinant/inverse are known; nonsingular cases need kappa_inf<=1e8; singular cases: result finite and |det| <= n*tau(n)*prod(row 2-norms)".into(),
        "inverse of a singular matrix is not constrained by the property and is not called".into(),
    ];
    rep.min_nontrivial = 500;
    rep
}
