//! C01 — dense direct solvers solve Ax=b for every nonsingular system.
use crate::fl::{self, U};
use crate::model::{exact_det_rank_inv, exchange_mask, vec_to_ohsl, DM};
use crate::mon::common::*;
use crate::rat::{CRat, Exact, Rat};
use crate::rng::{permutations, Rng};
use crate::run::{catch, par_run, Ctx, Outcome, Report, Stats};
use ohsl::{Cmplx, Matrix, Vector};

const TAG: u64 = 0xC01;

fn tau(n: usize) -> f64 { 1024.0 * n as f64 * U }

/// Judge one exact system through the real generic code.
pub fn judge_exact<E: Exact>(st: &mut Stats, class: &str, a: &DM<E>, b: &[E]) {
    let n = a.r;
    st.next_case();
    let cert = catch(|| exact_det_rank_inv(a));
    let (det, _rank, inv) = match cert { Outcome::Ok(t) => t, _ => { st.count("skipped:rat-overflow-in-model"); return; } };
    if det.is_zero_e() { st.count("skipped:singular"); return; }
    let inv = inv.unwrap();
    let xt = match catch(|| inv.mulvec(b)) { Outcome::Ok(x) => x, _ => { st.count("skipped:rat-overflow-in-model"); return; } };
    let desc = || format!("T={} n={} class={} A={} b={:?}", E::NAME, n, class, a.show(), b);
    let mut results: Vec<Option<Vec<E>>> = vec![];
    for solver in ["solve_basic", "solve_lu"] {
        let mut m = a.to_ohsl();
        let bv = vec_to_ohsl(b);
        let out = catch(|| if solver == "solve_basic" { m.solve_basic(&bv) } else { m.solve_lu(&bv) });
        st.eval();
        match out {
            Outcome::Overflow => { st.count("skipped:rat-overflow-in-library"); results.push(None); }
            Outcome::Ok(x) => {
                let xs = x.vec.clone();
                let ok_len = xs.len() == n;
                // A*x == b (independent of the model inverse); an overflow in this product skips only this sub-check
                let ax_bad = ok_len && matches!(catch(|| a.mulvec(&xs)), Outcome::Ok(ax) if ax.as_slice() != b);
                if !ok_len || ax_bad || xs != xt {
                    st.violation(&format!("C01:{}:{}:wrong-solution", solver, E::NAME),
                        format!("{} returned x={:?} but exact solution is {:?}; {}", solver, xs, xt, desc()));
                }
                results.push(Some(xs));
            }
            other => {
                st.violation(&format!("C01:{}:{}:refused-nonsingular", solver, E::NAME),
                    format!("{} {} on nonsingular system (det={:?}); {}", solver, other.describe(), det, desc()));
                results.push(None);
            }
        }
    }
    if let (Some(x1), Some(x2)) = (&results[0], &results[1]) {
        if x1 != x2 {
            st.violation(&format!("C01:agree:{}", E::NAME), format!("solve_basic {:?} != solve_lu {:?}; {}", x1, x2, desc()));
        }
    }
    st.count(&format!("cases:{}:n{}:{}", E::NAME, n, class));
    if n >= 2 {
        let mut h = hash_str(E::NAME) ^ hash_str(class);
        for row in &a.a { for v in row { h = hmix(h, v.hash_u64()); } }
        for v in b { h = hmix(h, v.hash_u64()); }
        st.nontrivial(h);
        if let Outcome::Ok(Some(mask)) = catch(|| exchange_mask(a)) {
            st.set_insert(&format!("exchange_masks:{}:n{}", E::NAME, n), format!("{:0w$b}", mask, w = n));
        }
    }
    st.sample(|| desc());
}

pub struct FloatCert { pub kappa: Option<f64> }

/// f64 system; `cert` = nonsingularity certificate produced by generator/model.
pub fn judge_f64(st: &mut Stats, class: &str, a: &Vec<Vec<f64>>, b: &[f64], cert: &FloatCert) {
    let n = b.len();
    st.next_case();
    let desc = || format!("T=f64 n={} class={} A={:?} b={:?}", n, class, a, b);
    let mut xs: Vec<Option<Vec<f64>>> = vec![];
    for solver in ["solve_basic", "solve_lu"] {
        let mut m = mat_f64(a);
        let bv = Vector::create(b.to_vec());
        let out = catch(|| if solver == "solve_basic" { m.solve_basic(&bv) } else { m.solve_lu(&bv) });
        st.eval();
        match out {
            Outcome::Ok(x) => {
                let x = x.vec;
                if x.len() != n || !fl::all_finite(&x) {
                    st.violation(&format!("C01:{}:f64:nonfinite-or-length", solver), format!("{} returned {:?}; {}", solver, x, desc()));
                    xs.push(None);
                    continue;
                }
                let (r, an, xn, bn) = fl::residual_real(a, &x, b);
                let eta = fl::backward_error(r, an, xn, bn);
                st.max("f64:max_eta_over_tau", eta / tau(n));
                if !(eta <= tau(n)) {
                    st.violation(&format!("C01:{}:f64:backward-error", solver),
                        format!("{} backward error {:e} > {:e}; x={:?}; {}", solver, eta, tau(n), x, desc()));
                }
                xs.push(Some(x));
            }
            other => {
                st.violation(&format!("C01:{}:f64:refused-nonsingular", solver), format!("{} {}; {}", solver, other.describe(), desc()));
                xs.push(None);
            }
        }
    }
    if let (Some(x1), Some(x2), Some(k)) = (&xs[0], &xs[1], cert.kappa) {
        if k <= 1e6 {
            let xn = x1.iter().fold(0.0f64, |m, v| m.max(v.abs()));
            let d = x1.iter().zip(x2).fold(0.0f64, |m, (p, q)| m.max((p - q).abs()));
            let bound = 4.0 * k * tau(n) * xn;
            st.max("f64:max_agree_over_bound", if bound > 0.0 { d / bound } else { 0.0 });
            if !(d <= bound) {
                st.violation("C01:agree:f64", format!("solvers differ by {:e} > {:e} (kappa {:e}); {}", d, bound, k, desc()));
            }
        }
    }
    st.count(&format!("cases:f64:n{}:{}", n, class));
    if n >= 2 {
        let mut h = hash_str("f64") ^ hash_str(class);
        for row in a { for v in row { h = hmix(h, v.to_bits()); } }
        for v in b { h = hmix(h, v.to_bits()); }
        st.nontrivial(h);
    }
}

pub fn judge_cmplx(st: &mut Stats, class: &str, a: &Vec<Vec<Cmplx>>, b: &[Cmplx], cert: &FloatCert) {
    let n = b.len();
    st.next_case();
    let desc = || format!("T=Cmplx n={} class={} A={:?} b={:?}", n, class, a, b);
    let mut xs: Vec<Option<Vec<Cmplx>>> = vec![];
    for solver in ["solve_basic", "solve_lu"] {
        let mut m = mat_c(a);
        let bv = Vector::create(b.to_vec());
        let out = catch(|| if solver == "solve_basic" { m.solve_basic(&bv) } else { m.solve_lu(&bv) });
        st.eval();
        match out {
            Outcome::Ok(x) => {
                let x = x.vec;
                if x.len() != n || !fl::all_finite_c(&x) {
                    st.violation(&format!("C01:{}:Cmplx:nonfinite-or-length", solver), format!("{} returned {:?}; {}", solver, x, desc()));
                    xs.push(None);
                    continue;
                }
                let (r, an, xn, bn) = fl::residual_cmplx(a, &x, b);
                let eta = fl::backward_error(r, an, xn, bn);
                st.max("Cmplx:max_eta_over_tau", eta / tau(n));
                if !(eta <= tau(n)) {
                    st.violation(&format!("C01:{}:Cmplx:backward-error", solver),
                        format!("{} backward error {:e} > {:e}; x={:?}; {}", solver, eta, tau(n), x, desc()));
                }
                xs.push(Some(x));
            }
            other => {
                st.violation(&format!("C01:{}:Cmplx:refused-nonsingular", solver), format!("{} {}; {}", solver, other.describe(), desc()));
                xs.push(None);
            }
        }
    }
    if let (Some(x1), Some(x2), Some(k)) = (&xs[0], &xs[1], cert.kappa) {
        if k <= 1e6 {
            let xn = x1.iter().fold(0.0f64, |m, v| m.max(fl::cabs(*v)));
            let d = x1.iter().zip(x2).fold(0.0f64, |m, (p, q)| m.max(fl::cabs(*p - *q)));
            let bound = 4.0 * k * tau(n) * xn;
            st.max("Cmplx:max_agree_over_bound", if bound > 0.0 { d / bound } else { 0.0 });
            if !(d <= bound) {
                st.violation("C01:agree:Cmplx", format!("solvers differ by {:e} > {:e} (kappa {:e}); {}", d, bound, k, desc()));
            }
        }
    }
    st.count(&format!("cases:Cmplx:n{}:{}", n, class));
    if n >= 2 {
        let mut h = hash_str("Cmplx") ^ hash_str(class);
        for row in a { for v in row { h = hmix(hmix(h, v.real.to_bits()), v.imag.to_bits()); } }
        st.nontrivial(h);
    }
}

/// A = P*L*U over exact type: L unit lower with |l| <= 1/2, U upper with nonzero diagonal.
/// `variant`: 0 plain, 1 more zeros in L/U, 2 tiny entries (2^-40) in L.
pub fn plu_exact<E: Exact>(rng: &mut Rng, perm: &[usize], variant: u32) -> DM<E> {
    let n = perm.len();
    let q = |k: i64, den: i128| Rat::new(k as i128, den);
    let lval = |rng: &mut Rng| -> E {
        if variant == 1 && rng.chance(0.5) { return E::zero(); }
        if variant == 2 && rng.chance(0.5) { return E::from_parts(q(rng.nzint(3), 1i128 << 40), Rat::ZERO); }
        if E::is_complex() { E::from_parts(q(rng.int(-1, 1), 4), q(rng.int(-1, 1), 4)) } else { E::from_parts(q(rng.int(-2, 2), 4), Rat::ZERO) }
    };
    let l = DM::<E>::from_fn(n, n, |i, j| if i == j { E::one() } else if i > j { lval(rng) } else { E::zero() });
    let u = DM::<E>::from_fn(n, n, |i, j| {
        if i == j { if E::is_complex() && rng.bool() { E::from_parts(Rat::int(rng.int(-3, 3)), Rat::int(rng.nzint(3))) } else { E::from_int(rng.nzint(5)) } }
        else if i < j {
            if variant == 1 && rng.chance(0.5) { E::zero() }
            else if E::is_complex() { E::from_parts(Rat::int(rng.int(-4, 4)), Rat::int(rng.int(-4, 4))) } else { E::from_int(rng.int(-6, 6)) }
        } else { E::zero() }
    });
    let lu = l.mul(&u);
    // row i of A is row perm[i] of L*U
    DM::from_fn(n, n, |i, j| lu.a[perm[i]][j])
}

pub fn rand_rhs<E: Exact>(rng: &mut Rng, n: usize) -> Vec<E> {
    (0..n).map(|_| if E::is_complex() { E::from_parts(Rat::int(rng.int(-9, 9)), Rat::int(rng.int(-9, 9))) } else { E::from_int(rng.int(-9, 9)) }).collect()
}

pub fn rand_dense_exact<E: Exact>(rng: &mut Rng, n: usize, kind: u32) -> DM<E> {
    let val = |rng: &mut Rng| -> E { if E::is_complex() { E::from_parts(Rat::int(rng.int(-9, 9)), Rat::int(rng.int(-9, 9))) } else { E::from_int(rng.int(-9, 9)) } };
    match kind {
        0 => DM::from_fn(n, n, |_, _| val(rng)),
        1 => { let p = rng.range(0.2, 0.7); DM::from_fn(n, n, |i, j| if i == j || rng.chance(p) { val(rng) } else { E::zero() }) } // sparse pattern
        2 => { let up = rng.bool(); DM::from_fn(n, n, |i, j| if (up && i <= j) || (!up && i >= j) { val(rng) } else { E::zero() }) } // triangular
        3 => { // scaled permutation plus a few extra entries
            let p = rng.perm(n);
            DM::from_fn(n, n, |i, j| if p[i] == j { E::from_int(rng.nzint(9)) } else if rng.chance(0.15) { val(rng) } else { E::zero() })
        }
        _ => { // zero leading diagonal block forcing exchanges
            DM::from_fn(n, n, |i, j| if i == j && i + 1 < n { E::zero() } else { val(rng) })
        }
    }
}

fn exact_to_f64(a: &DM<Rat>) -> Option<Vec<Vec<f64>>> {
    let mut out = vec![];
    for row in &a.a { let mut r = vec![]; for v in row { r.push(v.as_exact_f64()?); } out.push(r); }
    Some(out)
}
fn exact_to_c(a: &DM<CRat>) -> Option<Vec<Vec<Cmplx>>> {
    let mut out = vec![];
    for row in &a.a { let mut r = vec![]; for v in row { r.push(Cmplx::new(v.re.as_exact_f64()?, v.im.as_exact_f64()?)); } out.push(r); }
    Some(out)
}

/// kappa_inf of an exact matrix via its exact inverse (None on overflow or singular)
pub fn kappa_exact<E: Exact>(a: &DM<E>, mag: impl Fn(&E) -> f64) -> Option<f64> {
    let r = catch(|| exact_det_rank_inv(a)).ok()?;
    let inv = r.2?;
    let norm = |m: &DM<E>| m.a.iter().map(|row| row.iter().map(|v| mag(v)).sum::<f64>()).fold(0.0f64, f64::max);
    Some(norm(a) * norm(&inv))
}
pub fn mag_rat(v: &Rat) -> f64 { v.to_f64().abs() }
pub fn mag_crat(v: &CRat) -> f64 { v.re.to_f64().hypot(v.im.to_f64()) }

/// One structured case driven through Rat, f64, CRat, Cmplx (and 2^k scalings for floats).
fn structured_case(st: &mut Stats, rng: &mut Rng, class: &str, ar: DM<Rat>, ac: DM<CRat>) {
    let n = ar.r;
    let br: Vec<Rat> = rand_rhs(rng, n);
    let bc: Vec<CRat> = rand_rhs(rng, n);
    judge_exact(st, class, &ar, &br);
    judge_exact(st, class, &ac, &bc);
    let nonsing_r = matches!(catch(|| exact_det_rank_inv(&ar)), Outcome::Ok((d, _, _)) if !d.is_zero());
    let nonsing_c = matches!(catch(|| exact_det_rank_inv(&ac)), Outcome::Ok((d, _, _)) if !d.is_zero());
    // Float demands need a conditioning certificate: kappa_inf <= KMAX from the exact inverse of the
    // identical (dyadic) data. Row scalings change the pivot order, so their kappa is certified separately;
    // power-of-two column scalings leave pivoting and every rounding unchanged (checked as exact invariance).
    if nonsing_r {
        if let (Some(af), Some(k)) = (exact_to_f64(&ar), kappa_exact(&ar, mag_rat)) {
            if k <= KMAX {
                let bf: Vec<f64> = br.iter().map(|v| v.to_f64()).collect();
                judge_f64(st, class, &af, &bf, &FloatCert { kappa: Some(k) });
                if rng.chance(0.5) { judge_scaling_f64(st, rng, class, &af, &bf); }
                let rs: Vec<i32> = (0..n).map(|_| rng.int(-8, 8) as i32).collect();
                let cs: Vec<i32> = (0..n).map(|_| rng.int(-90, 90) as i32).collect();
                let ars = DM::<Rat>::from_fn(n, n, |i, j| ar.a[i][j] * pow2_rat(rs[i]));
                if let (Some(afr), Some(kr)) = (exact_to_f64(&ars), kappa_exact(&ars, mag_rat)) {
                    if kr <= KMAX {
                        let asc: Vec<Vec<f64>> = (0..n).map(|i| (0..n).map(|j| afr[i][j] * 2f64.powi(cs[j])).collect()).collect();
                        let bsc: Vec<f64> = (0..n).map(|i| bf[i] * 2f64.powi(rs[i])).collect();
                        judge_f64(st, &format!("{}+pow2scaled", class), &asc, &bsc, &FloatCert { kappa: None });
                    } else { st.count("skipped:float-kappa-too-large"); }
                }
            } else { st.count("skipped:float-kappa-too-large"); }
        } else { st.count("skipped:float-certificate-unavailable"); }
    }
    if nonsing_c {
        if let (Some(af), Some(k)) = (exact_to_c(&ac), kappa_exact(&ac, mag_crat)) {
            if k <= KMAX {
                let bf: Vec<Cmplx> = bc.iter().map(|v| Cmplx::new(v.re.to_f64(), v.im.to_f64())).collect();
                judge_cmplx(st, class, &af, &bf, &FloatCert { kappa: Some(k) });
                let rs: Vec<i32> = (0..n).map(|_| rng.int(-8, 8) as i32).collect();
                let cs: Vec<i32> = (0..n).map(|_| rng.int(-90, 90) as i32).collect();
                let acs = DM::<CRat>::from_fn(n, n, |i, j| ac.a[i][j] * CRat::new(pow2_rat(rs[i]), Rat::ZERO));
                if let (Some(afr), Some(kr)) = (exact_to_c(&acs), kappa_exact(&acs, mag_crat)) {
                    if kr <= KMAX {
                        let asc: Vec<Vec<Cmplx>> = (0..n).map(|i| (0..n).map(|j| afr[i][j] * 2f64.powi(cs[j])).collect()).collect();
                        let bsc: Vec<Cmplx> = (0..n).map(|i| bf[i] * 2f64.powi(rs[i])).collect();
                        judge_cmplx(st, &format!("{}+pow2scaled", class), &asc, &bsc, &FloatCert { kappa: None });
                    } else { st.count("skipped:float-kappa-too-large"); }
                }
            } else { st.count("skipped:float-kappa-too-large"); }
        } else { st.count("skipped:float-certificate-unavailable"); }
    }
}

pub const KMAX: f64 = 1e8;
pub fn pow2_rat(e: i32) -> Rat { if e >= 0 { Rat::new(1i128 << e, 1) } else { Rat::new(1, 1i128 << (-e)) } }

/// Exact metamorphic check "whatever the magnitudes": scaling A by 2^ea and b by 2^eb (exact in binary floating point,
/// no pivot choice or rounding changes) must scale the solution by exactly 2^(eb-ea), bit for bit, in both solvers.
pub fn judge_scaling_f64(st: &mut Stats, rng: &mut Rng, class: &str, a: &Vec<Vec<f64>>, b: &[f64]) {
    let n = b.len();
    st.next_case();
    let ea = rng.int(-300, 300) as i32;
    let eb = ea + rng.int(-200, 200) as i32;
    let (sa, sb) = (2f64.powi(ea), 2f64.powi(eb));
    let asc: Vec<Vec<f64>> = a.iter().map(|r| r.iter().map(|v| v * sa).collect()).collect();
    let bsc: Vec<f64> = b.iter().map(|v| v * sb).collect();
    for solver in ["solve_basic", "solve_lu"] {
        let run = |aa: &Vec<Vec<f64>>, bb: &[f64]| { let mut m = mat_f64(aa); let bv = Vector::create(bb.to_vec()); catch(|| if solver == "solve_basic" { m.solve_basic(&bv) } else { m.solve_lu(&bv) }) };
        st.eval();
        if let (Outcome::Ok(x0), o1) = (run(a, b), run(&asc, &bsc)) {
            if !fl::all_finite(&x0.vec) { continue; }
            let want: Vec<f64> = x0.vec.iter().map(|v| v * 2f64.powi(eb - ea)).collect();
            match o1 {
                Outcome::Ok(x1) => if x1.vec.iter().map(|v| v.to_bits()).ne(want.iter().map(|v| v.to_bits())) {
                    st.violation(&format!("C01:{}:f64:scale-dependent", solver), format!("A*2^{} x = b*2^{}: {} returned {:?}, the unscaled solution times 2^{} is {:?}; n={} class={} A={:?} b={:?}", ea, eb, solver, x1.vec, eb - ea, want, n, class, a, b));
                },
                o => st.violation(&format!("C01:{}:f64:scale-dependent", solver), format!("A*2^{} x = b*2^{}: {} {}; class={} A={:?} b={:?}", ea, eb, solver, o.describe(), class, a, b)),
            }
        }
    }
    st.count("cases:f64:pow2-global-scaling");
}

/// Orders beyond 8 (the property has no upper bound on n): pivot-tie "growth traps" (unit diagonal, constant strictly
/// lower part c with |c| >= 1, ones in the last column: correct partial pivoting exchanges rows and shows no growth)
/// and random dense systems; certificate from the harness complete-pivoting inverse.
fn large_case(st: &mut Stats, rng: &mut Rng) {
    // mostly 9..32; now and then a few hundred (blocked/tiled elimination code only shows beyond its tile size)
    let n = if rng.chance(0.004) { rng.usize(513, 640) } else if rng.chance(0.02) { rng.usize(250, 330) } else if rng.chance(0.2) { rng.usize(33, 80) } else { rng.usize(9, 32) };
    let trap = rng.bool() && n <= 40;
    let a: Vec<Vec<f64>> = if trap {
        let c = *rng.pick(&[-2.0, 2.0, -1.5, -1.0, 1.0, -3.0]);
        (0..n).map(|i| (0..n).map(|j| if i == j { 1.0 } else if j < i { c } else if j == n - 1 { 1.0 } else { 0.0 }).collect()).collect()
    } else {
        // random dense with a dominant diagonal for the larger orders (keeps the conditioning certificate cheap to meet)
        (0..n).map(|i| (0..n).map(|j| if i == j && n > 32 { (rng.int(5, 9) * n as i64) as f64 * if rng.bool() { 1.0 } else { -1.0 } } else { rng.int(-9, 9) as f64 }).collect()).collect()
    };
    // the dominant entries are moved off the diagonal by a row permutation half of the time: every column then needs a
    // genuine row exchange (a row-swap routine that works in blocks only shows beyond its block length)
    let mut a = a;
    if !trap && n > 32 && rng.bool() { let p = rng.perm(n); a = (0..n).map(|i| a[p[i]].clone()).collect(); }
    let xs: Vec<f64> = (0..n).map(|_| rng.int(-3, 3) as f64).collect();
    let b: Vec<f64> = (0..n).map(|i| (0..n).map(|j| a[i][j] * xs[j]).sum()).collect();
    match cp_cert_real(&a).filter(|k| *k <= KMAX) {
        Some(k) => { judge_f64(st, if trap { "large-n-pivot-tie-trap" } else { "large-n-dense" }, &a, &b, &FloatCert { kappa: Some(k) }); if rng.chance(0.3) { judge_scaling_f64(st, rng, "large-n", &a, &b); } }
        None => st.count("skipped:float-certificate-failed"),
    }
}

/// Orders at and just beyond 1024 (vectorised / unrolled / stack-vs-heap code paths switch at such sizes). The matrix is a
/// shifted "cyclic" dominant pattern: row i carries its dominant entry in column (i+s) mod n, so that every column needs a
/// genuine row exchange, the permutation is one long cycle (not an involution), and for s = 1 the ONLY large candidate of the
/// first column sits in the last row; a sprinkling of small entries (none in the first four columns' upper part) fills in.
fn huge_case(st: &mut Stats, rng: &mut Rng) {
    let n = *rng.pick(&[1024usize, 1025, 1027, 1028, 1032, 1040]);
    let s = *rng.pick(&[1usize, 1, 2, 3, 517]);
    let mut a = vec![vec![0.0f64; n]; n];
    for i in 0..n { a[i][(i + s) % n] = (rng.int(20, 40) as f64) * if rng.bool() { 1.0 } else { -1.0 }; }
    for _ in 0..3 * n { let (i, j) = (rng.usize(0, n - 1), rng.usize(4, n - 1)); if a[i][j] == 0.0 { a[i][j] = rng.int(-3, 3) as f64; } }
    let xs: Vec<f64> = (0..n).map(|_| rng.int(-3, 3) as f64).collect();
    let b: Vec<f64> = (0..n).map(|i| (0..n).map(|j| a[i][j] * xs[j]).sum()).collect();
    // (strict dominance of the shifted pattern, about 3 small entries per row: well conditioned; judged by the backward error and,
    //  the data being small integers with a planted integer solution, by the distance to that solution)
    st.next_case();
    let desc = || format!("T=f64 n={} class=huge-n-cyclic-dominant shift={} (row i dominant in column (i+shift) mod n; replay by unit)", n, s);
    for solver in ["solve_basic", "solve_lu"] {
        let mut m = mat_f64(&a);
        let bv = Vector::create(b.clone());
        let out = catch(|| if solver == "solve_basic" { m.solve_basic(&bv) } else { m.solve_lu(&bv) });
        st.eval();
        match out {
            Outcome::Ok(x) => {
                let x = x.vec;
                if x.len() != n || !fl::all_finite(&x) { st.violation(&format!("C01:{}:f64:nonfinite-or-length", solver), format!("{} returned a non-finite or mis-sized vector; {}", solver, desc())); continue; }
                let (r, an, xn, bn) = fl::residual_real(&a, &x, &b);
                let eta = fl::backward_error(r, an, xn, bn);
                st.max("f64:max_eta_over_tau", eta / tau(n));
                let dist = x.iter().zip(&xs).fold(0.0f64, |m, (p, q)| m.max((p - q).abs()));
                if !(eta <= tau(n)) || !(dist <= 1e-6) { st.violation(&format!("C01:{}:f64:backward-error", solver), format!("{} backward error {:e} (limit {:e}), distance to the planted integer solution {:e}; {}", solver, eta, tau(n), dist, desc())); }
            }
            other => st.violation(&format!("C01:{}:f64:refused-nonsingular", solver), format!("{} {}; {}", solver, other.describe(), desc())),
        }
    }
    st.count("huge-n-cases");
    st.nontrivial(hmix(hash_str("huge-n"), (n * 1000 + s) as u64 ^ rng.u64()));
}

pub fn run(ctx: &Ctx) -> Report {
    // unit layout: [0, NP) permutation sweep units; then random units
    let mut perms: Vec<Vec<usize>> = vec![];
    let maxn_all = if ctx.quick() { 6 } else { 8 };
    for n in 1..=maxn_all { perms.extend(permutations(n)); }
    let chunk = 8usize;
    let np = ((perms.len() + chunk - 1) / chunk) as u64;
    let nrand = ctx.vol(4000, 200_000);
    let stats = par_run(ctx, TAG, np + nrand, |u, rng, st| {
        if u < np {
            let lo = u as usize * chunk;
            for p in &perms[lo..(lo + chunk).min(perms.len())] {
                for variant in 0..3u32 {
                    let class = ["plu", "plu-zeros", "plu-tiny"][variant as usize];
                    let mut r2 = rng.clone();
                    let ar = plu_exact::<Rat>(rng, p, variant);
                    let ac = plu_exact::<CRat>(&mut r2, p, variant);
                    structured_case(st, rng, class, ar, ac);
                }
            }
        } else {
            // (one unit in 1300 also runs a case of order >= 1024: three per quick run, about 150 per thorough run)
            let mut huge_turn = (u - np) % 1300 == 7;
            for _ in 0..10 {
                let n = rng.usize(1, 8);
                let sel = rng.below(10);
                if sel < 3 {
                    // random permutation PLU for larger n
                    let p = rng.perm(n);
                    let variant = rng.below(3) as u32;
                    let class = ["plu", "plu-zeros", "plu-tiny"][variant as usize];
                    let mut r2 = rng.clone();
                    let ar = plu_exact::<Rat>(rng, &p, variant);
                    let ac = plu_exact::<CRat>(&mut r2, &p, variant);
                    structured_case(st, rng, class, ar, ac);
                } else if sel < 7 {
                    let kind = rng.below(5) as u32;
                    let class = ["dense", "sparse-pattern", "triangular", "perm-like", "zero-diagonal"][kind as usize];
                    let mut r2 = rng.clone();
                    let ar = rand_dense_exact::<Rat>(rng, n, kind);
                    let ac = rand_dense_exact::<CRat>(&mut r2, n, kind);
                    structured_case(st, rng, class, ar, ac);
                } else if sel < 9 {
                    general_float_case(st, rng, n);
                    if rng.chance(0.5) { tiny_block_case(st, rng); }
                } else {
                    large_case(st, rng);
                }
                if huge_turn { huge_turn = false; huge_case(st, rng); }
            }
        }
    });
    // all sign patterns for n <= 3 (deterministic sweep), run single-threaded after the parallel part
    let mut stats = stats;
    if ctx.only_unit.is_none() {
        let mut st = Stats::default();
        st.unit = u64::MAX;
        let mut rng = Rng::new(ctx.seed ^ 0x5157);
        for n in 1..=3usize {
            let cells = n * n;
            let total = 3u32.pow(cells as u32);
            let stride = if n == 3 && ctx.quick() { 7 } else { 1 };
            let mut code = 0;
            while code < total {
                let mut c = code;
                let a = DM::<Rat>::from_fn(n, n, |_, _| { let s = c % 3; c /= 3; Rat::int(match s { 0 => 0, 1 => rng.int(1, 9), _ => -rng.int(1, 9) }) });
                let b: Vec<Rat> = rand_rhs(&mut rng, n);
                judge_exact(&mut st, "sign-pattern-sweep", &a, &b);
                code += stride;
            }
        }
        stats.merge(st);
    }
    let mut rep = Report::new(stats,
        "[round 6: plus decoupled tiny-pivot systems, one unknown with coefficient q*2^-e (f64: e 600..1071, subnormal included; complex: e 100..330) at a random position of a strictly dominant system n=2..8] cases: every permutation P of n<=6 (quick) / n<=8 (thorough) rows as A=P*L*U (3 variants: plain, extra zeros, 2^-40 entries), random P for larger n, random dense/sparse-pattern/triangular/permutation-like/zero-diagonal integer matrices, all 3^(n*n) sign/zero patterns for n<=3, exact 2^k row/column scalings, global scalings 2^(+-300) of A and b (solution must scale bit-exactly), orders 9..32 and occasionally up to 330 (pivot-tie growth traps and random dense, f64), general graded floats; each through Rat, CRat (exact complex), f64 and Complex<f64>. A case is non-trivial when n>=2, the system is certified nonsingular and both solvers were called; distinct = distinct (type,class,A,b) hashes");
    rep.assumptions = vec![
        "float cases are judged only with a conditioning certificate kappa_inf <= 1e8: exact inverse over Rat/CRat of the identical dyadic data (also for the 2^+-8 row-scaled variant; 2^+-40 column scalings do not change pivoting or rounding), or harness complete-pivoting Gauss-Jordan (pivot ratio >= 2^-30) for general floats".into(),
        "f64 backward-error threshold 1024*n*u fixed in harness (measured worst on unchanged tree ~3e-16)".into(),
        "Rat overflow in model or library => case skipped (counted), never judged".into(),
    ];
    rep.min_nontrivial = 500;
    rep
}

/// general floats with graded magnitudes; certificate from harness complete-pivoting elimination
/// "Whatever the magnitudes": a perfectly nonsingular, well-conditioned system in which one unknown is decoupled and
/// carries a tiny (down to subnormal, exactly representable) coefficient t = q*2^-e at position (p,p), every other entry of
/// row p and column p being zero, with b_p = t*k. The pivot of elimination step p is necessarily t; the rest is a
/// strictly diagonally dominant block. Judged by the ordinary oracle (finite, normwise backward error, solver agreement).
fn tiny_block_case(st: &mut Stats, rng: &mut Rng) {
    let n = rng.usize(2, 8);
    let p = rng.usize(0, n - 1);
    // complex elements: only down to 2^-330 (C13 states complex division for components of magnitude 1e-100..1e100; the
    // library's quotient forms |z|^2, so a complex pivot below 2^-511 is outside the documented domain of Complex itself)
    let real = rng.bool();
    let e = if !real { rng.int(100, 330) } else if rng.bool() { rng.int(1023, 1071) } else { rng.int(600, 1022) } as i32;
    let t = rng.nzint(7) as f64 * 2f64.powi(-(e / 2)) * 2f64.powi(-(e - e / 2));
    let k = rng.nzint(9) as f64;
    if real {
        let mut a: Vec<Vec<f64>> = (0..n).map(|_| (0..n).map(|_| rng.sym()).collect()).collect();
        for i in 0..n { let s: f64 = (0..n).filter(|&j| j != i && j != p).map(|j| a[i][j].abs()).sum(); a[i][i] = (s + rng.range(0.5, 1.5)) * if rng.bool() { 1.0 } else { -1.0 }; }
        let mut b: Vec<f64> = (0..n).map(|_| rng.sym()).collect();
        for j in 0..n { a[p][j] = 0.0; a[j][p] = 0.0; }
        a[p][p] = t; b[p] = t * k;
        judge_f64(st, "decoupled-tiny-pivot", &a, &b, &FloatCert { kappa: None });
    } else {
        let mut a: Vec<Vec<Cmplx>> = (0..n).map(|_| (0..n).map(|_| Cmplx::new(rng.sym(), rng.sym())).collect()).collect();
        for i in 0..n { let s: f64 = (0..n).filter(|&j| j != i && j != p).map(|j| fl::cabs(a[i][j])).sum(); a[i][i] = Cmplx::polar(s + rng.range(0.5, 1.5), rng.range(-3.1, 3.1)); }
        let mut b: Vec<Cmplx> = (0..n).map(|_| Cmplx::new(rng.sym(), rng.sym())).collect();
        for j in 0..n { a[p][j] = Cmplx::new(0.0, 0.0); a[j][p] = Cmplx::new(0.0, 0.0); }
        let tc = if rng.bool() { Cmplx::new(t, 0.0) } else { Cmplx::new(0.0, t) };
        a[p][p] = tc; b[p] = if tc.real != 0.0 { Cmplx::new(t * k, 0.0) } else { Cmplx::new(0.0, t * k) };
        judge_cmplx(st, "decoupled-tiny-pivot", &a, &b, &FloatCert { kappa: None });
    }
}

fn general_float_case(st: &mut Stats, rng: &mut Rng, n: usize) {
    let graded = rng.bool();
    // "graded": exact power-of-two *column* scaling of a certified matrix plus a common row scale
    // (pivot order and roundings unchanged), magnitudes spread over 2^-40..2^40
    let rsc: Vec<f64> = (0..n).map(|_| if graded { 2f64.powi(rng.int(-40, 40) as i32) } else { 1.0 }).collect();
    if rng.bool() {
        let a0: Vec<Vec<f64>> = (0..n).map(|_| (0..n).map(|_| rng.sym()).collect()).collect();
        let a: Vec<Vec<f64>> = (0..n).map(|i| (0..n).map(|j| a0[i][j] * rsc[j]).collect()).collect();
        let b: Vec<f64> = (0..n).map(|_| rng.sym()).collect();
        match cp_cert_real(&a0).filter(|k| *k <= KMAX) {
            Some(k) => judge_f64(st, if graded { "general-graded" } else { "general" }, &a, &b, &FloatCert { kappa: if graded { None } else { Some(k) } }),
            None => st.count("skipped:float-certificate-failed"),
        }
    } else {
        let a0: Vec<Vec<Cmplx>> = (0..n).map(|_| (0..n).map(|_| Cmplx::new(rng.sym(), rng.sym())).collect()).collect();
        let a: Vec<Vec<Cmplx>> = (0..n).map(|i| (0..n).map(|j| a0[i][j] * rsc[j]).collect()).collect();
        let b: Vec<Cmplx> = (0..n).map(|_| Cmplx::new(rng.sym(), rng.sym())).collect();
        match cp_cert_cmplx(&a0).filter(|k| *k <= KMAX) {
            Some(k) => judge_cmplx(st, if graded { "general-graded" } else { "general" }, &a, &b, &FloatCert { kappa: if graded { None } else { Some(k) } }),
            None => st.count("skipped:float-certificate-failed"),
        }
    }
}

#[allow(dead_code)]
fn unused(_: Matrix<f64>) {}
