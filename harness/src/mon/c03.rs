//! C03 — dense matrix algebra/editing follow their definitions for every shape and history.
use crate::fl::U;
use crate::model::{vec_to_ohsl, DM};
use crate::mon::common::*;
use crate::rat::Rat;
use crate::rng::Rng;
use crate::run::{catch, par_run, Ctx, Outcome, Report, Stats};
use ohsl::{Matrix, Vector};

const TAG: u64 = 0xC03;
type M = Matrix<Rat>;
type D = DM<Rat>;

pub fn rval(rng: &mut Rng) -> Rat {
    if rng.chance(0.15) { Rat::new(rng.int(-9, 9) as i128, rng.int(1, 4) as i128) } else { Rat::int(rng.int(-9, 9)) }
}
pub fn rnz(rng: &mut Rng) -> Rat { let v = rval(rng); if v.is_zero() { Rat::int(3) } else { v } }
pub fn rand_dm(rng: &mut Rng, r: usize, c: usize) -> D { DM::from_fn(r, c, |_, _| rval(rng)) }
pub fn rand_vec(rng: &mut Rng, n: usize) -> Vec<Rat> { (0..n).map(|_| rval(rng)).collect() }

/// compare a returned matrix with the model (reads guarded: inconsistent storage must not kill the harness)
fn same(m: &M, d: &D) -> bool {
    matches!(catch(|| d.eq_ohsl(m) && m.numel() == d.r * d.c && m.verif_storage_len() == d.r * d.c), Outcome::Ok(true))
}
fn show_m(m: &M) -> String {
    match catch(|| DM::from_ohsl(m).show()) { Outcome::Ok(s) => format!("{} (storage len {})", s, m.verif_storage_len()), _ => format!("<unreadable {}x{} storage len {}>", m.rows(), m.cols(), m.verif_storage_len()) }
}

fn expect_mat(st: &mut Stats, op: &str, out: Outcome<M>, want: &D, ctxd: &dyn Fn() -> String) {
    st.eval();
    match out {
        Outcome::Overflow => st.count("skipped:rat-overflow"),
        Outcome::Ok(m) => if !same(&m, want) { st.violation(&format!("C03:{}:wrong-result", op), format!("{} returned {} expected {}; {}", op, show_m(&m), want.show(), ctxd())); },
        other => st.violation(&format!("C03:{}:refused-conformable", op), format!("{} {} on conformable operands, expected {}; {}", op, other.describe(), want.show(), ctxd())),
    }
}
fn expect_vec(st: &mut Stats, op: &str, out: Outcome<Vector<Rat>>, want: &[Rat], ctxd: &dyn Fn() -> String) {
    st.eval();
    match out {
        Outcome::Overflow => st.count("skipped:rat-overflow"),
        Outcome::Ok(v) => if v.vec.as_slice() != want { st.violation(&format!("C03:{}:wrong-result", op), format!("{} returned {:?} expected {:?}; {}", op, v.vec, want, ctxd())); },
        other => st.violation(&format!("C03:{}:refused-conformable", op), format!("{} {} on conformable operands, expected {:?}; {}", op, other.describe(), want, ctxd())),
    }
}
/// in-place operation: run, then compare the receiver with the model
fn expect_inplace(st: &mut Stats, op: &str, m: &mut M, f: impl FnOnce(&mut M), want: &D, ctxd: &dyn Fn() -> String) -> bool {
    st.eval();
    match catch(|| f(m)) {
        Outcome::Overflow => { st.count("skipped:rat-overflow"); false }
        Outcome::Ok(()) => { if !same(m, want) { st.violation(&format!("C03:{}:wrong-result", op), format!("after {} matrix is {} expected {}; {}", op, show_m(m), want.show(), ctxd())); false } else { true } }
        other => { st.violation(&format!("C03:{}:refused-conformable", op), format!("{} {} on valid arguments, expected {}; {}", op, other.describe(), want.show(), ctxd())); false }
    }
}

fn products(st: &mut Stats, rng: &mut Rng, r: usize, k: usize, c: usize) {
    for _ in 0..3 {
        st.next_case();
        let mut a = rand_dm(rng, r, k);
        let mut b = rand_dm(rng, k, c);
        // value coincidences a fast path could key on: symmetric / nearly symmetric / identity / all-equal-rows /
        // scalar-multiple operands (still compared entry by entry with the model)
        match rng.below(8) {
            0 if k == c => { for i in 0..k { for j in 0..i { b.a[i][j] = b.a[j][i]; } } }
            1 if k == c && k >= 2 => { for i in 0..k { for j in 0..i { b.a[i][j] = b.a[j][i]; } } let (i, j) = if rng.bool() { (k - 1, rng.usize(0, k - 2)) } else { (rng.usize(1, k - 1), 0) }; b.a[i][j] = b.a[i][j] + Rat::ONE; }
            2 if k == c => { b = DM::eye(k); }
            3 if r == k => { a = DM::eye(r); }
            4 => { if k > 0 { let row = b.a[0].clone(); for i in 0..k { b.a[i] = row.clone(); } } }
            5 if r == k && k == c => { let f = Rat::int(rng.nzint(3)); b = DM::from_fn(k, c, |i, j| a.a[i][j] * f); }
            _ => {}
        }
        let v = rand_vec(rng, k);
        let d = || format!("A={} B={} v={:?}", a.show(), b.show(), v);
        let want = a.mul(&b);
        let (am, bm) = (a.to_ohsl(), b.to_ohsl());
        expect_mat(st, "mul(&M,&M)", catch(|| &am * &bm), &want, &d);
        expect_mat(st, "mul(M,M)", catch(|| am.clone() * bm.clone()), &want, &d);
        if !same(&am, &a) || !same(&bm, &b) { st.violation("C03:mul(&M,&M):operand-changed", d()); }
        let wv = a.mulvec(&v);
        let vv = vec_to_ohsl(&v);
        expect_vec(st, "multiply(&v)", catch(|| am.multiply(&vv)), &wv, &d);
        expect_vec(st, "mul(&M,&v)", catch(|| &am * &vv), &wv, &d);
        expect_vec(st, "mul(M,v)", catch(|| am.clone() * vv.clone()), &wv, &d);
        // (A*B)^T == B^T * A^T through the library
        if let (Outcome::Ok(p), Outcome::Ok(q)) = (catch(|| (&am * &bm).transpose()), catch(|| &bm.transpose() * &am.transpose())) {
            st.eval();
            if !matches!(catch(|| p == q), Outcome::Ok(true)) { st.violation("C03:transpose-product-identity", d()); }
        }
        // aliasing: the same object on both sides
        if r == k {
            let sq = a.mul(&a);
            expect_mat(st, "mul(&M,&M):aliased", catch(|| &am * &am), &sq, &d);
        }
        expect_mat(st, "add(&M,&M):aliased", catch(|| &am + &am), &DM::from_fn(r, k, |i, j| a.a[i][j] + a.a[i][j]), &d);
        expect_mat(st, "sub(&M,&M):aliased", catch(|| &am - &am), &DM::new(r, k, Rat::ZERO), &d);
        st.count(&format!("product-shapes:{}x{}x{}", r, k, c));
        st.nontrivial(hmix(hmix(hash_str("prod"), (r * 100 + k * 10 + c) as u64), rng.u64()));
        st.sample(|| d());
    }
}

fn shape_ops(st: &mut Stats, rng: &mut Rng, r: usize, c: usize) {
    for _ in 0..3 {
        st.next_case();
        let a = rand_dm(rng, r, c);
        let b = rand_dm(rng, r, c);
        let s = rnz(rng);
        let am = a.to_ohsl();
        let bm = b.to_ohsl();
        let d = || format!("A={} B={} s={:?}", a.show(), b.show(), s);
        let map = |f: &dyn Fn(usize, usize) -> Rat| DM::from_fn(r, c, |i, j| f(i, j));
        expect_mat(st, "neg(&M)", catch(|| -&am), &map(&|i, j| -a.a[i][j]), &d);
        expect_mat(st, "neg(M)", catch(|| -am.clone()), &map(&|i, j| -a.a[i][j]), &d);
        expect_mat(st, "add(&M,&M)", catch(|| &am + &bm), &map(&|i, j| a.a[i][j] + b.a[i][j]), &d);
        expect_mat(st, "add(M,M)", catch(|| am.clone() + bm.clone()), &map(&|i, j| a.a[i][j] + b.a[i][j]), &d);
        expect_mat(st, "sub(&M,&M)", catch(|| &am - &bm), &map(&|i, j| a.a[i][j] - b.a[i][j]), &d);
        expect_mat(st, "sub(M,M)", catch(|| am.clone() - bm.clone()), &map(&|i, j| a.a[i][j] - b.a[i][j]), &d);
        expect_mat(st, "mul(&M,s)", catch(|| &am * s), &map(&|i, j| a.a[i][j] * s), &d);
        expect_mat(st, "mul(M,s)", catch(|| am.clone() * s), &map(&|i, j| a.a[i][j] * s), &d);
        expect_mat(st, "div(&M,s)", catch(|| &am / s), &map(&|i, j| a.a[i][j] / s), &d);
        expect_mat(st, "div(M,s)", catch(|| am.clone() / s), &map(&|i, j| a.a[i][j] / s), &d);
        let mut t = am.clone(); expect_inplace(st, "add_assign(&M)", &mut t, |m| *m += &bm, &map(&|i, j| a.a[i][j] + b.a[i][j]), &d);
        let mut t = am.clone(); expect_inplace(st, "add_assign(M)", &mut t, |m| *m += bm.clone(), &map(&|i, j| a.a[i][j] + b.a[i][j]), &d);
        let mut t = am.clone(); expect_inplace(st, "sub_assign(&M)", &mut t, |m| *m -= &bm, &map(&|i, j| a.a[i][j] - b.a[i][j]), &d);
        let mut t = am.clone(); expect_inplace(st, "sub_assign(M)", &mut t, |m| *m -= bm.clone(), &map(&|i, j| a.a[i][j] - b.a[i][j]), &d);
        let mut t = am.clone(); expect_inplace(st, "mul_assign(s)", &mut t, |m| *m *= s, &map(&|i, j| a.a[i][j] * s), &d);
        let mut t = am.clone(); expect_inplace(st, "div_assign(s)", &mut t, |m| *m /= s, &map(&|i, j| a.a[i][j] / s), &d);
        let mut t = am.clone(); expect_inplace(st, "add_assign(s)", &mut t, |m| *m += s, &map(&|i, j| a.a[i][j] + s), &d);
        let mut t = am.clone(); expect_inplace(st, "sub_assign(s)", &mut t, |m| *m -= s, &map(&|i, j| a.a[i][j] - s), &d);
        expect_mat(st, "transpose", catch(|| am.transpose()), &a.transpose(), &d);
        let mut t = am.clone(); expect_inplace(st, "transpose_in_place", &mut t, |m| m.transpose_in_place(), &a.transpose(), &d);
        expect_mat(st, "clone", catch(|| am.clone()), &a, &d);
        expect_mat(st, "new", catch(|| M::new(r, c, s)), &DM::new(r, c, s), &d);
        if r == c { expect_mat(st, "eye", catch(|| M::eye(r)), &DM::eye(r), &d); }
        let mut t = am.clone(); expect_inplace(st, "clear", &mut t, |m| m.clear(), &DM::new(0, 0, Rat::ZERO), &d);
        let mut t = am.clone(); expect_inplace(st, "fill", &mut t, |m| m.fill(s), &DM::new(r, c, s), &d);
        let mut t = am.clone(); expect_inplace(st, "fill_diag", &mut t, |m| m.fill_diag(s), &map(&|i, j| if i == j { s } else { a.a[i][j] }), &d);
        let (lo, di, up) = (rval(rng), rval(rng), rval(rng));
        let mut t = am.clone(); expect_inplace(st, "fill_tridiag", &mut t, |m| m.fill_tridiag(lo, di, up), &map(&|i, j| if i == j { di } else if i == j + 1 { lo } else if i + 1 == j { up } else { a.a[i][j] }), &d);
        // (plus offsets at the ends of the isize range: a band wholly outside the matrix is a legal no-op; isize::MAX only where
        //  row + offset cannot overflow, i.e. for at most one row)
        let mut offs: Vec<isize> = (-(r as isize) - 1..=(c as isize) + 1).collect();
        offs.extend([isize::MIN, isize::MIN + 7, -(1isize << 62)]);
        if r <= 1 { offs.extend([isize::MAX, isize::MAX - 3]); }
        for off in offs {
            let mut t = am.clone();
            expect_inplace(st, "fill_band", &mut t, |m| m.fill_band(off, s), &map(&|i, j| if j as isize - i as isize == off { s } else { a.a[i][j] }), &|| format!("offset={} {}", off, d()));
        }
        for i in 0..r {
            expect_vec(st, "get_row", catch(|| am.get_row(i)), &a.a[i], &|| format!("row={} {}", i, d()));
            let v = rand_vec(rng, c);
            let mut t = am.clone(); expect_inplace(st, "set_row", &mut t, |m| m.set_row(i, vec_to_ohsl(&v)), &map(&|p, q| if p == i { v[q] } else { a.a[p][q] }), &|| format!("row={} v={:?} {}", i, v, d()));
            let mut t = am.clone(); expect_inplace(st, "fill_row", &mut t, |m| m.fill_row(i, s), &map(&|p, q| if p == i { s } else { a.a[p][q] }), &|| format!("row={} {}", i, d()));
            let mut t = am.clone();
            let mut w = a.clone(); w.a.remove(i); w.r -= 1;
            expect_inplace(st, "delete_row", &mut t, |m| m.delete_row(i), &w, &|| format!("row={} {}", i, d()));
            for i2 in 0..r {
                let mut t = am.clone(); let mut w = a.clone(); w.a.swap(i, i2);
                expect_inplace(st, "swap_rows", &mut t, |m| m.swap_rows(i, i2), &w, &|| format!("rows=({},{}) {}", i, i2, d()));
            }
        }
        for j in 0..c {
            let col: Vec<Rat> = (0..r).map(|i| a.a[i][j]).collect();
            expect_vec(st, "get_col", catch(|| am.get_col(j)), &col, &|| format!("col={} {}", j, d()));
            let v = rand_vec(rng, r);
            let mut t = am.clone(); expect_inplace(st, "set_col", &mut t, |m| m.set_col(j, vec_to_ohsl(&v)), &map(&|p, q| if q == j { v[p] } else { a.a[p][q] }), &|| format!("col={} v={:?} {}", j, v, d()));
            let mut t = am.clone(); expect_inplace(st, "fill_col", &mut t, |m| m.fill_col(j, s), &map(&|p, q| if q == j { s } else { a.a[p][q] }), &|| format!("col={} {}", j, d()));
        }
        if r > 0 && c > 0 {
            let (i1, j1, i2, j2) = (rng.usize(0, r - 1), rng.usize(0, c - 1), rng.usize(0, r - 1), rng.usize(0, c - 1));
            let mut t = am.clone(); let mut w = a.clone(); let tmp = w.a[i1][j1]; w.a[i1][j1] = w.a[i2][j2]; w.a[i2][j2] = tmp;
            expect_inplace(st, "swap_elem", &mut t, |m| m.swap_elem(i1, j1, i2, j2), &w, &|| format!("({},{})<->({},{}) {}", i1, j1, i2, j2, d()));
        }
        st.count(&format!("shape:{}x{}", r, c));
        st.nontrivial(hmix(hmix(hash_str("shape"), (r * 10 + c) as u64), rng.u64()));
    }
    // resize to every target shape
    st.next_case();
    let a = rand_dm(rng, r, c);
    for r2 in 0..=8usize { for c2 in 0..=8usize {
        let mut t = a.to_ohsl();
        let w = DM::from_fn(r2, c2, |i, j| if i < r && j < c { a.a[i][j] } else { Rat::ZERO });
        expect_inplace(st, "resize", &mut t, |m| m.resize(r2, c2), &w, &|| format!("to {}x{} A={}", r2, c2, a.show()));
    } }
}

fn history(st: &mut Stats, rng: &mut Rng) {
    st.next_case();
    let (r0, c0) = (rng.usize(0, 6), rng.usize(0, 6));
    let mut d = rand_dm(rng, r0, c0);
    let mut m = d.to_ohsl();
    let steps = rng.usize(5, 40);
    let mut log: Vec<String> = vec![format!("start {}", d.show())];
    let mut h = hash_str("hist");
    for _ in 0..steps {
        let (r, c) = (d.r, d.c);
        let op = rng.below(26);
        h = hmix(h, op);
        let s = rnz(rng);
        let before = d.clone();
        let name: String;
        let ok: bool;
        macro_rules! inplace { ($n:expr, $f:expr) => {{ name = $n; let l = log.clone(); let nm = name.clone(); ok = expect_inplace(st, &format!("history:{}", nm.split('(').next().unwrap()), &mut m, $f, &d, &|| format!("step {} after history {:?}", nm, l)); }}; }
        match op {
            0 if r > 0 => { let i = rng.usize(0, r - 1); let v = rand_vec(rng, c); d.a[i] = v.clone(); inplace!(format!("set_row({},{:?})", i, v), |m: &mut M| m.set_row(i, vec_to_ohsl(&v))); }
            1 if c > 0 => { let j = rng.usize(0, c - 1); let v = rand_vec(rng, r); for i in 0..r { d.a[i][j] = v[i]; } inplace!(format!("set_col({},{:?})", j, v), |m: &mut M| m.set_col(j, vec_to_ohsl(&v))); }
            2 if r > 0 => { let (i, k) = (rng.usize(0, r - 1), rng.usize(0, r - 1)); d.a.swap(i, k); inplace!(format!("swap_rows({},{})", i, k), |m: &mut M| m.swap_rows(i, k)); }
            3 if r > 0 => { let i = rng.usize(0, r - 1); d.a.remove(i); d.r -= 1; inplace!(format!("delete_row({})", i), |m: &mut M| m.delete_row(i)); }
            4 => { for row in d.a.iter_mut() { for v in row.iter_mut() { *v = s; } } inplace!(format!("fill({:?})", s), |m: &mut M| m.fill(s)); }
            5 => { for i in 0..r.min(c) { d.a[i][i] = s; } inplace!(format!("fill_diag({:?})", s), |m: &mut M| m.fill_diag(s)); }
            6 => { let off = rng.int(-(r as i64) - 1, c as i64 + 1) as isize; for i in 0..r { for j in 0..c { if j as isize - i as isize == off { d.a[i][j] = s; } } } inplace!(format!("fill_band({},{:?})", off, s), |m: &mut M| m.fill_band(off, s)); }
            7 => { let (lo, up) = (rval(rng), rval(rng)); for i in 0..r { for j in 0..c { if i == j { d.a[i][j] = s; } else if i == j + 1 { d.a[i][j] = lo; } else if i + 1 == j { d.a[i][j] = up; } } } inplace!(format!("fill_tridiag({:?},{:?},{:?})", lo, s, up), |m: &mut M| m.fill_tridiag(lo, s, up)); }
            8 if r > 0 => { let i = rng.usize(0, r - 1); for j in 0..c { d.a[i][j] = s; } inplace!(format!("fill_row({},{:?})", i, s), |m: &mut M| m.fill_row(i, s)); }
            9 if c > 0 => { let j = rng.usize(0, c - 1); for i in 0..r { d.a[i][j] = s; } inplace!(format!("fill_col({},{:?})", j, s), |m: &mut M| m.fill_col(j, s)); }
            10 => { let (r2, c2) = (rng.usize(0, 7), rng.usize(0, 7)); d = DM::from_fn(r2, c2, |i, j| if i < r && j < c { before.a[i][j] } else { Rat::ZERO }); inplace!(format!("resize({},{})", r2, c2), |m: &mut M| m.resize(r2, c2)); }
            11 => { d = before.transpose(); inplace!("transpose_in_place()".to_string(), |m: &mut M| m.transpose_in_place()); }
            12 | 13 => { let o = rand_dm(rng, r, c); let om = o.to_ohsl(); for i in 0..r { for j in 0..c { d.a[i][j] = if op == 12 { d.a[i][j] + o.a[i][j] } else { d.a[i][j] - o.a[i][j] }; } }
                if op == 12 { inplace!(format!("add_assign({})", o.show()), |m: &mut M| *m += &om); } else { inplace!(format!("sub_assign({})", o.show()), |m: &mut M| *m -= &om); } }
            14 => { let sm = Rat::int(rng.int(-2, 2)); for row in d.a.iter_mut() { for v in row.iter_mut() { *v = *v * sm; } } inplace!(format!("mul_assign({:?})", sm), |m: &mut M| *m *= sm); }
            15 => { let sd = Rat::int(if rng.bool() { 2 } else { -1 }); for row in d.a.iter_mut() { for v in row.iter_mut() { *v = *v / sd; } } inplace!(format!("div_assign({:?})", sd), |m: &mut M| *m /= sd); }
            16 => { for row in d.a.iter_mut() { for v in row.iter_mut() { *v = *v + s; } } inplace!(format!("add_assign_scalar({:?})", s), |m: &mut M| *m += s); }
            17 => { for row in d.a.iter_mut() { for v in row.iter_mut() { *v = *v - s; } } inplace!(format!("sub_assign_scalar({:?})", s), |m: &mut M| *m -= s); }
            18 if r > 0 && c > 0 => { let (i, j) = (rng.usize(0, r - 1), rng.usize(0, c - 1)); d.a[i][j] = s; inplace!(format!("index_write(({},{}),{:?})", i, j, s), |m: &mut M| m[(i, j)] = s); }
            19 if r > 0 && c > 0 => { let (i1, j1, i2, j2) = (rng.usize(0, r - 1), rng.usize(0, c - 1), rng.usize(0, r - 1), rng.usize(0, c - 1)); let t = d.a[i1][j1]; d.a[i1][j1] = d.a[i2][j2]; d.a[i2][j2] = t; inplace!(format!("swap_elem({},{},{},{})", i1, j1, i2, j2), |m: &mut M| m.swap_elem(i1, j1, i2, j2)); }
            20 => { let c2 = rng.usize(0, 5); let mut o = DM::from_fn(c, c2, |_, _| Rat::int(rng.int(-2, 2))); if rng.bool() && c == c2 { o = DM::eye(c); }
                match catch(|| before.mul(&o)) { Outcome::Ok(p) => { d = p; } _ => { st.count("skipped:rat-overflow"); break; } }
                let om = o.to_ohsl(); inplace!(format!("assign_product({})", o.show()), |m: &mut M| { let p = &*m * &om; *m = p; }); }
            21 => { d = before.transpose(); inplace!("assign_transpose()".to_string(), |m: &mut M| { let t = m.transpose(); *m = t; }); }
            22 => { if rng.chance(0.2) { d = DM::new(0, 0, Rat::ZERO); inplace!("clear()".to_string(), |m: &mut M| m.clear()); } else { continue; } }
            23 => { for row in d.a.iter_mut() { for v in row.iter_mut() { *v = -*v; } } inplace!("assign_neg()".to_string(), |m: &mut M| { let t = -&*m; *m = t; }); }
            24 if r > 0 => { let i = rng.usize(0, r - 1); let want = d.a[i].clone(); expect_vec(st, "history:get_row", catch(|| m.get_row(i)), &want, &|| format!("get_row({}) after {:?}", i, log)); continue; }
            25 if c > 0 => { let j = rng.usize(0, c - 1); let want: Vec<Rat> = (0..r).map(|i| d.a[i][j]).collect(); expect_vec(st, "history:get_col", catch(|| m.get_col(j)), &want, &|| format!("get_col({}) after {:?}", j, log)); continue; }
            _ => continue,
        }
        log.push(name);
        st.count("history-steps");
        st.set_insert("history-shapes", format!("{}x{}", d.r, d.c));
        if !ok { break; }
    }
    st.count("histories");
    st.nontrivial(hmix(h, rng.u64()));
    if log.len() > 8 { st.sample(|| format!("history {:?}", log)); }
}

/// The library declares its arithmetic for every primitive integer type as well (traits.rs: Number for usize u8 ... i64).
/// Operations whose textbook result is representable must deliver it - no detour through values that are not (0 - s in an
/// unsigned type). Visible as a wrong value, or as an arithmetic-overflow panic in the `checked` profile.
fn integer_types<T>(st: &mut Stats, rng: &mut Rng, name: &str, of: impl Fn(u64) -> T, to: impl Fn(T) -> u64)
where T: Copy + ohsl::Number + PartialEq + std::fmt::Debug + 'static {
    st.next_case();
    let (r, c) = (rng.usize(0, 4), rng.usize(0, 4));
    let s = rng.int(1, 3) as u64;
    let a: Vec<Vec<u64>> = (0..r).map(|_| (0..c).map(|_| rng.int(3, 9) as u64).collect()).collect();
    let b: Vec<Vec<u64>> = (0..r).map(|_| (0..c).map(|_| rng.int(0, 3) as u64).collect()).collect();
    let mk = |d: &Vec<Vec<u64>>| { let mut m = Matrix::<T>::new(r, c, of(0)); for i in 0..r { for j in 0..c { m[(i, j)] = of(d[i][j]); } } m };
    let (ma, mb) = (mk(&a), mk(&b));
    let desc = || format!("T={} A={:?} B={:?} s={}", name, a, b, s);
    let mut chk = |st: &mut Stats, op: &str, out: Outcome<Matrix<T>>, f: &dyn Fn(usize, usize) -> u64| {
        st.eval();
        match out {
            Outcome::Ok(m) => { if m.rows() != r || m.cols() != c || (0..r).any(|i| (0..c).any(|j| to(m[(i, j)]) != f(i, j))) { st.violation(&format!("C03:{}:{}:wrong-result", op, name), format!("{} gives a wrong entry or shape; {}", op, desc())); } }
            o => st.violation(&format!("C03:{}:{}:refused-representable", op, name), format!("{} {} although every entry of the result is representable; {}", op, o.describe(), desc())),
        }
    };
    chk(st, "add(&M,&M)", catch(|| &ma + &mb), &|i, j| a[i][j] + b[i][j]);
    chk(st, "sub(&M,&M)", catch(|| &ma - &mb), &|i, j| a[i][j] - b[i][j]);
    chk(st, "sub(M,M)", catch(|| ma.clone() - mb.clone()), &|i, j| a[i][j] - b[i][j]);
    chk(st, "mul(&M,s)", catch(|| &ma * of(s)), &|i, j| a[i][j] * s);
    chk(st, "div(&M,s)", catch(|| &(&ma * of(s)) / of(s)), &|i, j| a[i][j]);
    chk(st, "add_assign(s)", catch(|| { let mut m = ma.clone(); m += of(s); m }), &|i, j| a[i][j] + s);
    chk(st, "sub_assign(s)", catch(|| { let mut m = ma.clone(); m -= of(s); m }), &|i, j| a[i][j] - s);
    chk(st, "mul_assign(s)", catch(|| { let mut m = ma.clone(); m *= of(s); m }), &|i, j| a[i][j] * s);
    chk(st, "add_assign(&M)", catch(|| { let mut m = ma.clone(); m += &mb; m }), &|i, j| a[i][j] + b[i][j]);
    chk(st, "sub_assign(&M)", catch(|| { let mut m = ma.clone(); m -= &mb; m }), &|i, j| a[i][j] - b[i][j]);
    chk(st, "sub_assign(M)", catch(|| { let mut m = ma.clone(); m -= mb.clone(); m }), &|i, j| a[i][j] - b[i][j]);
    // product with the transposed B (entries <= 9*3*4 = 108: fits u8)
    st.eval();
    match catch(|| &ma * &mb.transpose()) {
        Outcome::Ok(m) => { if m.rows() != r || m.cols() != r || (0..r).any(|i| (0..r).any(|j| to(m[(i, j)]) != (0..c).map(|k| a[i][k] * b[j][k]).sum::<u64>())) { st.violation(&format!("C03:mul(&M,&M):{}:wrong-result", name), format!("A*B^T wrong; {}", desc())); } }
        o => st.violation(&format!("C03:mul(&M,&M):{}:refused-representable", name), format!("A*B^T {}; {}", o.describe(), desc())),
    }
    st.count(&format!("integer-type-cases:{}", name));
    st.nontrivial(hmix(hash_str(name), rng.u64()));
}

/// calls that a later, unrelated call must not feel: norms of matrices whose column sums overflow, that hold NaN / inf /
/// -0.0 / subnormals, of extreme shapes; results are not judged here (the exact checks that follow on the same thread are)
fn hostile_interlude(st: &mut Stats, rng: &mut Rng) {
    let (r, c) = (rng.usize(1, 6), rng.usize(1, 9));
    let mut m = Matrix::<f64>::new(r, c, 0.0);
    for i in 0..r { for j in 0..c { m[(i, j)] = match rng.below(8) { 0 => 1e308, 1 => -1e308, 2 => f64::NAN, 3 => f64::INFINITY, 4 => -0.0, 5 => 5e-324, 6 => 1.7e308, _ => rng.sym() }; } }
    if rng.bool() { let j = rng.usize(0, c - 1); for i in 0..r { m[(i, j)] = if i % 2 == 0 { 1e308 } else { -1e308 }; } }
    for k in 0..6 { let _ = catch(|| match k { 0 => m.norm_1(), 1 => m.norm_inf(), 2 => m.norm_max(), 3 => m.norm_frob(), 4 => m.norm_p(3.0), _ => m.norm_p(1.0) }); }
    let _ = catch(|| (&m * &m.transpose()).norm_1());
    let _ = catch(|| Matrix::<f64>::new(0, 3, 1.0).norm_1());
    st.count("hostile-interludes");
}

fn norms(st: &mut Stats, rng: &mut Rng) {
    st.next_case();
    if rng.chance(0.15) { hostile_interlude(st, rng); }
    let (r, c) = (rng.usize(0, 8), rng.usize(0, 8));
    let a: Vec<Vec<f64>> = (0..r).map(|_| (0..c).map(|_| rng.int(-20, 20) as f64 * if rng.chance(0.3) { 0.5 } else { 1.0 }).collect()).collect();
    let m = { let mut m = Matrix::<f64>::new(r, c, 0.0); for i in 0..r { for j in 0..c { m[(i, j)] = a[i][j]; } } m };
    let d = || format!("A={:?} ({}x{})", a, r, c);
    let col_sums: Vec<f64> = (0..c).map(|j| (0..r).map(|i| a[i][j].abs()).sum()).collect();
    let row_sums: Vec<f64> = (0..r).map(|i| (0..c).map(|j| a[i][j].abs()).sum()).collect();
    let mx = |v: &[f64]| v.iter().fold(0.0f64, |p, q| p.max(*q));
    let exact = |st: &mut Stats, name: &str, got: Outcome<f64>, want: f64| {
        st.eval();
        match got { Outcome::Ok(g) => if g != want { st.violation(&format!("C03:{}:wrong-value", name), format!("{} = {:e} expected {:e}; {}", name, g, want, d())); },
                    o => st.violation(&format!("C03:{}:panic", name), format!("{} {}; {}", name, o.describe(), d())) }
    };
    exact(st, "norm_1", catch(|| m.norm_1()), mx(&col_sums));
    exact(st, "norm_inf", catch(|| m.norm_inf()), mx(&row_sums));
    exact(st, "norm_max", catch(|| m.norm_max()), a.iter().flatten().fold(0.0f64, |p, q| p.max(q.abs())));
    let tol = 16.0 * (r * c + 2) as f64 * U;
    for p in [1.0, 2.0, 3.0, 2.5, 8.0] {
        let s: f64 = a.iter().flatten().map(|v| v.abs().powf(p)).sum();
        let want = if p == 2.0 { a.iter().flatten().map(|v| v * v).sum::<f64>().sqrt() } else { s.powf(1.0 / p) };
        st.eval();
        match catch(|| m.norm_p(p)) {
            Outcome::Ok(g) => { let e = if want == 0.0 { g.abs() } else { ((g - want) / want).abs() }; st.max("norm_p_relerr_over_tol", e / tol); if !(e <= tol) { st.violation("C03:norm_p:wrong-value", format!("norm_p({}) = {:e} expected {:e}; {}", p, g, want, d())); } }
            o => st.violation("C03:norm_p:panic", format!("norm_p({}) {}; {}", p, o.describe(), d())),
        }
    }
    // very large finite p on a matrix of 0 / +-1 entries: the definition is computable, (count of non-zeros)^(1/p), and is
    // NOT yet the max norm (64^(1/4096) = 1.001)
    {
        let (r1, c1) = (rng.usize(1, 8), rng.usize(1, 8));
        let mut m1 = Matrix::<f64>::new(r1, c1, 0.0);
        let mut cnt = 0.0f64;
        for i in 0..r1 { for j in 0..c1 { let v = *rng.pick(&[0.0, 1.0, -1.0, 1.0]); m1[(i, j)] = v; if v != 0.0 { cnt += 1.0; } } }
        for p in [64.0, 1000.0, 1024.0, 4096.0, 1.0e5] {
            let want = if cnt == 0.0 { 0.0 } else { cnt.powf(1.0 / p) };
            st.eval();
            match catch(|| m1.norm_p(p)) {
                Outcome::Ok(g) => if !((g - want).abs() <= 1e-12 * want.max(1.0)) { st.violation("C03:norm_p:wrong-value", format!("norm_p({}) = {:?} but a {}x{} matrix with {} entries +-1 (rest 0) has p-norm {}^(1/p) = {:?}", p, g, r1, c1, cnt, cnt, want)); },
                o => st.violation("C03:norm_p:panic", format!("norm_p({}) {} on a {}x{} 0/+-1 matrix", p, o.describe(), r1, c1)),
            }
        }
    }
    let want = a.iter().flatten().map(|v| v * v).sum::<f64>().sqrt();
    st.eval();
    match catch(|| m.norm_frob()) { Outcome::Ok(g) => { let e = if want == 0.0 { g.abs() } else { ((g - want) / want).abs() }; if !(e <= tol) { st.violation("C03:norm_frob:wrong-value", format!("norm_frob = {:e} expected {:e}; {}", g, want, d())); } } o => st.violation("C03:norm_frob:panic", format!("{}; {}", o.describe(), d())) }
    // f64 * Matrix<f64>
    let s = rng.int(-8, 8) as f64 * 0.5;
    st.eval();
    match catch(|| s * m.clone()) {
        Outcome::Ok(p) => { let okk = p.rows() == r && p.cols() == c && (0..r).all(|i| (0..c).all(|j| p[(i, j)] == a[i][j] * s)); if !okk { st.violation("C03:f64*M:wrong-result", format!("s={} {}", s, d())); } }
        o => st.violation("C03:f64*M:panic", format!("{}; {}", o.describe(), d())),
    }
    // scalar division on exactly divisible data with a non-dyadic divisor: every quotient is exactly representable,
    // so the textbook result is bit-exact; `&m / s`, `m / s` and `m /= s` must all give it
    let dv = *rng.pick(&[3.0, 7.0, 49.0, 10.0, 11.0, -49.0, 98.0]);
    let kq: Vec<Vec<f64>> = (0..r).map(|_| (0..c).map(|_| rng.int(-60, 60) as f64).collect()).collect();
    let mq = { let mut m = Matrix::<f64>::new(r, c, 0.0); for i in 0..r { for j in 0..c { m[(i, j)] = kq[i][j] * dv; } } m };
    let okq = |p: &Matrix<f64>| p.rows() == r && p.cols() == c && (0..r).all(|i| (0..c).all(|j| p[(i, j)] == kq[i][j]));
    for (name, out) in [("div(&M,s)", catch(|| &mq / dv)), ("div(M,s)", catch(|| mq.clone() / dv)), ("div_assign(s)", catch(|| { let mut t = mq.clone(); t /= dv; t }))] {
        st.eval();
        match out { Outcome::Ok(p) => if !okq(&p) { st.violation(&format!("C03:{}:f64:inexact-on-exact-data", name), format!("entries k*{} divided by {} are not the integers k={:?}", dv, dv, kq)); }, o => st.violation(&format!("C03:{}:f64:panic", name), o.describe()) }
    }
    // norms of entries spread over 200 decades with mixed signs (all norms representable): finite and ordered
    if r * c > 0 {
        let wide: Vec<Vec<f64>> = (0..r).map(|_| (0..c).map(|_| (if rng.bool() { 1.0 } else { -1.0 }) * 10f64.powi(rng.int(-100, 100) as i32)).collect()).collect();
        let mw = { let mut m = Matrix::<f64>::new(r, c, 0.0); for i in 0..r { for j in 0..c { m[(i, j)] = wide[i][j]; } } m };
        let mxw = wide.iter().flatten().fold(0.0f64, |p, q| p.max(q.abs()));
        let s1: f64 = wide.iter().flatten().map(|v| v.abs()).sum();
        st.eval();
        match catch(|| (mw.norm_frob(), mw.norm_max())) {
            Outcome::Ok((f, mx)) => if !(f.is_finite() && f >= mxw * (1.0 - 1e-12) && f <= s1 * (1.0 + 1e-12) && mx == mxw) { st.violation("C03:norm_frob:wide-range", format!("norm_frob = {:e}, norm_max = {:e} but max|a| = {:e}, sum|a| = {:e}; A={:?}", f, mx, mxw, s1, wide)); },
            o => st.violation("C03:norm_frob:panic", o.describe()),
        }
    }
    // entrywise norms at uniformly extreme magnitudes (every norm is representable): compared with the same norm of the
    // matrix rescaled by an exact power of two
    if r * c > 0 {
        let e = *rng.pick(&[130i32, -130, 400, -400, 60, -60]);
        let base: Vec<Vec<f64>> = (0..r).map(|_| (0..c).map(|_| rng.int(-9, 9) as f64).collect()).collect();
        let mk = |sc: f64| { let mut m = Matrix::<f64>::new(r, c, 0.0); for i in 0..r { for j in 0..c { m[(i, j)] = base[i][j] * sc; } } m };
        let (m0, m1) = (mk(1.0), mk(2f64.powi(e)));
        for pnorm in [1.0, 2.0, 3.0, 2.5] {
            st.eval();
            if let (Outcome::Ok(n0), o) = (catch(|| m0.norm_p(pnorm)), catch(|| m1.norm_p(pnorm))) {
                let want = n0 * 2f64.powi(e);
                // p*|e| beyond the exponent range makes the naive sum over/underflow: the textbook value still exists, but
                // the property's "textbook definition" is only demanded here where the direct formula is representable
                let representable = (pnorm * e.abs() as f64) < 900.0;
                if representable { match o { Outcome::Ok(n1) => if !(((n1 - want) / want.max(f64::MIN_POSITIVE)).abs() <= tol || (want == 0.0 && n1 == 0.0)) { st.violation("C03:norm_p:extreme-magnitude", format!("norm_p({}) of A*2^{} = {:e}, of A times 2^{} = {:e}; A={:?}", pnorm, e, n1, e, want, base)); }, oo => st.violation("C03:norm_p:panic", oo.describe()) } }
            }
        }
    }
    st.count("norm-cases");
    if r * c > 1 { st.nontrivial(hmix(hash_str("norm"), a.iter().flatten().fold(0u64, |h, v| hmix(h, v.to_bits())))); }
}

pub fn run(ctx: &Ctx) -> Report {
    let nprod = 9u64 * 9 * 9;
    let nshape = 81u64;
    let nhist = ctx.vol(12_000, 1_500_000);
    let nnorm = ctx.vol(1000, 50_000);
    let reps = if ctx.quick() { 20 } else { 1000 };
    // long shapes (9..40 rows/columns, every residue modulo 4, 8 and 16 on both sides): blocked or unrolled loops with a
    // remainder must not depend on the size being small
    let nbig = ctx.vol(320, 20_000);
    let stats = par_run(ctx, TAG, nprod + nshape + nhist + nnorm + nbig, |u, rng, st| {
        if u >= nprod + nshape + nhist + nnorm {
            let (r, c) = (rng.usize(9, 40), rng.usize(9, 40));
            shape_ops(st, rng, r, c);
            let (r, k, c) = (rng.usize(9, 24), rng.usize(9, 24), rng.usize(9, 24));
            products(st, rng, r, k, c);
            st.count("long-shape-units(9..40)");
            return;
        }
        if u < nprod { let (r, k, c) = ((u / 81) as usize, ((u / 9) % 9) as usize, (u % 9) as usize); for _ in 0..reps { products(st, rng, r, k, c); } }
        else if u < nprod + nshape { let v = u - nprod; for _ in 0..reps { shape_ops(st, rng, (v / 9) as usize, (v % 9) as usize); } }
        else if u < nprod + nshape + nhist { for _ in 0..10 { history(st, rng); } }
        else {
            for _ in 0..40 { norms(st, rng); }
            for _ in 0..4 {
                integer_types::<u8>(st, rng, "u8", |v| v as u8, |v| v as u64);
                integer_types::<u32>(st, rng, "u32", |v| v as u32, |v| v as u64);
                integer_types::<usize>(st, rng, "usize", |v| v as usize, |v| v as u64);
                integer_types::<i8>(st, rng, "i8", |v| v as i8, |v| v as u64);
                integer_types::<i64>(st, rng, "i64", |v| v as i64, |v| v as u64);
            }
        }
    });
    let mut rep = Report::new(stats,
        "[round 6: plus long shapes, the whole shape_ops battery on r,c in 9..40 and products on r,k,c in 9..24] exhaustive shapes: A(r x k)*B(k x c) and A*v for all (r,k,c) in [0,8]^3; all unary/binary operators, compound assignments, transpose (both), eye, clone, new, clear, fills (every band offset -r-1..c+1), get/set/fill row/col for every index, swap_rows every pair, delete_row every row, resize to every (r',c') in [0,8]^2 for all (r,c) in [0,8]^2, random Rat entries (60 draws quick, 3000 thorough); random histories (<=40 steps of 26 editing operations) in lock step with a Vec<Vec<Rat>> model comparing shape, every entry, numel and private storage length after every step; f64 norms on integer/half-integer data. Every case is non-trivial (a judged operation on generic data); distinct = distinct (shape, draw) hashes");
    rep.assumptions = vec!["only conformable/in-range calls are made here (mismatches belong to C20)".into(), "integer element types (u8,u32,usize,i8,i64: the library declares Number for them): only operations whose textbook result is representable; an overflow on the way is visible as a panic in the checked profile and as a wrong value otherwise".into(), "hostile interludes (norms of matrices with overflowing column sums, NaN, inf, subnormals) run on the monitor threads between judged cases: state left behind by one call must not reach a later one".into(), "norm_p/norm_frob relative tolerance 16*(r*c+2)*u; norm_1/inf/max exact on this data".into()];
    rep.min_nontrivial = 1000;
    rep.exhaustive = false;
    rep.extra.set("exhaustive_parts", crate::json::J::Arr(vec![crate::json::J::s("product shapes (r,k,c) in [0,8]^3"), crate::json::J::s("operator/editing shapes (r,c) in [0,8]^2 with every index/offset/target shape")]));
    rep
}
