//! C13 — Complex arithmetic is exact field arithmetic; operator variants / ordering agree.
//!
//! Oracles
//! * `Complex<Rat>` (the real generic operator code instantiated at the harness' exact rationals):
//!   every operator impl, `conj`, `abs_sqr`, `zero`, `one`, `==`, `partial_cmp` against independently
//!   coded field formulae on (re,im) pairs (multiplication via the 3-multiplication identity, division via
//!   the inverse w^-1 = conj(w)/|w|^2 and the back-check q*w == z) — exact equality; field axioms on triples.
//! * `Complex<f64>`, components 0 or of magnitude 1e-100..1e100: results against the exact value held as
//!   TwoProd/double-double expansions (oracle error ~1e-31, negligible): normwise error <= TOL_MUL*u for `*`,
//!   <= TOL_DIV*u for `/`; bit-exact components for neg/conj/+/-/mixed +,-; <= TOL_SCALAR*u componentwise for
//!   mixed *,/ ; abs_sqr/abs/arg to a few u. Small dyadic operands are additionally compared with the
//!   *rational* result (computed over Rat) rounded to f64 — there `*` must be exact and `/` correctly rounded.
//! * bit identity (`to_bits`) of each of the 8 compound-assignment forms with its binary form, and of
//!   `f64 * z` with `z * f64`.
//! * ordering: `partial_cmp` equals an independently coded lexicographic model, the six comparison operators
//!   are consistent with it (exactly one of <,=,>), antisymmetric, transitive on triples.
use crate::fl::{hexf, DD, U};
use crate::json::J;
use crate::mon::common::*;
use crate::rat::Rat;
use crate::rng::Rng;
use crate::run::{catch, par_run, Ctx, Outcome, Report, Stats};
use ohsl::{Cmplx, Complex, Number, One, Zero};
use std::cmp::Ordering;
use std::fmt::Debug;

const TAG: u64 = 0xC13;

// ---- fixed tolerances (units of u = 2^-53) -------------------------------------------------
// The operators are straight-line IEEE-754 formulae, so (absent overflow/underflow, which the operand-range
// certificate excludes) their error has an a-priori *proven* bound. The tolerances below are the values fixed in
// DESIGN.md ("a few ulps"): about 2x the proven bound, hence never a false alarm, while any wrong formula
// (sign, operand, dropped term) gives errors of order 1/u. Measured worst on the unchanged tree (thorough,
// 3.1e9 evaluations): mul 2.00, div 4.12, scalar mul/div 1.00, abs_sqr 1.98, abs 1.94, arg 2.70 (all in u).
/// normwise |fl(z*w) - z*w| / (|z||w|); rigorous bound of the textbook formula is sqrt(5) u (Brent/Percival/Zimmermann)
const TOL_MUL: f64 = 4.0;
/// normwise |fl(z/w) - z/w| / |z/w|; first-order bound of the textbook formula is (sqrt(5)+3) u
const TOL_DIV: f64 = 12.0;
/// componentwise relative error of (a*r, b*r) and (a/r, b/r); one rounding each => 1 u
const TOL_SCALAR: f64 = 2.0;
/// relative error of a*a+b*b (three roundings, no cancellation => 2 u)
const TOL_ABSSQR: f64 = 3.0;
/// relative error of sqrt(fl(a*a+b*b)) (=> 2 u)
const TOL_ABS: f64 = 4.0;
/// |Im(z * exp(-i arg z))| / |z|: first-order estimate atan2 (<= 1 ulp(pi) = 4u) + sin/cos (<= 1u each) + roundings
/// ~ 6u, but it depends on the platform libm, so this one follows the empirical rule: >= 2 orders of magnitude
/// over the measured worst (2.7 u). A wrong formula (e.g. swapped atan2 arguments) gives O(1/u).
const TOL_ARG: f64 = 512.0;

type P = (Rat, Rat);
type CQ = Complex<Rat>;

fn cq(p: P) -> CQ { Complex::new(p.0, p.1) }
fn pq(z: &CQ) -> P { (z.real, z.imag) }

// ---- independent field model on (re, im) pairs ---------------------------------------------
fn m_add(p: P, q: P) -> P { (p.0 + q.0, p.1 + q.1) }
fn m_neg(p: P) -> P { (Rat::ZERO - p.0, Rat::ZERO - p.1) }
fn m_sub(p: P, q: P) -> P { m_add(p, m_neg(q)) }
fn m_conj(p: P) -> P { (p.0, Rat::ZERO - p.1) }
/// 3-multiplication form: re = ac - bd, im = (a+b)(c+d) - ac - bd
fn m_mul(p: P, q: P) -> P {
    let k1 = p.0 * q.0;
    let k2 = p.1 * q.1;
    let k3 = (p.0 + p.1) * (q.0 + q.1);
    (k1 - k2, k3 - k1 - k2)
}
fn m_norm(p: P) -> Rat { p.0 * p.0 + p.1 * p.1 }
/// z / w = z * (conj(w) / |w|^2); None when w == 0 (behaviour undefined by the property)
fn m_div(p: P, q: P) -> Option<P> {
    let n = m_norm(q);
    if n.is_zero() { return None; }
    let inv = (q.0 / n, (Rat::ZERO - q.1) / n);
    Some(m_mul(p, inv))
}
fn m_lex(p: P, q: P) -> Ordering {
    if p.0 < q.0 { Ordering::Less } else if q.0 < p.0 { Ordering::Greater }
    else if p.1 < q.1 { Ordering::Less } else if q.1 < p.1 { Ordering::Greater }
    else { Ordering::Equal }
}

struct ModelQ {
    add: P, sub: P, mul: P, div: Option<P>, neg: P, conj: P, abs_sqr: Rat,
    addr: P, subr: P, mulr: P, divr: Option<P>, ord: Ordering, eq: bool,
}

/// Judge a library result of type Complex<Rat> against the model value.
/// `exp == None`: behaviour undefined (division by zero) — everything accepted.
fn chk_q(st: &mut Stats, site: &str, out: Outcome<CQ>, exp: Option<P>, desc: &dyn Fn() -> String) -> Option<P> {
    st.eval();
    let e = match exp { Some(e) => e, None => { st.count("undefined:exact-division-by-zero"); return None; } };
    match out {
        Outcome::Ok(v) => {
            let got = pq(&v);
            if got != e {
                st.violation(&format!("C13:{}:Rat:wrong-value", site), format!("{} returned {:?}, exact value {:?}; {}", site, got, e, desc()));
            }
            Some(got)
        }
        Outcome::Overflow | Outcome::Budget => { st.count("skipped:rat-overflow-in-library"); None }
        other => {
            st.violation(&format!("C13:{}:Rat:refused", site), format!("{} {} where {:?} is defined; {}", site, other.describe(), e, desc()));
            None
        }
    }
}

fn chk_same(st: &mut Stats, site: &str, assign: Option<P>, binary: Option<P>, desc: &dyn Fn() -> String) {
    if let (Some(a), Some(b)) = (assign, binary) {
        if a != b {
            st.violation(&format!("C13:{}:Rat:differs-from-binary", site), format!("{} gave {:?} but binary form gave {:?}; {}", site, a, b, desc()));
        }
    }
}

fn chk_bool(st: &mut Stats, site: &str, ty: &str, out: Outcome<bool>, exp: bool, desc: &dyn Fn() -> String) {
    st.eval();
    match out {
        Outcome::Ok(v) => if v != exp {
            st.violation(&format!("C13:{}:{}:wrong-value", site, ty), format!("{} returned {}, expected {}; {}", site, v, exp, desc()));
        },
        Outcome::Overflow | Outcome::Budget => st.count("skipped:rat-overflow-in-library"),
        other => st.violation(&format!("C13:{}:{}:refused", site, ty), format!("{} {}; {}", site, other.describe(), desc())),
    }
}

/// Equality / ordering of one pair against the model ordering `m` (lexicographic on (re,im)).
/// Returns the library's own `partial_cmp` answer (used for transitivity on triples).
fn judge_order<T>(st: &mut Stats, ty: &str, z: &Complex<T>, w: &Complex<T>, m: Ordering, desc: &dyn Fn() -> String) -> Option<Ordering>
where T: Clone + Number + PartialOrd + Debug {
    st.eval();
    let lib = match catch(|| z.partial_cmp(w)) {
        Outcome::Ok(o) => o,
        Outcome::Overflow | Outcome::Budget => { st.count("skipped:rat-overflow-in-library"); return None; }
        other => { st.violation(&format!("C13:partial_cmp:{}:refused", ty), format!("partial_cmp {}; {}", other.describe(), desc())); return None; }
    };
    if lib != Some(m) {
        st.violation(&format!("C13:partial_cmp:{}:wrong-value", ty), format!("partial_cmp returned {:?}, lexicographic model {:?}; {}", lib, m, desc()));
    }
    st.eval();
    match catch(|| w.partial_cmp(z)) {
        Outcome::Ok(o) => if o != Some(m.reverse()) {
            st.violation(&format!("C13:partial_cmp:{}:not-antisymmetric", ty), format!("cmp(w,z) = {:?} but model cmp(z,w) = {:?}; {}", o, m, desc()));
        },
        Outcome::Overflow | Outcome::Budget => st.count("skipped:rat-overflow-in-library"),
        other => st.violation(&format!("C13:partial_cmp:{}:refused", ty), format!("partial_cmp(w,z) {}; {}", other.describe(), desc())),
    }
    let flags = catch(|| (z < w, z == w, z > w, z <= w, z >= w, z != w));
    st.evals_add(6);
    match flags {
        Outcome::Ok((lt, eq, gt, le, ge, ne)) => {
            let n = lt as u32 + eq as u32 + gt as u32;
            if n != 1 {
                st.violation(&format!("C13:trichotomy:{}:violated", ty), format!("(<,==,>) = ({},{},{}) — not exactly one; {}", lt, eq, gt, desc()));
            }
            let want = (m == Ordering::Less, m == Ordering::Equal, m == Ordering::Greater);
            if (lt, eq, gt) != want || le != (lt || eq) || ge != (gt || eq) || ne == eq {
                st.violation(&format!("C13:comparison-operators:{}:inconsistent", ty),
                    format!("(<,==,>,<=,>=,!=) = ({},{},{},{},{},{}) vs model {:?}; {}", lt, eq, gt, le, ge, ne, m, desc()));
            }
        }
        Outcome::Overflow | Outcome::Budget => st.count("skipped:rat-overflow-in-library"),
        other => st.violation(&format!("C13:comparison-operators:{}:refused", ty), format!("comparison {}; {}", other.describe(), desc())),
    }
    lib
}

fn transitivity(st: &mut Stats, ty: &str, c12: Option<Ordering>, c23: Option<Ordering>, c13: Option<Ordering>, desc: &dyn Fn() -> String) {
    if let (Some(x), Some(y), Some(zz)) = (c12, c23, c13) {
        let implied = if x == y { Some(x) } else if x == Ordering::Equal { Some(y) } else if y == Ordering::Equal { Some(x) } else { None };
        if let Some(i) = implied {
            st.count(&format!("order-triples-with-implication:{}", ty));
            if zz != i {
                st.violation(&format!("C13:transitivity:{}:violated", ty), format!("cmp(1,2)={:?} cmp(2,3)={:?} but cmp(1,3)={:?}; {}", x, y, zz, desc()));
            }
        }
    }
}

fn nontrivial4(a: bool, b: bool, c: bool, d: bool, distinct: bool) -> bool { a && b && c && d && distinct }

fn hq(h: u64, r: Rat) -> u64 { hmix(hmix(h, r.n as u64 ^ ((r.n >> 64) as u64)), r.d as u64 ^ ((r.d >> 64) as u64)) }

/// All operator forms on one exact pair (z, w) and one exact real scalar r.
fn exact_pair(st: &mut Stats, class: &str, z: P, w: P, r: Rat) {
    st.next_case();
    let desc = || format!("T=Rat class={} z={:?} w={:?} r={:?}", class, z, w, r);
    let model = catch(|| ModelQ {
        add: m_add(z, w), sub: m_sub(z, w), mul: m_mul(z, w), div: m_div(z, w), neg: m_neg(z), conj: m_conj(z),
        abs_sqr: m_mul(z, m_conj(z)).0,
        addr: (z.0 + r, z.1), subr: (z.0 - r, z.1), mulr: (z.0 * r, z.1 * r),
        divr: if r.is_zero() { None } else { Some((z.0 / r, z.1 / r)) },
        ord: m_lex(z, w), eq: z.0 == w.0 && z.1 == w.1,
    });
    let m = match model { Outcome::Ok(m) => m, _ => { st.count("skipped:rat-overflow-in-model"); return; } };
    // model self-consistency (q*w == z): a harness fault, never a library verdict
    if let Some(q) = m.div {
        match catch(|| m_mul(q, w)) {
            Outcome::Ok(back) => if back != z { st.harness_errors.push(format!("C13 model division inconsistent: {}", desc())); return; },
            _ => { st.count("skipped:rat-overflow-in-model"); return; }
        }
    }
    // --- binary / unary forms
    chk_q(st, "neg", catch(|| -cq(z)), Some(m.neg), &desc);
    chk_q(st, "conj", catch(|| cq(z).conj()), Some(m.conj), &desc);
    let b_add = chk_q(st, "add", catch(|| cq(z) + cq(w)), Some(m.add), &desc);
    let b_sub = chk_q(st, "sub", catch(|| cq(z) - cq(w)), Some(m.sub), &desc);
    let b_mul = chk_q(st, "mul", catch(|| cq(z) * cq(w)), Some(m.mul), &desc);
    let b_div = chk_q(st, "div", catch(|| cq(z) / cq(w)), m.div, &desc);
    let b_addr = chk_q(st, "add_real", catch(|| cq(z) + r), Some(m.addr), &desc);
    let b_subr = chk_q(st, "sub_real", catch(|| cq(z) - r), Some(m.subr), &desc);
    let b_mulr = chk_q(st, "mul_real", catch(|| cq(z) * r), Some(m.mulr), &desc);
    let b_divr = chk_q(st, "div_real", catch(|| cq(z) / r), m.divr, &desc);
    // --- compound assignment forms: against the model and against the binary form
    let a = chk_q(st, "add_assign", catch(|| { let mut t = cq(z); t += cq(w); t }), Some(m.add), &desc);
    chk_same(st, "add_assign", a, b_add, &desc);
    let a = chk_q(st, "sub_assign", catch(|| { let mut t = cq(z); t -= cq(w); t }), Some(m.sub), &desc);
    chk_same(st, "sub_assign", a, b_sub, &desc);
    let a = chk_q(st, "mul_assign", catch(|| { let mut t = cq(z); t *= cq(w); t }), Some(m.mul), &desc);
    chk_same(st, "mul_assign", a, b_mul, &desc);
    let a = chk_q(st, "div_assign", catch(|| { let mut t = cq(z); t /= cq(w); t }), m.div, &desc);
    chk_same(st, "div_assign", a, b_div, &desc);
    let a = chk_q(st, "add_assign_real", catch(|| { let mut t = cq(z); t += r; t }), Some(m.addr), &desc);
    chk_same(st, "add_assign_real", a, b_addr, &desc);
    let a = chk_q(st, "sub_assign_real", catch(|| { let mut t = cq(z); t -= r; t }), Some(m.subr), &desc);
    chk_same(st, "sub_assign_real", a, b_subr, &desc);
    let a = chk_q(st, "mul_assign_real", catch(|| { let mut t = cq(z); t *= r; t }), Some(m.mulr), &desc);
    chk_same(st, "mul_assign_real", a, b_mulr, &desc);
    let a = chk_q(st, "div_assign_real", catch(|| { let mut t = cq(z); t /= r; t }), m.divr, &desc);
    chk_same(st, "div_assign_real", a, b_divr, &desc);
    // self-aliasing shapes of the in-place forms: z *= z, z /= z
    chk_q(st, "mul_assign", catch(|| { let mut t = cq(z); let c = t.clone(); t *= c; t }), catch(|| m_mul(z, z)).ok(), &desc);
    if !(z.0.is_zero() && z.1.is_zero()) {
        chk_q(st, "div_assign", catch(|| { let mut t = cq(z); let c = t.clone(); t /= c; t }), Some((Rat::ONE, Rat::ZERO)), &desc);
    }
    // --- squared modulus
    st.eval();
    match catch(|| cq(z).abs_sqr()) {
        Outcome::Ok(v) => if v != m.abs_sqr { st.violation("C13:abs_sqr:Rat:wrong-value", format!("abs_sqr returned {:?}, exact {:?}; {}", v, m.abs_sqr, desc())); },
        Outcome::Overflow | Outcome::Budget => st.count("skipped:rat-overflow-in-library"),
        other => st.violation("C13:abs_sqr:Rat:refused", format!("abs_sqr {}; {}", other.describe(), desc())),
    }
    // --- identities
    chk_q(st, "zero", catch(|| <CQ as Zero>::zero()), Some((Rat::ZERO, Rat::ZERO)), &desc);
    chk_q(st, "one", catch(|| <CQ as One>::one()), Some((Rat::ONE, Rat::ZERO)), &desc);
    chk_q(st, "identity-add-zero", catch(|| cq(z) + <CQ as Zero>::zero()), Some(z), &desc);
    chk_q(st, "identity-zero-add", catch(|| <CQ as Zero>::zero() + cq(z)), Some(z), &desc);
    chk_q(st, "identity-sub-zero", catch(|| cq(z) - <CQ as Zero>::zero()), Some(z), &desc);
    chk_q(st, "identity-mul-one", catch(|| cq(z) * <CQ as One>::one()), Some(z), &desc);
    chk_q(st, "identity-one-mul", catch(|| <CQ as One>::one() * cq(z)), Some(z), &desc);
    chk_q(st, "identity-div-one", catch(|| cq(z) / <CQ as One>::one()), Some(z), &desc);
    chk_q(st, "identity-mul-assign-one", catch(|| { let mut t = cq(z); t *= <CQ as One>::one(); t }), Some(z), &desc);
    chk_q(st, "identity-div-assign-one", catch(|| { let mut t = cq(z); t /= <CQ as One>::one(); t }), Some(z), &desc);
    chk_q(st, "identity-add-assign-zero", catch(|| { let mut t = cq(z); t += <CQ as Zero>::zero(); t }), Some(z), &desc);
    chk_q(st, "annihilator-mul-zero", catch(|| cq(z) * <CQ as Zero>::zero()), Some((Rat::ZERO, Rat::ZERO)), &desc);
    // --- equality and ordering
    chk_bool(st, "eq", "Rat", catch(|| cq(z) == cq(w)), m.eq, &desc);
    chk_bool(st, "ne", "Rat", catch(|| cq(z) != cq(w)), !m.eq, &desc);
    chk_bool(st, "eq-reflexive", "Rat", catch(|| cq(z) == cq(z)), true, &desc);
    judge_order(st, "Rat", &cq(z), &cq(w), m.ord, &desc);

    st.count(&format!("cases:Rat:pair:{}", class));
    let nz = |x: Rat| !x.is_zero();
    let distinct = { let mut v = [z.0.abs_r(), z.1.abs_r(), w.0.abs_r(), w.1.abs_r()]; v.sort_by(|a, b| (a.n, a.d).cmp(&(b.n, b.d))); v[0] != v[1] && v[1] != v[2] && v[2] != v[3] };
    if nontrivial4(nz(z.0), nz(z.1), nz(w.0), nz(w.1), distinct) && nz(r) {
        let mut h = hash_str("Rat-pair");
        for x in [z.0, z.1, w.0, w.1, r] { h = hq(h, x); }
        st.nontrivial(h);
    }
    st.sample(|| desc());
}

/// library-only evaluation of both sides of a field axiom; equal exact values demanded
fn axiom(st: &mut Stats, name: &str, lhs: Outcome<CQ>, rhs: Outcome<CQ>, desc: &dyn Fn() -> String) {
    st.evals_add(2);
    match (lhs, rhs) {
        (Outcome::Ok(l), Outcome::Ok(r)) => if pq(&l) != pq(&r) {
            st.violation(&format!("C13:axiom-{}:Rat:violated", name), format!("lhs {:?} != rhs {:?}; {}", pq(&l), pq(&r), desc()));
        },
        (Outcome::Panic { msg, loc }, _) | (_, Outcome::Panic { msg, loc }) =>
            st.violation(&format!("C13:axiom-{}:Rat:refused", name), format!("panic '{}' at {}; {}", msg, loc, desc())),
        _ => st.count("skipped:rat-overflow-in-library"),
    }
}

fn exact_triple(st: &mut Stats, class: &str, z1: P, z2: P, z3: P, r: Rat) {
    st.next_case();
    let desc = || format!("T=Rat class={} z1={:?} z2={:?} z3={:?} r={:?}", class, z1, z2, z3, r);
    let (a, b, c) = (cq(z1), cq(z2), cq(z3));
    let is0 = |p: P| p.0.is_zero() && p.1.is_zero();
    axiom(st, "add-associative", catch(|| (a.clone() + b.clone()) + c.clone()), catch(|| a.clone() + (b.clone() + c.clone())), &desc);
    axiom(st, "mul-associative", catch(|| (a.clone() * b.clone()) * c.clone()), catch(|| a.clone() * (b.clone() * c.clone())), &desc);
    axiom(st, "add-commutative", catch(|| a.clone() + b.clone()), catch(|| b.clone() + a.clone()), &desc);
    axiom(st, "mul-commutative", catch(|| a.clone() * b.clone()), catch(|| b.clone() * a.clone()), &desc);
    axiom(st, "distributive-left", catch(|| a.clone() * (b.clone() + c.clone())), catch(|| a.clone() * b.clone() + a.clone() * c.clone()), &desc);
    axiom(st, "distributive-right", catch(|| (a.clone() - b.clone()) * c.clone()), catch(|| a.clone() * c.clone() - b.clone() * c.clone()), &desc);
    axiom(st, "sub-is-add-neg", catch(|| a.clone() - b.clone()), catch(|| a.clone() + (-b.clone())), &desc);
    axiom(st, "additive-inverse", catch(|| a.clone() + (-a.clone())), catch(|| <CQ as Zero>::zero()), &desc);
    axiom(st, "conj-multiplicative", catch(|| (a.clone() * b.clone()).conj()), catch(|| a.conj() * b.conj()), &desc);
    axiom(st, "conj-involution", catch(|| a.conj().conj()), catch(|| a.clone()), &desc);
    axiom(st, "abs_sqr-is-z-conj-z", catch(|| a.clone() * a.conj()), catch(|| Complex::new(a.abs_sqr(), Rat::ZERO)), &desc);
    axiom(st, "abs_sqr-multiplicative", catch(|| Complex::new((a.clone() * b.clone()).abs_sqr(), Rat::ZERO)), catch(|| Complex::new(a.abs_sqr() * b.abs_sqr(), Rat::ZERO)), &desc);
    if !is0(z1) {
        axiom(st, "mul-inverse", catch(|| a.clone() * (<CQ as One>::one() / a.clone())), catch(|| <CQ as One>::one()), &desc);
        axiom(st, "div-self", catch(|| a.clone() / a.clone()), catch(|| <CQ as One>::one()), &desc);
    }
    if !is0(z2) {
        axiom(st, "div-then-mul", catch(|| (a.clone() / b.clone()) * b.clone()), catch(|| a.clone()), &desc);
        axiom(st, "mul-then-div", catch(|| (a.clone() * b.clone()) / b.clone()), catch(|| a.clone()), &desc);
        axiom(st, "div-is-mul-inverse", catch(|| c.clone() / b.clone()), catch(|| c.clone() * (<CQ as One>::one() / b.clone())), &desc);
        axiom(st, "div-distributive", catch(|| (a.clone() + c.clone()) / b.clone()), catch(|| a.clone() / b.clone() + c.clone() / b.clone()), &desc);
    }
    if !is0(z2) && !is0(z3) {
        axiom(st, "div-div", catch(|| (a.clone() / b.clone()) / c.clone()), catch(|| a.clone() / (b.clone() * c.clone())), &desc);
    }
    // real scalar forms embed as (r, 0)
    let rc = || Complex::new(r, Rat::ZERO);
    axiom(st, "scalar-add-embeds", catch(|| a.clone() + r), catch(|| a.clone() + rc()), &desc);
    axiom(st, "scalar-sub-embeds", catch(|| a.clone() - r), catch(|| a.clone() - rc()), &desc);
    axiom(st, "scalar-mul-embeds", catch(|| a.clone() * r), catch(|| a.clone() * rc()), &desc);
    if !r.is_zero() {
        axiom(st, "scalar-div-embeds", catch(|| a.clone() / r), catch(|| a.clone() / rc()), &desc);
        axiom(st, "scalar-mul-div", catch(|| (a.clone() * r) / r), catch(|| a.clone()), &desc);
    }
    // ordering: transitivity on the triple (library answers only)
    let ord = catch(|| (m_lex(z1, z2), m_lex(z2, z3), m_lex(z1, z3)));
    if let Outcome::Ok((m12, m23, m13)) = ord {
        let c12 = judge_order(st, "Rat", &a, &b, m12, &desc);
        let c23 = judge_order(st, "Rat", &b, &c, m23, &desc);
        let c13 = judge_order(st, "Rat", &a, &c, m13, &desc);
        transitivity(st, "Rat", c12, c23, c13, &desc);
    } else { st.count("skipped:rat-overflow-in-model"); }
    st.count(&format!("cases:Rat:triple:{}", class));
    let nzc = [z1.0, z1.1, z2.0, z2.1, z3.0, z3.1].iter().all(|x| !x.is_zero());
    if nzc && z1 != z2 && z2 != z3 && z1 != z3 {
        let mut h = hash_str("Rat-triple");
        for x in [z1.0, z1.1, z2.0, z2.1, z3.0, z3.1, r] { h = hq(h, x); }
        st.nontrivial(h);
    }
}

// ---- exact generators -----------------------------------------------------------------------
const SPECIALS: [(i128, i128); 12] = [(0, 1), (1, 1), (-1, 1), (2, 1), (-2, 1), (1, 2), (-1, 2), (3, 2), (1, 3), (-2, 3), (10, 1), (-7, 5)];

fn gen_rat(rng: &mut Rng, kind: u64) -> Rat {
    match kind {
        0 => Rat::int(rng.int(-6, 6)),
        1 => Rat::new(rng.int(-40, 40) as i128, rng.int(1, 12) as i128),
        2 => Rat::new(rng.int(-1_000_000, 1_000_000) as i128, rng.int(1, 1000) as i128),
        3 => Rat::new(rng.int(-(1 << 20), 1 << 20) as i128, 1i128 << rng.int(0, 20)),
        _ => { let (n, d) = *rng.pick(&SPECIALS); Rat::new(n, d) }
    }
}
/// kind for triples: smaller numbers so that triple products stay inside i128
fn gen_rat_small(rng: &mut Rng, kind: u64) -> Rat {
    match kind {
        0 => Rat::int(rng.int(-6, 6)),
        1 => Rat::new(rng.int(-40, 40) as i128, rng.int(1, 12) as i128),
        2 => Rat::new(rng.int(-1000, 1000) as i128, rng.int(1, 60) as i128),
        3 => Rat::new(rng.int(-255, 255) as i128, 1i128 << rng.int(0, 8)),
        _ => { let (n, d) = *rng.pick(&SPECIALS); Rat::new(n, d) }
    }
}
const KIND_NAMES: [&str; 5] = ["small-int", "fraction", "big-fraction", "dyadic", "special"];
const SHAPES: [&str; 13] = ["general", "z-real", "z-imag", "w-real", "w-imag", "w=z", "w=conj-z", "w=-z", "same-real", "same-imag", "w=i*z", "z=0", "w-on-unit-circle"];
/// Pythagorean triples: (a/c, b/c) lies exactly on the unit circle, off the axes
const PYTH: [(i64, i64, i64); 8] = [(3, 4, 5), (5, 12, 13), (8, 15, 17), (7, 24, 25), (20, 21, 29), (9, 40, 41), (12, 35, 37), (28, 45, 53)];
fn unit_q(rng: &mut Rng) -> P {
    let (a, b, c) = *rng.pick(&PYTH);
    let sg = |rng: &mut Rng| if rng.bool() { 1i128 } else { -1 };
    let (x, y) = (Rat::new(sg(rng) * a as i128, c as i128), Rat::new(sg(rng) * b as i128, c as i128));
    if rng.bool() { (x, y) } else { (y, x) }
}

/// impose one of the structural shapes of the quantifier on (z, w)
fn shape_q(shape: usize, z: &mut P, w: &mut P) {
    match shape {
        1 => z.1 = Rat::ZERO,
        2 => z.0 = Rat::ZERO,
        3 => w.1 = Rat::ZERO,
        4 => w.0 = Rat::ZERO,
        5 => *w = *z,
        6 => *w = (z.0, -z.1),
        7 => *w = (-z.0, -z.1),
        8 => w.0 = z.0,
        9 => w.1 = z.1,
        10 => *w = (-z.1, z.0),
        11 => *z = (Rat::ZERO, Rat::ZERO),
        _ => {}
    }
}
fn pick_shape(rng: &mut Rng) -> usize { if rng.chance(0.5) { 0 } else { rng.usize(1, SHAPES.len() - 1) } }

fn random_exact_pair(st: &mut Stats, rng: &mut Rng) {
    let kind = rng.below(5);
    let mut z = (gen_rat(rng, kind), gen_rat(rng, kind));
    let mut w = (gen_rat(rng, kind), gen_rat(rng, kind));
    let r = gen_rat(rng, kind);
    let shape = pick_shape(rng);
    shape_q(shape, &mut z, &mut w);
    if shape == 12 { w = unit_q(rng); }
    exact_pair(st, &format!("{}/{}", KIND_NAMES[kind as usize], SHAPES[shape]), z, w, r);
}
fn random_exact_triple(st: &mut Stats, rng: &mut Rng) {
    let kind = rng.below(5);
    let mut z1 = (gen_rat_small(rng, kind), gen_rat_small(rng, kind));
    let mut z2 = (gen_rat_small(rng, kind), gen_rat_small(rng, kind));
    let mut z3 = (gen_rat_small(rng, kind), gen_rat_small(rng, kind));
    let r = gen_rat_small(rng, kind);
    let shape = pick_shape(rng);
    shape_q(shape, &mut z1, &mut z2);
    if shape == 12 { z2 = unit_q(rng); }
    let s2 = pick_shape(rng);
    if s2 != 11 { shape_q(s2, &mut z2, &mut z3); }
    if s2 == 12 { z3 = unit_q(rng); }
    exact_triple(st, &format!("{}/{}+{}", KIND_NAMES[kind as usize], SHAPES[shape], SHAPES[s2]), z1, z2, z3, r);
}

// ---- Complex<f64> ---------------------------------------------------------------------------
fn showz(z: Cmplx) -> String { format!("({}, {})", hexf(z.real), hexf(z.imag)) }
fn in_range(x: f64) -> bool { x == 0.0 || (x.abs() >= 1e-100 && x.abs() <= 1e100) }
fn finite(z: Cmplx) -> bool { z.real.is_finite() && z.imag.is_finite() }
fn same_bits(x: Cmplx, y: Cmplx) -> bool { x.real.to_bits() == y.real.to_bits() && x.imag.to_bits() == y.imag.to_bits() }
fn f_lex(z: Cmplx, w: Cmplx) -> Ordering {
    if z.real < w.real { Ordering::Less } else if w.real < z.real { Ordering::Greater }
    else if z.imag < w.imag { Ordering::Less } else if w.imag < z.imag { Ordering::Greater }
    else { Ordering::Equal }
}

/// unwrap a float result; panics and non-finite values are violations (the property demands success in range)
fn got_f(st: &mut Stats, site: &str, out: Outcome<Cmplx>, desc: &dyn Fn() -> String) -> Option<Cmplx> {
    st.eval();
    match out {
        Outcome::Ok(v) => {
            if !finite(v) {
                st.violation(&format!("C13:{}:f64:nonfinite", site), format!("{} returned {}; {}", site, showz(v), desc()));
                return None;
            }
            Some(v)
        }
        other => { st.violation(&format!("C13:{}:f64:refused", site), format!("{} {}; {}", site, other.describe(), desc())); None }
    }
}
/// result must equal the given correctly rounded components (numeric equality: +0 == -0)
fn chk_val(st: &mut Stats, site: &str, out: Outcome<Cmplx>, exp: (f64, f64), desc: &dyn Fn() -> String) -> Option<Cmplx> {
    let v = got_f(st, site, out, desc)?;
    if !(v.real == exp.0 && v.imag == exp.1) {
        st.violation(&format!("C13:{}:f64:wrong-value", site), format!("{} returned {}, expected ({}, {}); {}", site, showz(v), hexf(exp.0), hexf(exp.1), desc()));
    }
    Some(v)
}
fn chk_bits(st: &mut Stats, site: &str, assign: Option<Cmplx>, binary: Option<Cmplx>, desc: &dyn Fn() -> String) {
    if let (Some(a), Some(b)) = (assign, binary) {
        st.count("bit-identity-comparisons");
        if !same_bits(a, b) {
            st.violation(&format!("C13:{}:f64:not-bit-identical-to-binary", site), format!("{} gave {} but binary form gave {}; {}", site, showz(a), showz(b), desc()));
        }
    }
}
fn chk_tol(st: &mut Stats, site: &str, key: &str, err_u: f64, tol: f64, v: &dyn Fn() -> String, desc: &dyn Fn() -> String) {
    st.max(&format!("max_err_over_tol:{}", key), err_u / tol);
    st.max(&format!("max_err_in_u:{}", key), err_u);
    if !(err_u <= tol) {
        st.violation(&format!("C13:{}:f64:wrong-value", site), format!("{} error {:e} u > {} u; result {}; {}", site, err_u, tol, v(), desc()));
    }
}

/// normwise error (units of u) of p as the product z*w; exact product held as TwoProd expansions
fn mul_err(z: Cmplx, w: Cmplx, p: Cmplx) -> f64 {
    let (a, b, c, d) = (z.real, z.imag, w.real, w.imag);
    let re = DD::prod(a, c) - DD::prod(b, d);
    let im = DD::prod(a, d) + DD::prod(b, c);
    let er = (DD::from(p.real) - re).f();
    let ei = (DD::from(p.imag) - im).f();
    let scale = a.hypot(b) * c.hypot(d);
    if scale == 0.0 { if p.real == 0.0 && p.imag == 0.0 { 0.0 } else { f64::INFINITY } } else { er.hypot(ei) / scale / U }
}
/// normwise error (units of u) of q as the quotient z/w (w != 0), from the residual q*|w|^2 - z*conj(w)
fn div_err(z: Cmplx, w: Cmplx, q: Cmplx) -> f64 {
    let (a, b, c, d) = (z.real, z.imag, w.real, w.imag);
    let den = DD::prod(c, c) + DD::prod(d, d);
    let nre = DD::prod(a, c) + DD::prod(b, d);
    let nim = DD::prod(b, c) - DD::prod(a, d);
    let rr = (DD::from(q.real) * den - nre).f();
    let ri = (DD::from(q.imag) * den - nim).f();
    let scale = a.hypot(b) * c.hypot(d);
    if scale == 0.0 { if q.real == 0.0 && q.imag == 0.0 { 0.0 } else { f64::INFINITY } } else { rr.hypot(ri) / scale / U }
}
/// componentwise relative error (u) of v as a*r
fn smul_err(a: f64, r: f64, v: f64) -> f64 {
    let e = DD::prod(a, r);
    if e.hi == 0.0 { if v == 0.0 { 0.0 } else { f64::INFINITY } } else { (DD::from(v) - e).f().abs() / e.hi.abs() / U }
}
/// componentwise relative error (u) of v as a/r (r != 0) from the residual v*r - a
fn sdiv_err(a: f64, r: f64, v: f64) -> f64 {
    if a == 0.0 { if v == 0.0 { 0.0 } else { f64::INFINITY } } else { (DD::prod(v, r) - DD::from(a)).f().abs() / a.abs() / U }
}

fn float_pair(st: &mut Stats, class: &str, z: Cmplx, w: Cmplx, r: f64) {
    st.next_case();
    let (a, b, c, d) = (z.real, z.imag, w.real, w.imag);
    if ![a, b, c, d, r].iter().all(|x| in_range(*x)) { st.count("skipped:f64-operand-outside-1e-100..1e100"); return; }
    let desc = || format!("T=f64 class={} z={} w={} r={}", class, showz(z), showz(w), hexf(r));
    let wz = c == 0.0 && d == 0.0;
    let zero = Cmplx::new(0.0, 0.0);
    // --- unary / additive forms: exact components
    chk_val(st, "neg", catch(|| -z), (-a, -b), &desc);
    chk_val(st, "conj", catch(|| z.conj()), (a, -b), &desc);
    let b_add = chk_val(st, "add", catch(|| z + w), (a + c, b + d), &desc);
    let b_sub = chk_val(st, "sub", catch(|| z - w), (a - c, b - d), &desc);
    let b_addr = chk_val(st, "add_real", catch(|| z + r), (a + r, b), &desc);
    let b_subr = chk_val(st, "sub_real", catch(|| z - r), (a - r, b), &desc);
    // --- multiplication
    let b_mul = got_f(st, "mul", catch(|| z * w), &desc);
    if let Some(p) = b_mul { chk_tol(st, "mul", "mul", mul_err(z, w, p), TOL_MUL, &|| showz(p), &desc); }
    if let Some(p) = got_f(st, "mul", catch(|| w * z), &desc) { chk_tol(st, "mul", "mul", mul_err(z, w, p), TOL_MUL, &|| showz(p), &desc); }
    // --- division
    let mut b_div = None;
    if !wz {
        b_div = got_f(st, "div", catch(|| z / w), &desc);
        if let Some(q) = b_div { chk_tol(st, "div", "div", div_err(z, w, q), TOL_DIV, &|| showz(q), &desc); }
    } else { st.count("undefined:f64-division-by-zero"); }
    // --- mixed real scalar forms
    let b_mulr = got_f(st, "mul_real", catch(|| z * r), &desc);
    if let Some(p) = b_mulr {
        chk_tol(st, "mul_real", "mul_real", smul_err(a, r, p.real).max(smul_err(b, r, p.imag)), TOL_SCALAR, &|| showz(p), &desc);
    }
    let l_mulr = got_f(st, "real_mul", catch(|| r * z), &desc);
    if let (Some(l), Some(p)) = (l_mulr, b_mulr) {
        st.count("bit-identity-comparisons");
        if !same_bits(l, p) {
            st.violation("C13:real_mul:f64:not-bit-identical-to-mul_real", format!("r*z = {} but z*r = {}; {}", showz(l), showz(p), desc()));
        }
    }
    let mut b_divr = None;
    if r != 0.0 {
        b_divr = got_f(st, "div_real", catch(|| z / r), &desc);
        if let Some(q) = b_divr {
            chk_tol(st, "div_real", "div_real", sdiv_err(a, r, q.real).max(sdiv_err(b, r, q.imag)), TOL_SCALAR, &|| showz(q), &desc);
        }
    }
    // --- compound assignment forms: bit identical to the binary forms
    let t = got_f(st, "add_assign", catch(|| { let mut t = z; t += w; t }), &desc); chk_bits(st, "add_assign", t, b_add, &desc);
    let t = got_f(st, "sub_assign", catch(|| { let mut t = z; t -= w; t }), &desc); chk_bits(st, "sub_assign", t, b_sub, &desc);
    let t = got_f(st, "mul_assign", catch(|| { let mut t = z; t *= w; t }), &desc); chk_bits(st, "mul_assign", t, b_mul, &desc);
    if !wz { let t = got_f(st, "div_assign", catch(|| { let mut t = z; t /= w; t }), &desc); chk_bits(st, "div_assign", t, b_div, &desc); }
    let t = got_f(st, "add_assign_real", catch(|| { let mut t = z; t += r; t }), &desc); chk_bits(st, "add_assign_real", t, b_addr, &desc);
    let t = got_f(st, "sub_assign_real", catch(|| { let mut t = z; t -= r; t }), &desc); chk_bits(st, "sub_assign_real", t, b_subr, &desc);
    let t = got_f(st, "mul_assign_real", catch(|| { let mut t = z; t *= r; t }), &desc); chk_bits(st, "mul_assign_real", t, b_mulr, &desc);
    if r != 0.0 { let t = got_f(st, "div_assign_real", catch(|| { let mut t = z; t /= r; t }), &desc); chk_bits(st, "div_assign_real", t, b_divr, &desc); }
    // self-aliased in-place forms
    let sq = got_f(st, "mul", catch(|| z * z), &desc);
    let t = got_f(st, "mul_assign", catch(|| { let mut t = z; let c2 = t; t *= c2; t }), &desc); chk_bits(st, "mul_assign", t, sq, &desc);
    // --- squared modulus, modulus, argument
    let zz = a == 0.0 && b == 0.0;
    let exact_sq = DD::prod(a, a) + DD::prod(b, b);
    st.eval();
    match catch(|| z.abs_sqr()) {
        Outcome::Ok(v) => {
            let e = if zz { if v == 0.0 { 0.0 } else { f64::INFINITY } } else { (DD::from(v) - exact_sq).f().abs() / exact_sq.hi / U };
            chk_tol(st, "abs_sqr", "abs_sqr", e, TOL_ABSSQR, &|| hexf(v), &desc);
        }
        other => st.violation("C13:abs_sqr:f64:refused", format!("abs_sqr {}; {}", other.describe(), desc())),
    }
    st.eval();
    match catch(|| z.abs()) {
        Outcome::Ok(v) => {
            let e = if zz { if v == 0.0 { 0.0 } else { f64::INFINITY } }
                else if !(v > 0.0) { f64::INFINITY }
                else { (DD::prod(v, v) - exact_sq).f().abs() / exact_sq.hi / 2.0 / U };
            chk_tol(st, "abs", "abs", e, TOL_ABS, &|| hexf(v), &desc);
        }
        other => st.violation("C13:abs:f64:refused", format!("abs {}; {}", other.describe(), desc())),
    }
    if !zz {
        st.eval();
        match catch(|| z.arg()) {
            Outcome::Ok(t) => {
                let (s, co) = t.sin_cos();
                let cross = (DD::prod(a, s) - DD::prod(b, co)).f().abs();
                let dot = a * co + b * s;
                let e = if !(t.abs() <= std::f64::consts::PI) || !(dot > 0.0) { f64::INFINITY } else { cross / a.hypot(b) / U };
                chk_tol(st, "arg", "arg", e, TOL_ARG, &|| hexf(t), &desc);
            }
            other => st.violation("C13:arg:f64:refused", format!("arg {}; {}", other.describe(), desc())),
        }
    }
    // --- identities (numeric equality)
    chk_val(st, "zero", catch(|| <Cmplx as Zero>::zero()), (0.0, 0.0), &desc);
    chk_val(st, "one", catch(|| <Cmplx as One>::one()), (1.0, 0.0), &desc);
    chk_val(st, "identity-add-zero", catch(|| z + <Cmplx as Zero>::zero()), (a, b), &desc);
    chk_val(st, "identity-zero-add", catch(|| <Cmplx as Zero>::zero() + z), (a, b), &desc);
    chk_val(st, "identity-sub-zero", catch(|| z - <Cmplx as Zero>::zero()), (a, b), &desc);
    chk_val(st, "identity-mul-one", catch(|| z * <Cmplx as One>::one()), (a, b), &desc);
    chk_val(st, "identity-one-mul", catch(|| <Cmplx as One>::one() * z), (a, b), &desc);
    chk_val(st, "identity-div-one", catch(|| z / <Cmplx as One>::one()), (a, b), &desc);
    chk_val(st, "identity-mul-assign-one", catch(|| { let mut t = z; t *= <Cmplx as One>::one(); t }), (a, b), &desc);
    chk_val(st, "identity-div-assign-one", catch(|| { let mut t = z; t /= <Cmplx as One>::one(); t }), (a, b), &desc);
    chk_val(st, "identity-add-assign-zero", catch(|| { let mut t = z; t += zero; t }), (a, b), &desc);
    chk_val(st, "identity-mul-real-one", catch(|| z * 1.0), (a, b), &desc);
    chk_val(st, "annihilator-mul-zero", catch(|| z * <Cmplx as Zero>::zero()), (0.0, 0.0), &desc);
    // --- equality / ordering
    chk_bool(st, "eq", "f64", catch(|| z == w), a == c && b == d, &desc);
    chk_bool(st, "ne", "f64", catch(|| z != w), !(a == c && b == d), &desc);
    chk_bool(st, "eq-reflexive", "f64", catch(|| z == z), true, &desc);
    judge_order(st, "f64", &z, &w, f_lex(z, w), &desc);

    st.count(&format!("cases:f64:pair:{}", class));
    let mut mags = [a.abs(), b.abs(), c.abs(), d.abs()];
    mags.sort_by(|x, y| x.partial_cmp(y).unwrap_or(Ordering::Equal));
    let distinct = mags[0] != mags[1] && mags[1] != mags[2] && mags[2] != mags[3];
    if nontrivial4(a != 0.0, b != 0.0, c != 0.0, d != 0.0, distinct) && r != 0.0 {
        let mut h = hash_str("f64-pair");
        for x in [a, b, c, d, r] { h = hmix(h, x.to_bits()); }
        st.nontrivial(h);
        let span = (mags[3] / mags[0]).log10();
        st.max("f64:max_log10_magnitude_span_in_a_pair", span);
    }
}

fn float_order_triple(st: &mut Stats, class: &str, z1: Cmplx, z2: Cmplx, z3: Cmplx) {
    st.next_case();
    if ![z1, z2, z3].iter().all(|z| in_range(z.real) && in_range(z.imag)) { st.count("skipped:f64-operand-outside-1e-100..1e100"); return; }
    let desc = || format!("T=f64 class={} z1={} z2={} z3={}", class, showz(z1), showz(z2), showz(z3));
    let c12 = judge_order(st, "f64", &z1, &z2, f_lex(z1, z2), &desc);
    let c23 = judge_order(st, "f64", &z2, &z3, f_lex(z2, z3), &desc);
    let c13 = judge_order(st, "f64", &z1, &z3, f_lex(z1, z3), &desc);
    transitivity(st, "f64", c12, c23, c13, &desc);
    st.count(&format!("cases:f64:order-triple:{}", class));
}

/// Small dyadic operands (k/2^s, |k| <= 1023, s <= 8): the reference is the *rational* result computed over Rat
/// and converted exactly to f64 (all of sum, difference, product, z*conj(w) and |w|^2 are representable).
fn dyadic_case(st: &mut Stats, z: (Rat, Rat), w: (Rat, Rat)) {
    st.next_case();
    let ex = |x: Rat| x.as_exact_f64();
    let model = catch(|| (m_add(z, w), m_sub(z, w), m_mul(z, w), m_mul(z, m_conj(w)), m_norm(w), m_norm(z)));
    let (s, df, p, n, den, nz) = match model { Outcome::Ok(t) => t, _ => { st.count("skipped:rat-overflow-in-model"); return; } };
    let vals = [z.0, z.1, w.0, w.1, s.0, s.1, df.0, df.1, p.0, p.1, n.0, n.1, den, nz];
    let f: Vec<f64> = match vals.iter().map(|x| ex(*x)).collect::<Option<Vec<f64>>>() { Some(v) => v, None => { st.count("skipped:dyadic-not-representable"); return; } };
    let (zf, wf) = (Cmplx::new(f[0], f[1]), Cmplx::new(f[2], f[3]));
    let desc = || format!("T=f64 class=dyadic-vs-rational z={:?} w={:?} (f64 z={} w={})", z, w, showz(zf), showz(wf));
    chk_val(st, "add", catch(|| zf + wf), (f[4], f[5]), &desc);
    chk_val(st, "sub", catch(|| zf - wf), (f[6], f[7]), &desc);
    let scale = f[13].sqrt() * f[12].sqrt();
    if let Some(v) = got_f(st, "mul", catch(|| zf * wf), &desc) {
        let e = if scale == 0.0 { if v.real == 0.0 && v.imag == 0.0 { 0.0 } else { f64::INFINITY } } else { (v.real - f[8]).hypot(v.imag - f[9]) / scale / U };
        if v.real == f[8] && v.imag == f[9] { st.count("dyadic:mul-equals-rational-product-exactly"); }
        chk_tol(st, "mul", "mul-vs-rational", e, TOL_MUL, &|| showz(v), &desc);
    }
    if let Some(v) = got_f(st, "mul_assign", catch(|| { let mut t = zf; t *= wf; t }), &desc) {
        let e = if scale == 0.0 { if v.real == 0.0 && v.imag == 0.0 { 0.0 } else { f64::INFINITY } } else { (v.real - f[8]).hypot(v.imag - f[9]) / scale / U };
        chk_tol(st, "mul_assign", "mul-vs-rational", e, TOL_MUL, &|| showz(v), &desc);
    }
    if !den.is_zero() {
        for site in ["div", "div_assign"] {
            let out = if site == "div" { catch(|| zf / wf) } else { catch(|| { let mut t = zf; t /= wf; t }) };
            if let Some(q) = got_f(st, site, out, &desc) {
                // residual q*den - n with exact (representable) den and n = z*conj(w)
                let rr = (DD::prod(q.real, f[12]) - DD::from(f[10])).f();
                let ri = (DD::prod(q.imag, f[12]) - DD::from(f[11])).f();
                let e = if scale == 0.0 { if q.real == 0.0 && q.imag == 0.0 { 0.0 } else { f64::INFINITY } } else { rr.hypot(ri) / scale / U };
                if q.real == f[10] / f[12] && q.imag == f[11] / f[12] { st.count("dyadic:div-equals-correctly-rounded-rational-quotient"); }
                chk_tol(st, site, "div-vs-rational", e, TOL_DIV, &|| showz(q), &desc);
            }
        }
    }
    st.eval();
    match catch(|| zf.abs_sqr()) {
        Outcome::Ok(v) => if v != f[13] { st.violation("C13:abs_sqr:f64:wrong-value", format!("abs_sqr returned {}, exact rational value {}; {}", hexf(v), hexf(f[13]), desc())); },
        other => st.violation("C13:abs_sqr:f64:refused", format!("abs_sqr {}; {}", other.describe(), desc())),
    }
    st.count("cases:f64:dyadic-vs-rational");
    if [z.0, z.1, w.0, w.1].iter().all(|x| !x.is_zero()) && z != w {
        let mut h = hash_str("f64-dyadic");
        for x in [z.0, z.1, w.0, w.1] { h = hq(h, x); }
        st.nontrivial(h);
    }
}

// ---- float generators -----------------------------------------------------------------------
const F_SPECIALS: [f64; 16] = [0.0, -0.0, 1.0, -1.0, 1e-100, -1e-100, 1e100, -1e100, 0.5, 2.0, 3.0, -7.0, 1e50, -1e-50, 1.0000000000000002, 0.9999999999999999];
const F_KINDS: [&str; 7] = ["wide", "moderate", "small-int", "pow2", "special", "near-one", "edge-of-range"];

fn clamp_mag(x: f64) -> f64 { if x == 0.0 { x } else { x.signum() * x.abs().clamp(1e-100, 1e100) } }
fn gen_f(rng: &mut Rng, kind: u64) -> f64 {
    match kind {
        0 => clamp_mag(rng.logmag(1e-100, 1e100)),
        1 => rng.logmag(1e-3, 1e3),
        2 => rng.int(-9, 9) as f64,
        3 => { let v = 2f64.powi(rng.int(-332, 332) as i32); if rng.bool() { v } else { -v } }
        4 => *rng.pick(&F_SPECIALS),
        5 => { let v = 0.5 + rng.unit() * 1.5; if rng.bool() { v } else { -v } }
        _ => { let v = if rng.bool() { clamp_mag(1e100 * (1.0 - rng.unit() * 0.9)) } else { clamp_mag(1e-100 * (1.0 + rng.unit() * 9.0)) }; if rng.bool() { v } else { -v } }
    }
}
const F_SHAPES: [&str; 18] = ["general", "z-real", "z-imag", "w-real", "w-imag", "w=z", "w=conj-z", "w=-z", "same-real", "same-imag", "w=i*z", "z=0",
    "cancel-real-part-of-product", "cancel-imag-part-of-product", "w-few-ulps-from-z", "signed-zero-parts", "mixed-kinds", "w-on-unit-circle"];

fn nudge(rng: &mut Rng, x: f64) -> f64 {
    if x == 0.0 { return x; }
    let k = rng.int(-3, 3);
    f64::from_bits((x.to_bits() as i64 + k) as u64)
}
fn shape_f(rng: &mut Rng, shape: usize, z: &mut Cmplx, w: &mut Cmplx) {
    match shape {
        1 => z.imag = 0.0,
        2 => z.real = 0.0,
        3 => w.imag = 0.0,
        4 => w.real = 0.0,
        5 => *w = *z,
        6 => *w = Cmplx::new(z.real, -z.imag),
        7 => *w = Cmplx::new(-z.real, -z.imag),
        8 => w.real = z.real,
        9 => w.imag = z.imag,
        10 => *w = Cmplx::new(-z.imag, z.real),
        11 => *z = Cmplx::new(0.0, 0.0),
        12 => { if z.imag != 0.0 { let d = z.real * w.real / z.imag; if in_range(d) && d != 0.0 { w.imag = d; } } }
        13 => { if z.real != 0.0 { let d = -(z.imag * w.real) / z.real; if in_range(d) && d != 0.0 { w.imag = d; } } }
        14 => { let c = Cmplx::new(nudge(rng, z.real), nudge(rng, z.imag)); if in_range(c.real) && in_range(c.imag) { *w = c; } }
        15 => { if rng.bool() { z.real = if rng.bool() { 0.0 } else { -0.0 }; } else { z.imag = if rng.bool() { 0.0 } else { -0.0 }; }
                if rng.bool() { w.real = if rng.bool() { 0.0 } else { -0.0 }; } else { w.imag = if rng.bool() { 0.0 } else { -0.0 }; } }
        17 => { // off-axis points of the unit circle (squared modulus exactly or almost exactly 1), optionally times a power of two
            let (a, b, c) = *rng.pick(&PYTH);
            let (mut x, mut y) = if rng.bool() { (a as f64 / c as f64, b as f64 / c as f64) } else { (a as f64 / 5.0 / (c as f64 / 5.0), b as f64 / 5.0 / (c as f64 / 5.0)) };
            if rng.bool() { std::mem::swap(&mut x, &mut y); }
            if rng.bool() { x = -x; } if rng.bool() { y = -y; }
            let k = if rng.chance(0.7) { 0 } else { rng.int(-40, 40) as i32 };
            *w = Cmplx::new(x * 2f64.powi(k), y * 2f64.powi(k)); }
        _ => {}
    }
}
fn pick_shape_f(rng: &mut Rng) -> usize { if rng.chance(0.45) { 0 } else { rng.usize(1, F_SHAPES.len() - 1) } }

fn random_float_pair(st: &mut Stats, rng: &mut Rng) {
    let kind = rng.below(F_KINDS.len() as u64);
    let shape = pick_shape_f(rng);
    let g = |rng: &mut Rng| if shape == 16 { let k = rng.below(F_KINDS.len() as u64); gen_f(rng, k) } else { gen_f(rng, kind) };
    let mut z = Cmplx::new(g(rng), g(rng));
    let mut w = Cmplx::new(g(rng), g(rng));
    let r = g(rng);
    shape_f(rng, shape, &mut z, &mut w);
    float_pair(st, &format!("{}/{}", F_KINDS[kind as usize], F_SHAPES[shape]), z, w, r);
}
fn random_float_order_triple(st: &mut Stats, rng: &mut Rng) {
    let kind = rng.below(F_KINDS.len() as u64);
    let mut z1 = Cmplx::new(gen_f(rng, kind), gen_f(rng, kind));
    let mut z2 = Cmplx::new(gen_f(rng, kind), gen_f(rng, kind));
    let mut z3 = Cmplx::new(gen_f(rng, kind), gen_f(rng, kind));
    let s1 = *rng.pick(&[0usize, 5, 8, 8, 9, 14, 15]);
    let s2 = *rng.pick(&[0usize, 5, 8, 8, 9, 14, 15]);
    shape_f(rng, s1, &mut z1, &mut z2);
    shape_f(rng, s2, &mut z2, &mut z3);
    if rng.chance(0.3) { z3.real = z1.real; }
    float_order_triple(st, &format!("{}/{}+{}", F_KINDS[kind as usize], F_SHAPES[s1], F_SHAPES[s2]), z1, z2, z3);
}
fn random_dyadic(st: &mut Stats, rng: &mut Rng) {
    let g = |rng: &mut Rng| Rat::new(rng.int(-1023, 1023) as i128, 1i128 << rng.int(0, 8));
    let mut z = (g(rng), g(rng));
    let mut w = (g(rng), g(rng));
    let shape = pick_shape(rng);
    shape_q(shape, &mut z, &mut w);
    dyadic_case(st, z, w);
}

// ---- enumerated sweeps (independent of the seed) ---------------------------------------------
const GRID_INT: [(i128, i128); 5] = [(-2, 1), (-1, 1), (0, 1), (1, 1), (2, 1)];
const GRID_FRAC: [(i128, i128); 5] = [(-3, 2), (-1, 3), (0, 1), (1, 2), (2, 1)];
const GRID_R: [(i128, i128); 5] = [(-2, 1), (-1, 2), (0, 1), (1, 1), (3, 1)];
const PAIR_CODES: u64 = 625 * 5;
const PAIR_CHUNK: u64 = 25;

fn enum_pair(st: &mut Stats, grid: &[(i128, i128); 5], name: &str, code: u64) {
    let g = |k: u64| { let (n, d) = grid[(k % 5) as usize]; Rat::new(n, d) };
    let z = (g(code), g(code / 5));
    let w = (g(code / 25), g(code / 125));
    let (rn, rd) = GRID_R[((code / 625) % 5) as usize];
    let r = Rat::new(rn, rd);
    exact_pair(st, name, z, w, r);
    // the same grid point through Complex<f64> (all values are exactly representable except thirds, which are rounded)
    let f = |x: Rat| x.n as f64 / x.d as f64;
    float_pair(st, name, Cmplx::new(f(z.0), f(z.1)), Cmplx::new(f(w.0), f(w.1)), f(r));
}
fn enum_triple(st: &mut Stats, vals: &[i64], code: u64) {
    let n = vals.len() as u64;
    let g = |k: u64| Rat::int(vals[(k % n) as usize]);
    let z1 = (g(code), g(code / n));
    let z2 = (g(code / (n * n)), g(code / (n * n * n)));
    let z3 = (g(code / (n * n * n * n)), g(code / (n * n * n * n * n)));
    let (rn, rd) = GRID_R[(code % 5) as usize];
    exact_triple(st, "enum-grid-triple", z1, z2, z3, Rat::new(rn, rd));
    let f = |p: P| Cmplx::new(p.0.n as f64, p.1.n as f64);
    float_order_triple(st, "enum-grid-triple", f(z1), f(z2), f(z3));
}

pub fn run(ctx: &Ctx) -> Report {
    let tri_vals: Vec<i64> = if ctx.quick() { vec![-1, 0, 1, 2] } else { vec![-2, -1, 0, 1, 2] };
    let tri_codes = (tri_vals.len() as u64).pow(6);
    const TRI_CHUNK: u64 = 64;
    let n_pair_units = 2 * ((PAIR_CODES + PAIR_CHUNK - 1) / PAIR_CHUNK);
    let n_tri_units = (tri_codes + TRI_CHUNK - 1) / TRI_CHUNK;
    let n_enum = n_pair_units + n_tri_units;
    let nrand = ctx.vol(RAND_UNITS_QUICK, RAND_UNITS_THOROUGH);
    let stats = par_run(ctx, TAG, n_enum + nrand, |u, rng, st| {
        if u < n_pair_units {
            let half = n_pair_units / 2;
            let (grid, name, uu) = if u < half { (&GRID_INT, "enum-grid-int", u) } else { (&GRID_FRAC, "enum-grid-frac", u - half) };
            for code in uu * PAIR_CHUNK..((uu + 1) * PAIR_CHUNK).min(PAIR_CODES) { enum_pair(st, grid, name, code); }
        } else if u < n_enum {
            let uu = u - n_pair_units;
            for code in uu * TRI_CHUNK..((uu + 1) * TRI_CHUNK).min(tri_codes) { enum_triple(st, &tri_vals, code); }
        } else {
            for _ in 0..12 { random_exact_pair(st, rng); }
            for _ in 0..6 { random_exact_triple(st, rng); }
            for _ in 0..40 { random_float_pair(st, rng); }
            for _ in 0..6 { random_float_order_triple(st, rng); }
            for _ in 0..6 { random_dyadic(st, rng); }
        }
    });
    let mut rep = Report::new(stats,
        "cases: (i) exhaustive grids — all (z,w) with components in {-2..2} and in {-3/2,-1/3,0,1/2,2} times 5 real scalars {-2,-1/2,0,1,3} through Complex<Rat> and Complex<f64> (every operator form), all triples with components in {-1,0,1,2} (quick) / {-2..2} (thorough) for the field axioms and order transitivity; (ii) random pairs/triples over Rat of 5 value kinds (small ints, fractions, big fractions, dyadics, specials) x 12 structural shapes (general, purely real/imaginary z or w, w=z, w=conj z, w=-z, shared real/imag part, w=iz, z=0); (iii) random Complex<f64> pairs with components 0 or |x| in [1e-100,1e100] of 7 value kinds x 17 shapes (adds cancellation in Re/Im of the product, w a few ulps from z, signed zeros, mixed magnitudes); (iv) f64 order triples; (v) small dyadic f64 operands judged against the rational result. A pair case is non-trivial when all four components and the real scalar are nonzero and the four component magnitudes are pairwise different (so a swapped / stale / dropped operand changes the value); a triple when all six components are nonzero and the three numbers differ. distinct = distinct (type, operands, scalar) hashes");
    rep.assumptions = vec![
        "Complex<f64> demands only for operands whose components are 0 or have magnitude in [1e-100,1e100] (checked by the harness on every case); then no product, |w|^2, quotient or TwoProd error term overflows or becomes subnormal, except the harmless underflow of a cancelling quotient component which is far below the normwise tolerance".into(),
        "division by an exactly zero complex or real divisor is undefined by the property: everything accepted (counted as undefined:*); bit identity of /= vs / is not demanded there either".into(),
        format!("fixed f64 tolerances in units of u=2^-53: mul normwise {} (rigorous bound sqrt(5)), div normwise {} (first-order bound sqrt(5)+3), real-scalar mul/div componentwise {}, abs_sqr {}, abs {}, arg (rotation residual) {}; +,-,neg,conj and scalar +,- must equal the correctly rounded components", TOL_MUL, TOL_DIV, TOL_SCALAR, TOL_ABSSQR, TOL_ABS, TOL_ARG),
        "value comparisons of f64 results use numeric equality (+0 == -0); bit identity (to_bits) is demanded between each compound-assignment form and its binary form and between f64*z and z*f64".into(),
        "the f64 reference is an exact TwoProd expansion summed in double-double (relative oracle error ~1e-31); for small dyadic operands the reference is computed over Rat and converted exactly".into(),
        "Rat overflow in model or library => case or sub-check skipped (counted), never judged".into(),
        "abs and arg are anchored but not named in the statement; they are checked as auxiliary sites (abs, arg) with their own signatures".into(),
    ];
    rep.min_nontrivial = if ctx.quick() { 100_000 } else { 2_000_000 };
    let mut ex = J::obj();
    ex.set("exhaustive_parts", J::Arr(vec![
        J::s("all 625 (z,w) over {-2,-1,0,1,2}^4 x 5 real scalars, Complex<Rat> and Complex<f64>, every operator form"),
        J::s("all 625 (z,w) over {-3/2,-1/3,0,1/2,2}^4 x 5 real scalars, Complex<Rat> and Complex<f64>"),
        J::s(&format!("all {} triples over {:?}^6: field axioms over Complex<Rat>, order transitivity over Rat and f64", tri_codes, tri_vals)),
    ]));
    ex.set("operator_forms", J::s("neg add sub mul div | add_real sub_real mul_real div_real real_mul(f64 only) | add_assign sub_assign mul_assign div_assign | add_assign_real sub_assign_real mul_assign_real div_assign_real | conj abs_sqr abs arg zero one eq ne partial_cmp lt le gt ge"));
    rep.extra = ex;
    rep
}

const RAND_UNITS_QUICK: u64 = 40_000;
const RAND_UNITS_THOROUGH: u64 = 1_000_000;
