//! C11 — polynomial arithmetic, evaluation and differentiation obey ring and calculus laws.
//!
//! The real generic `ohsl::Polynomial<T>` is instantiated at four element types:
//!   * `Rat`  (exact rationals)            — model field `Rat`
//!   * `CRat` (exact complex rationals)    — model field `CRat`
//!   * `f64`  (small integer / dyadic data) — model field `Rat`
//!   * `Complex<f64>` (Gaussian integer / dyadic data) — model field `CRat`
//! and every observable result (coefficients through the index operator, `size()`, `degree()`,
//! `eval()`, `is_zero()`, `trim()`) is compared for EXACT equality with an independently coded
//! coefficient-list model (gather convolution, falling-factorial derivative, power-sum evaluation).
//!
//! Float types: a check is judged only when an a-priori *exactness certificate* holds, namely
//! (1-norm mass bound of every intermediate quantity) x (common dyadic grid of the data) <= 2^52,
//! computed from the generated inputs alone. Under the certificate every floating-point operation
//! the library can perform on the data is exact, so exact equality is the right demand and there is
//! no tolerance anywhere in this monitor.
//!
//! Undefined by the property (accepted whatever happens, but a *returned* value must still be a
//! zero): `eval`/`derivative`/`derivative_at`/`trim` on the empty polynomial, `derivative_at` of
//! order deg+1 (evaluates the empty polynomial), `degree()` of the empty polynomial.
use crate::json::J;
use crate::mon::common::*;
use crate::rat::{CRat, Exact, Rat};
use crate::rng::Rng;
use crate::run::{catch, par_run, Ctx, Outcome, Report, Stats};
use ohsl::{Cmplx, Number, Polynomial, Signed, Zero};
use std::fmt::Debug;
use std::marker::PhantomData;

const TAG: u64 = 0xC11;
/// exactness certificate limit for the float instantiations (2^52; f64 integers are exact to 2^53)
const LIMIT: f64 = 4503599627370496.0;
const MAXLEN: usize = 9; // lengths 0..=9  <=> empty and degrees 0..8
const NPOINTS: usize = 5;

// ---------------------------------------------------------------------------------------------
// model field helpers
// ---------------------------------------------------------------------------------------------

fn gcd_i(mut a: i128, mut b: i128) -> i128 {
    if a < 0 { a = -a; }
    if b < 0 { b = -b; }
    while b != 0 { let t = a % b; a = b; b = t; }
    a
}

/// Model field: `Rat` or `CRat`, with a 1-norm magnitude and the denominator grid (as f64, used
/// only for the float exactness certificate, never for a verdict on values).
trait MF: Exact {
    fn n1(&self) -> f64;
    fn den(&self) -> f64;
    fn parts(re: Rat, im: Rat) -> Self { Self::from_parts(re, im) }
}
impl MF for Rat {
    fn n1(&self) -> f64 { self.to_f64().abs() }
    fn den(&self) -> f64 { self.d as f64 }
}
impl MF for CRat {
    fn n1(&self) -> f64 { self.re.to_f64().abs() + self.im.to_f64().abs() }
    fn den(&self) -> f64 {
        let g = gcd_i(self.re.d, self.im.d).max(1);
        (self.re.d / g) as f64 * self.im.d as f64
    }
}

/// Library element type under test together with its exact model field.
trait Elem: Copy + Number + Signed + Debug + 'static {
    type M: MF;
    const NAME: &'static str;
    const FLOAT: bool;
    const K_BOUND: &'static str;
    const K_UNCERT: &'static str;
    const K_LENPAIRS: &'static str;
    /// exact embedding of a model value (None when not exactly representable)
    fn from_m(m: &Self::M) -> Option<Self>;
}
impl Elem for Rat {
    type M = Rat;
    const NAME: &'static str = "Rat";
    const FLOAT: bool = false;
    const K_BOUND: &'static str = "Rat:unused";
    const K_UNCERT: &'static str = "Rat:unused";
    const K_LENPAIRS: &'static str = "length_pairs:Rat";
    fn from_m(m: &Rat) -> Option<Rat> { Some(*m) }
}
impl Elem for CRat {
    type M = CRat;
    const NAME: &'static str = "CRat";
    const FLOAT: bool = false;
    const K_BOUND: &'static str = "CRat:unused";
    const K_UNCERT: &'static str = "CRat:unused";
    const K_LENPAIRS: &'static str = "length_pairs:CRat";
    fn from_m(m: &CRat) -> Option<CRat> { Some(*m) }
}
impl Elem for f64 {
    type M = Rat;
    const NAME: &'static str = "f64";
    const FLOAT: bool = true;
    const K_BOUND: &'static str = "f64:max_certified_bound_over_2^52";
    const K_UNCERT: &'static str = "skipped-check:f64:exactness-not-certified";
    const K_LENPAIRS: &'static str = "length_pairs:f64";
    fn from_m(m: &Rat) -> Option<f64> { m.as_exact_f64() }
}
impl Elem for Cmplx {
    type M = CRat;
    const NAME: &'static str = "Cmplx";
    const FLOAT: bool = true;
    const K_BOUND: &'static str = "Cmplx:max_certified_bound_over_2^52";
    const K_UNCERT: &'static str = "skipped-check:Cmplx:exactness-not-certified";
    const K_LENPAIRS: &'static str = "length_pairs:Cmplx";
    fn from_m(m: &CRat) -> Option<Cmplx> { Some(Cmplx::new(m.re.as_exact_f64()?, m.im.as_exact_f64()?)) }
}

// ---------------------------------------------------------------------------------------------
// independent coefficient-list model (index i <-> coefficient of x^i; the empty list is zero)
// ---------------------------------------------------------------------------------------------

fn at<M: MF>(p: &[M], i: usize) -> M { if i < p.len() { p[i] } else { M::zero() } }

fn m_add<M: MF>(a: &[M], b: &[M]) -> Vec<M> { (0..a.len().max(b.len())).map(|i| at(a, i) + at(b, i)).collect() }
fn m_sub<M: MF>(a: &[M], b: &[M]) -> Vec<M> { (0..a.len().max(b.len())).map(|i| at(a, i) - at(b, i)).collect() }
fn m_neg<M: MF>(a: &[M]) -> Vec<M> { a.iter().map(|v| M::zero() - *v).collect() }
fn m_scal<M: MF>(a: &[M], s: M) -> Vec<M> { a.iter().map(|v| s * *v).collect() }
/// gather-form convolution: c_k = sum_{i+j=k} a_i b_j ; an empty factor gives the empty (zero) list
fn m_mul<M: MF>(a: &[M], b: &[M]) -> Vec<M> {
    if a.is_empty() || b.is_empty() { return vec![]; }
    let n = a.len() + b.len() - 1;
    let mut c = Vec::with_capacity(n);
    for k in 0..n {
        let lo = if k + 1 > b.len() { k + 1 - b.len() } else { 0 };
        let hi = k.min(a.len() - 1);
        let mut acc = M::zero();
        for i in lo..=hi { acc = acc + a[i] * b[k - i]; }
        c.push(acc);
    }
    c
}
/// falling factorial (i+k)(i+k-1)...(i+1) as a model value
fn ffact<M: MF>(i: usize, k: usize) -> M {
    let mut f = M::one();
    for t in 1..=k { f = f * M::from_int((i + t) as i64); }
    f
}
/// k-th derivative by the closed formula q_i = (i+k)!/i! p_{i+k}; order >= length gives the empty list
fn m_der<M: MF>(p: &[M], k: usize) -> Vec<M> {
    if k >= p.len() { return vec![]; }
    (0..p.len() - k).map(|i| ffact::<M>(i, k) * p[i + k]).collect()
}
/// evaluation by explicit powers (not Horner)
fn m_eval<M: MF>(p: &[M], x: M) -> M {
    let mut pw = M::one();
    let mut acc = M::zero();
    for (i, c) in p.iter().enumerate() {
        if i > 0 { pw = pw * x; }
        acc = acc + *c * pw;
    }
    acc
}
fn m_trim<M: MF>(p: &[M]) -> Vec<M> {
    let mut v = p.to_vec();
    while v.len() > 1 && v[v.len() - 1].is_zero_e() { v.pop(); }
    v
}
fn m_all_zero<M: MF>(p: &[M]) -> bool { p.iter().all(|v| v.is_zero_e()) }

fn mass<M: MF>(p: &[M]) -> f64 { p.iter().map(|v| v.n1()).sum::<f64>() }
/// derivative multiplier bound: largest falling factorial appearing in the k-th derivative of a length-n list
fn ffbound(n: usize, k: usize) -> f64 {
    if n == 0 || k >= n { return 1.0; }
    let mut f = 1.0;
    for t in 0..k { f *= (n - 1 - t) as f64; }
    f
}

// ---------------------------------------------------------------------------------------------
// one generated case (in model space)
// ---------------------------------------------------------------------------------------------

#[derive(Clone)]
struct Case<M> {
    a: Vec<M>,
    b: Vec<M>,
    c: Vec<M>,
    s: M,
    xs: Vec<M>,
}

impl<M: MF> Case<M> {
    fn hash(&self, h0: u64) -> u64 {
        let mut h = h0;
        for (k, l) in [&self.a, &self.b, &self.c].iter().enumerate() {
            h = hmix(h, 0x100 + k as u64 + ((l.len() as u64) << 8));
            for v in l.iter() { h = hmix(h, v.hash_u64()); }
        }
        h = hmix(h, self.s.hash_u64());
        for v in &self.xs { h = hmix(h, v.hash_u64()); }
        h
    }
    /// common denominator grid of all coefficients and the scalar (f64, certificate only)
    fn coeff_grid(&self) -> f64 {
        let mut g = 1.0f64;
        for v in self.a.iter().chain(self.b.iter()).chain(self.c.iter()).chain(std::iter::once(&self.s)) {
            g = g.max(v.den());
        }
        g
    }
}

// ---------------------------------------------------------------------------------------------
// oracle context
// ---------------------------------------------------------------------------------------------

#[derive(Clone, Copy, PartialEq)]
enum Mode {
    /// coefficient list must equal the model list exactly (same length, same values)
    Strict,
    /// any representation of the zero polynomial (empty or all-zero list of any length)
    ZeroAny,
}

struct Cx<'a, T: Elem> {
    st: &'a mut Stats,
    desc: &'a dyn Fn() -> String,
    /// (coefficient grid)^4 — multiplies every float certificate bound
    gfac: f64,
    _t: PhantomData<T>,
}

fn padded_eq<T: Elem>(a: &[T], b: &[T]) -> bool {
    let n = a.len().max(b.len());
    (0..n).all(|i| {
        let x = if i < a.len() { a[i] } else { T::zero() };
        let y = if i < b.len() { b[i] } else { T::zero() };
        x == y
    })
}

impl<'a, T: Elem> Cx<'a, T> {
    fn sig(site: &str, mode: &str) -> String { format!("C11:{}:{}:{}", site, T::NAME, mode) }

    /// float exactness certificate; exact types are always certified
    fn certified(&mut self, bound: f64) -> bool {
        if !T::FLOAT { return true; }
        let b = bound * self.gfac;
        if b <= LIMIT {
            self.st.max(T::K_BOUND, b / LIMIT);
            true
        } else {
            self.st.count(T::K_UNCERT);
            false
        }
    }

    fn conv(&mut self, want: &[T::M]) -> Option<Vec<T>> {
        let r: Option<Vec<T>> = want.iter().map(|m| T::from_m(m)).collect();
        if r.is_none() { self.st.count("skipped-check:model-value-not-representable"); }
        r
    }

    /// observe a polynomial through size(), the index operator and degree()
    fn observe(&mut self, site: &str, p: &Polynomial<T>) -> Option<Vec<T>> {
        let n = match catch(|| p.size()) { Outcome::Ok(n) => n, _ => return None };
        match catch(|| (0..n).map(|i| p[i]).collect::<Vec<T>>()) {
            Outcome::Ok(v) => {
                match catch(|| p.degree()) {
                    Outcome::Ok(d) => {
                        if n > 0 && d != Ok(n - 1) {
                            self.st.violation(&Self::sig(site, "degree-mismatch"),
                                format!("{}: result has size {} but degree() = {:?}; {}", site, n, d, (self.desc)()));
                        }
                        if n == 0 { self.st.set_insert("degree_of_empty", format!("{:?}", d.is_ok())); }
                    }
                    other => {
                        if n > 0 {
                            self.st.violation(&Self::sig(site, "degree-refused"),
                                format!("{}: degree() {} on a size-{} polynomial; {}", site, other.describe(), n, (self.desc)()));
                        }
                    }
                }
                Some(v)
            }
            Outcome::Overflow => None,
            other => {
                self.st.violation(&Self::sig(site, "index-refused"),
                    format!("{}: reading coefficients 0..{} of the result {}; {}", site, n, other.describe(), (self.desc)()));
                None
            }
        }
    }

    /// Judge a polynomial-valued library call where the property demands success.
    fn poly(&mut self, site: &str, out: Outcome<Polynomial<T>>, want: &[T::M], mode: Mode, bound: f64) -> Option<Polynomial<T>> {
        self.st.eval();
        match out {
            Outcome::Ok(p) => {
                if !self.certified(bound) { return Some(p); }
                let got = self.observe(site, &p)?;
                let want_t = match self.conv(want) { Some(w) => w, None => return Some(p) };
                let ok = match mode {
                    Mode::Strict => got == want_t,
                    Mode::ZeroAny => got.iter().all(|v| *v == T::zero()),
                };
                if !ok {
                    let kind = if mode == Mode::Strict && padded_eq(&got, &want_t) { "wrong-size" } else { "wrong-value" };
                    let exp = if mode == Mode::ZeroAny { "a zero polynomial".to_string() } else { format!("{:?}", want) };
                    self.st.violation(&Self::sig(site, kind),
                        format!("{} returned coefficients {:?} but the exact result is {}; {}", site, got, exp, (self.desc)()));
                }
                Some(p)
            }
            Outcome::Overflow => { self.st.count("skipped-check:rat-overflow-in-library"); None }
            other => {
                self.st.violation(&Self::sig(site, "refused"),
                    format!("{} {} where the exact result is {:?}; {}", site, other.describe(), want, (self.desc)()));
                None
            }
        }
    }

    /// Polynomial-valued call on an input for which the property leaves the behaviour undefined
    /// (empty operand of eval/derivative/trim): any refusal is accepted; a returned value must be zero.
    fn poly_undef(&mut self, site: &str, out: Outcome<Polynomial<T>>) {
        self.st.eval();
        match out {
            Outcome::Ok(p) => {
                self.st.count("undefined-input:returned");
                if let Some(got) = self.observe(site, &p) {
                    if !got.iter().all(|v| *v == T::zero()) {
                        self.st.violation(&Self::sig(site, "empty-not-zero"),
                            format!("{} on the empty polynomial returned non-zero coefficients {:?}; {}", site, got, (self.desc)()));
                    }
                }
            }
            Outcome::Overflow => self.st.count("skipped-check:rat-overflow-in-library"),
            _ => self.st.count("undefined-input:refused(accepted)"),
        }
    }

    /// Judge a scalar-valued library call where the property demands success.
    fn val(&mut self, site: &str, out: Outcome<T>, want: &T::M, bound: f64) {
        self.st.eval();
        match out {
            Outcome::Ok(v) => {
                if !self.certified(bound) { return; }
                let w = match T::from_m(want) { Some(w) => w, None => { self.st.count("skipped-check:model-value-not-representable"); return; } };
                if !(v == w) {
                    self.st.violation(&Self::sig(site, "wrong-value"),
                        format!("{} returned {:?} but the exact value is {:?}; {}", site, v, want, (self.desc)()));
                }
            }
            Outcome::Overflow => self.st.count("skipped-check:rat-overflow-in-library"),
            other => {
                self.st.violation(&Self::sig(site, "refused"),
                    format!("{} {} where the exact value is {:?}; {}", site, other.describe(), want, (self.desc)()));
            }
        }
    }

    /// Scalar-valued call that evaluates the empty polynomial: refusal accepted, a returned value must be zero.
    fn val_undef(&mut self, site: &str, out: Outcome<T>) {
        self.st.eval();
        match out {
            Outcome::Ok(v) => {
                self.st.count("undefined-input:returned");
                if !(v == T::zero()) {
                    self.st.violation(&Self::sig(site, "empty-not-zero"),
                        format!("{} evaluated the empty polynomial to {:?} (it must act as zero); {}", site, v, (self.desc)()));
                }
            }
            Outcome::Overflow => self.st.count("skipped-check:rat-overflow-in-library"),
            _ => self.st.count("undefined-input:refused(accepted)"),
        }
    }

    /// value of a result polynomial at x: equals `want` (the same combination of the operands' exact
    /// values); when the library's result is the empty polynomial, eval is undefined (see val_undef).
    fn value_at(&mut self, site: &str, p: &Polynomial<T>, x: T, want: &T::M, bound: f64) {
        if p.size() == 0 { self.val_undef(site, catch(|| p.eval(x))); }
        else { self.val(site, catch(|| p.eval(x)), want, bound); }
    }

    fn flag(&mut self, site: &str, out: Outcome<bool>, want: bool) {
        self.st.eval();
        match out {
            Outcome::Ok(v) => {
                if v != want {
                    self.st.violation(&Self::sig(site, "wrong-value"), format!("{} returned {} but must be {}; {}", site, v, want, (self.desc)()));
                }
            }
            Outcome::Overflow => self.st.count("skipped-check:rat-overflow-in-library"),
            other => {
                self.st.violation(&Self::sig(site, "refused"), format!("{} {}; {}", site, other.describe(), (self.desc)()));
            }
        }
    }
}

/// x-dependent certificate factor: (max(1,|x|_1) * denominator grid of x)^d
fn xpow<M: MF>(x: &M, d: usize) -> f64 { (x.n1().max(1.0) * x.den()).powi(d as i32) }

// ---------------------------------------------------------------------------------------------
// the judge
// ---------------------------------------------------------------------------------------------

/// everything that involves a single polynomial `pm` (model list) / `pt` (library element list)
fn unary<T: Elem>(cx: &mut Cx<T>, pm: &[T::M], pt: &[T], sm: T::M, s: T, xm: &[T::M], xt: &[T]) {
    let n = pm.len();
    let ms = mass(pm).max(1.0);
    let p = Polynomial::new(pt.to_vec());

    // construction, size, index, degree, clone, coeffs()
    cx.poly("new", Outcome::Ok(Polynomial::new(pt.to_vec())), pm, Mode::Strict, ms);
    cx.poly("clone", catch(|| p.clone()), pm, Mode::Strict, ms);
    cx.poly("coeffs", catch(|| { let mut q = p.clone(); let v = q.coeffs().clone(); Polynomial::new(v) }), pm, Mode::Strict, ms);
    cx.flag("is_zero", catch(|| p.is_zero()), m_all_zero(pm));
    if n == 0 {
        cx.poly("empty", Outcome::Ok(Polynomial::<T>::empty()), pm, Mode::Strict, ms);
    }

    // evaluation (Horner in the library, explicit powers in the model)
    for (x, xq) in xt.iter().zip(xm) {
        if n == 0 { cx.val_undef("eval", catch(|| p.eval(*x))); }
        else { cx.val("eval", catch(|| p.eval(*x)), &m_eval(pm, *xq), ms * xpow(xq, n - 1)); }
    }

    // negation and scalar multiple, borrowed and owned
    let wneg = m_neg(pm);
    let neg = cx.poly("neg", catch(|| -&p), &wneg, Mode::Strict, ms);
    cx.poly("neg-owned", catch(|| -(p.clone())), &wneg, Mode::Strict, ms);
    let wsc = m_scal(pm, sm);
    let sb = ms * sm.n1().max(1.0);
    let sc = cx.poly("scalar", catch(|| &p * s), &wsc, Mode::Strict, sb);
    cx.poly("scalar-owned", catch(|| p.clone() * s), &wsc, Mode::Strict, sb);
    for (x, xq) in xt.iter().zip(xm) {
        let v = m_eval(pm, *xq);
        if let Some(q) = &neg { cx.value_at("value:neg", q, *x, &(T::M::zero() - v), ms * xpow(xq, n.max(1) - 1)); }
        if let Some(q) = &sc { cx.value_at("value:scalar", q, *x, &(sm * v), sb * xpow(xq, n.max(1) - 1)); }
    }

    // differentiation
    if n == 0 {
        cx.poly_undef("derivative", catch(|| p.derivative()));
        cx.poly("derivative_n", catch(|| p.derivative_n(0)), pm, Mode::Strict, ms);
        cx.poly_undef("derivative_n", catch(|| p.derivative_n(1)));
        cx.val_undef("derivative_at", catch(|| p.derivative_at(xt[0], 0)));
    } else {
        let d1 = m_der(pm, 1);
        let dp = cx.poly("derivative", catch(|| p.derivative()), &d1, if n == 1 { Mode::ZeroAny } else { Mode::Strict }, ms * ffbound(n, 1));
        // derivative values at the points (value of p' from the model)
        if let Some(dp) = &dp {
            for (x, xq) in xt.iter().zip(xm) {
                cx.value_at("value:derivative", dp, *x, &m_eval(&d1, *xq), ms * ffbound(n, 1) * xpow(xq, n.max(2) - 2));
            }
        }
        for k in 0..=n {
            let dk = m_der(pm, k);
            let fb = ms * ffbound(n, k);
            cx.poly("derivative_n", catch(|| p.derivative_n(k)), &dk, if k >= n { Mode::ZeroAny } else { Mode::Strict }, fb);
            for j in 0..2.min(xt.len()) {
                if k < n {
                    cx.val("derivative_at", catch(|| p.derivative_at(xt[j], k)), &m_eval(&dk, xm[j]), fb * xpow(&xm[j], n - 1 - k));
                } else {
                    // order deg+1: the library evaluates the empty polynomial (undefined); a returned value must be 0
                    cx.val_undef("derivative_at", catch(|| p.derivative_at(xt[j], k)));
                }
            }
        }
    }

    // trim
    if n == 0 {
        cx.poly_undef("trim", catch(|| { let mut q = p.clone(); q.trim(); q }));
    } else {
        cx.poly("trim", catch(|| { let mut q = p.clone(); q.trim(); q }), &m_trim(pm), Mode::Strict, ms);
    }

    // named constructors: quadratic(a,b,c) = a x^2 + b x + c ; cubic(a,b,c,d) = a x^3 + b x^2 + c x + d
    if n >= 3 {
        let q = cx.poly("quadratic", catch(|| Polynomial::quadratic(pt[2], pt[1], pt[0])), &pm[0..3], Mode::Strict, ms);
        if let Some(q) = q {
            let xq = xm[xm.len() - 1];
            let w = pm[2] * xq * xq + pm[1] * xq + pm[0];
            cx.value_at("value:quadratic", &q, xt[xt.len() - 1], &w, ms * xpow(&xq, 2));
        }
    }
    if n >= 4 {
        let q = cx.poly("cubic", catch(|| Polynomial::cubic(pt[3], pt[2], pt[1], pt[0])), &pm[0..4], Mode::Strict, ms);
        if let Some(q) = q {
            let xq = xm[xm.len() - 1];
            let w = pm[3] * xq * xq * xq + pm[2] * xq * xq + pm[1] * xq + pm[0];
            cx.value_at("value:cubic", &q, xt[xt.len() - 1], &w, ms * xpow(&xq, 3));
        }
    }
}

fn judge_inner<T: Elem>(st: &mut Stats, class: &str, cs: &Case<T::M>) {
    let desc = || format!("T={} class={} a={:?} b={:?} c={:?} s={:?} xs={:?}", T::NAME, class, cs.a, cs.b, cs.c, cs.s, cs.xs);
    // embed the inputs into the library element type (exact or not at all)
    let emb = |l: &[T::M]| -> Option<Vec<T>> { l.iter().map(|m| T::from_m(m)).collect() };
    let (a, b, c, xs, s) = match (emb(&cs.a), emb(&cs.b), emb(&cs.c), emb(&cs.xs), T::from_m(&cs.s)) {
        (Some(a), Some(b), Some(c), Some(x), Some(s)) => (a, b, c, x, s),
        _ => { st.count("skipped:inputs-not-representable"); return; }
    };
    let g = cs.coeff_grid();
    let mut cx = Cx::<T> { st, desc: &desc, gfac: g * g * g * g, _t: PhantomData };
    let (am, bm, cm, sm, xm) = (&cs.a[..], &cs.b[..], &cs.c[..], cs.s, &cs.xs[..]);
    let (la, lb, lc) = (am.len(), bm.len(), cm.len());
    let (ma, mb, mc) = (mass(am).max(1.0), mass(bm).max(1.0), mass(cm).max(1.0));
    let msc = sm.n1().max(1.0);

    unary(&mut cx, am, &a, sm, s, xm, &xs);
    unary(&mut cx, bm, &b, sm, s, xm, &xs);

    let pa = Polynomial::new(a.clone());
    let pb = Polynomial::new(b.clone());
    let pc = Polynomial::new(c.clone());

    // ---- sum, difference, product: borrowed, owned, commuted ----
    let wadd = m_add(am, bm);
    let wsub = m_sub(am, bm);
    let wmul = m_mul(am, bm);
    let mulmode = if la == 0 || lb == 0 { Mode::ZeroAny } else { Mode::Strict };
    let sum = cx.poly("add", catch(|| &pa + &pb), &wadd, Mode::Strict, ma + mb);
    cx.poly("add-owned", catch(|| pa.clone() + pb.clone()), &wadd, Mode::Strict, ma + mb);
    // the same owned forms on operands whose coefficient vectors carry SPARE CAPACITY (len < capacity, as after trim / pop /
    // push): the length, never the capacity, decides
    let spare = |v: &Vec<T>, k: usize| -> Polynomial<T> { let mut w: Vec<T> = Vec::with_capacity(v.len() + k); w.extend(v.iter().cloned()); Polynomial::new(w) };
    let (ka, kb) = (1 + (la * 3 + lb) % 9, (la + 2 * lb) % 4);
    cx.poly("add-owned", catch(|| spare(&a, ka) + spare(&b, kb)), &wadd, Mode::Strict, ma + mb);
    cx.poly("add-owned", catch(|| spare(&b, ka) + spare(&a, kb)), &wadd, Mode::Strict, ma + mb);
    cx.poly("sub-owned", catch(|| spare(&a, ka) - spare(&b, kb)), &wsub, Mode::Strict, ma + mb);
    cx.poly("mul-owned", catch(|| spare(&a, ka) * spare(&b, kb)), &wmul, mulmode, ma * mb);
    cx.poly("add", catch(|| &pb + &pa), &wadd, Mode::Strict, ma + mb);
    let dif = cx.poly("sub", catch(|| &pa - &pb), &wsub, Mode::Strict, ma + mb);
    cx.poly("sub-owned", catch(|| pa.clone() - pb.clone()), &wsub, Mode::Strict, ma + mb);
    cx.poly("sub", catch(|| &pb - &pa), &m_neg(&wsub), Mode::Strict, ma + mb);
    let prd = cx.poly("mul", catch(|| &pa * &pb), &wmul, mulmode, ma * mb);
    cx.poly("mul-owned", catch(|| pa.clone() * pb.clone()), &wmul, mulmode, ma * mb);
    cx.poly("mul", catch(|| &pb * &pa), &wmul, mulmode, ma * mb);

    // ---- values of the results = the same combination of the operands' values ----
    let lmax = la.max(lb);
    for (x, xq) in xs.iter().zip(xm) {
        let (va, vb) = (m_eval(am, *xq), m_eval(bm, *xq));
        if let Some(p) = &sum { cx.value_at("value:add", p, *x, &(va + vb), (ma + mb) * xpow(xq, lmax.max(1) - 1)); }
        if let Some(p) = &dif { cx.value_at("value:sub", p, *x, &(va - vb), (ma + mb) * xpow(xq, lmax.max(1) - 1)); }
        if let Some(p) = &prd { cx.value_at("value:mul", p, *x, &(va * vb), ma * mb * xpow(xq, (la + lb).max(2) - 2)); }
    }

    // ---- linearity of the derivative: D(s a + b) = s D(a) + D(b) ----
    if lmax >= 1 {
        let wl = m_der(&m_add(&m_scal(am, sm), bm), 1);
        let mode = if lmax == 1 { Mode::ZeroAny } else { Mode::Strict };
        let bound = (msc * ma + mb) * lmax as f64;
        cx.poly("law:linearity-lhs", catch(|| (&(&pa * s) + &pb).derivative()), &wl, mode, bound);
        if la >= 1 && lb >= 1 {
            cx.poly("law:linearity-rhs", catch(|| &(&pa.derivative() * s) + &pb.derivative()), &wl, mode, bound);
        }
    }

    // ---- product rule: D(a b) = D(a) b + a D(b), as coefficients and as values ----
    if la >= 1 && lb >= 1 {
        let wp = m_der(&wmul, 1);
        let mode = if la + lb == 2 { Mode::ZeroAny } else { Mode::Strict };
        let bound = ma * mb * (la + lb) as f64;
        cx.poly("law:product-rule-lhs", catch(|| (&pa * &pb).derivative()), &wp, mode, bound);
        cx.poly("law:product-rule-rhs", catch(|| &(&pa.derivative() * &pb) + &(&pa * &pb.derivative())), &wp, mode, bound);
        if la + lb >= 3 {
            if let Some(p) = &prd {
                for j in 0..2.min(xs.len()) {
                    let xq = xm[j];
                    let w = m_eval(&m_der(am, 1), xq) * m_eval(bm, xq) + m_eval(am, xq) * m_eval(&m_der(bm, 1), xq);
                    cx.val("value:product-rule", catch(|| p.derivative_at(xs[j], 1)), &w, bound * xpow(&xq, la + lb - 3));
                }
            }
        }
    }

    // ---- ring laws through composed library calls ----
    {
        // distributivity (a + b) c = a c + b c
        let wd = m_mul(&wadd, cm);
        let mode = if wd.is_empty() { Mode::ZeroAny } else { Mode::Strict };
        let bound = (ma + mb) * mc;
        cx.poly("law:distributive-lhs", catch(|| &(&pa + &pb) * &pc), &wd, mode, bound);
        cx.poly("law:distributive-rhs", catch(|| &(&pa * &pc) + &(&pb * &pc)), &wd, mode, bound);
        // associativity (a b) c = a (b c)
        let wa = m_mul(&wmul, cm);
        let mode = if wa.is_empty() { Mode::ZeroAny } else { Mode::Strict };
        let bound = ma * mb * mc;
        let t1 = cx.poly("law:associative-lhs", catch(|| &(&pa * &pb) * &pc), &wa, mode, bound);
        cx.poly("law:associative-rhs", catch(|| &pa * &(&pb * &pc)), &wa, mode, bound);
        if let Some(t1) = &t1 {
            let xq = xm[0];
            let w = m_eval(am, xq) * m_eval(bm, xq) * m_eval(cm, xq);
            cx.value_at("value:triple-product", t1, xs[0], &w, bound * xpow(&xq, (la + lb + lc).max(3) - 3));
        }
        // cancellation (a - b) + b = a (padded to the longer length), a - a = 0, a + (-a) = 0
        let wc = m_add(&wsub, bm);
        cx.poly("law:cancel", catch(|| &(&pa - &pb) + &pb), &wc, Mode::Strict, ma + 2.0 * mb);
        let z: Vec<T::M> = vec![T::M::zero(); la];
        cx.poly("law:self-difference", catch(|| &pa - &pa), &z, Mode::Strict, 2.0 * ma);
        cx.poly("law:additive-inverse", catch(|| &pa + &(-&pa)), &z, Mode::Strict, 2.0 * ma);
        // scalar multiple agrees with multiplication by the constant polynomial [s] (sizes agree when a is non-empty)
        if la >= 1 {
            cx.poly("law:scalar-as-constant", catch(|| &pa * &Polynomial::new(vec![s])), &m_scal(am, sm), Mode::Strict, ma * msc);
        }
    }

    // ---- bookkeeping ----
    cx.st.set_insert(T::K_LENPAIRS, format!("{},{}", la, lb));
    let nontrivial = la >= 1 && lb >= 1 && la.max(lb) >= 2 && !(m_all_zero(am) && m_all_zero(bm));
    if nontrivial {
        cx.st.nontrivial(cs.hash(hash_str(T::NAME)));
        cx.st.count(if T::FLOAT { "cases:nontrivial:float" } else { "cases:nontrivial:exact" });
    } else {
        cx.st.count("cases:degenerate(empty/constant/zero operands)");
    }
    cx.st.sample(|| desc());
}

/// Run one case; exact-arithmetic overflow in the model skips the rest of the case, a panic in the
/// harness's own code is recorded as a harness error (=> inconclusive), never as a violation.
fn judge<T: Elem>(st: &mut Stats, class: &str, cs: &Case<T::M>) {
    st.next_case();
    let r = catch(|| judge_inner::<T>(&mut *st, class, cs));
    match r {
        Outcome::Ok(()) => {}
        Outcome::Overflow => st.count("skipped:rat-overflow-in-model"),
        other => {
            if st.harness_errors.len() < 5 {
                let msg = format!("C11 judge<{}>: harness {} (unit {} case {})", T::NAME, other.describe(), st.unit, st.case);
                st.harness_errors.push(msg);
            }
        }
    }
}

// ---------------------------------------------------------------------------------------------
// generators
// ---------------------------------------------------------------------------------------------

/// coefficient styles. Exact types use 0..=5, float types use 6..=9 (integers / half-integers only).
fn gen_rat(rng: &mut Rng, style: u32) -> Rat {
    match style {
        0 => Rat::int(rng.int(-9, 9)),
        1 => Rat::new(rng.int(-12, 12) as i128, rng.int(1, 6) as i128),
        2 => if rng.chance(0.6) { Rat::ZERO } else { Rat::int(rng.nzint(9)) },
        3 => Rat::int(if rng.bool() { 1 } else { -1 }),
        4 => Rat::new(rng.int(-1_000_000_000, 1_000_000_000) as i128, rng.int(1, 3) as i128),
        5 => Rat::new(rng.nzint(7) as i128, 1i128 << rng.int(0, 3)),
        6 => Rat::int(rng.int(-5, 5)),
        7 => if rng.chance(0.6) { Rat::ZERO } else { Rat::int(rng.nzint(5)) },
        8 => Rat::int(if rng.bool() { 1 } else { -1 }),
        _ => Rat::new(rng.int(-6, 6) as i128, 2),
    }
}
const STYLE_NAMES: [&str; 10] = ["int9", "frac", "sparse", "pm1", "big", "dyadic", "f-int5", "f-sparse", "f-pm1", "f-half"];

fn gen_m<M: MF>(rng: &mut Rng, style: u32) -> M {
    if M::is_complex() { let re = gen_rat(rng, style); let im = gen_rat(rng, style); M::parts(re, im) }
    else { M::parts(gen_rat(rng, style), Rat::ZERO) }
}

/// list of exactly `len` coefficients; with some probability zero the top, the bottom, or everything
/// (leading-zero lists exercise trim / is_zero / "degree" bookkeeping without trimming)
fn gen_list<M: MF>(rng: &mut Rng, len: usize, style: u32) -> Vec<M> {
    let mut v: Vec<M> = (0..len).map(|_| gen_m::<M>(rng, style)).collect();
    if len > 0 {
        let r = rng.below(100);
        if r < 18 { let t = rng.usize(1, len); for i in len - t..len { v[i] = M::zero(); } }
        else if r < 28 { let t = rng.usize(1, len); for i in 0..t { v[i] = M::zero(); } }
        else if r < 32 { for i in 0..len { v[i] = M::zero(); } }
        // gappy shapes: a single term c*x^k stored at full length, a*x^(len-1) + c, and one long run of zero coefficients
        else if r < 52 {
            let nz = |rng: &mut Rng| -> M { for _ in 0..8 { let c = gen_m::<M>(rng, style); if !c.is_zero_e() { return c; } } M::one() };
            if r < 40 { let k = rng.usize(0, len - 1); let c = nz(rng); for i in 0..len { v[i] = M::zero(); } v[k] = c; }
            else if r < 46 { let (c0, c1) = (nz(rng), nz(rng)); for i in 0..len { v[i] = M::zero(); } v[0] = c0; v[len - 1] = c1; }
            else { let i0 = rng.usize(0, len - 1); let i1 = rng.usize(i0, len - 1); for i in i0..=i1 { v[i] = M::zero(); } if v[len - 1].is_zero_e() && rng.bool() { v[len - 1] = nz(rng); } }
        }
    }
    v
}

fn gen_point<M: MF>(rng: &mut Rng, float: bool, trivial: bool) -> M {
    let r = |rng: &mut Rng| -> Rat {
        if trivial { return Rat::int(rng.int(-1, 1)); }
        if float {
            match rng.below(4) { 0 => Rat::int(rng.int(-3, 3)), 1 => Rat::new(rng.int(-4, 4) as i128, 2), 2 => Rat::int(rng.int(-1, 1)), _ => Rat::new(rng.int(-5, 5) as i128, 4) }
        } else {
            match rng.below(3) { 0 => Rat::int(rng.int(-6, 6)), 1 => Rat::new(rng.int(-10, 10) as i128, rng.int(1, 5) as i128), _ => Rat::new(rng.int(-9, 9) as i128, 1i128 << rng.int(0, 4)) }
        }
    };
    if M::is_complex() { let re = r(rng); let im = r(rng); M::parts(re, im) } else { M::parts(r(rng), Rat::ZERO) }
}

fn gen_case<M: MF>(rng: &mut Rng, la: usize, lb: usize, float: bool) -> (Case<M>, &'static str) {
    let style = if float { 6 + rng.below(4) as u32 } else { rng.below(6) as u32 };
    let a = gen_list::<M>(rng, la, style);
    let b = gen_list::<M>(rng, lb, style);
    let lc = rng.usize(0, 4);
    let c = gen_list::<M>(rng, lc, if float { 6 } else { style });
    let s = match rng.below(8) { 0 => M::zero(), 1 => M::one(), 2 => M::zero() - M::one(), _ => gen_m::<M>(rng, if float { 6 } else { style }) };
    // xs[0] is drawn from {-1,0,1}(+i{-1,0,1}) so that the float certificate always holds for at least one point
    let xs: Vec<M> = (0..NPOINTS).map(|i| gen_point::<M>(rng, float, i == 0)).collect();
    (Case { a, b, c, s, xs }, STYLE_NAMES[style as usize])
}

/// all coefficient lists of length 0..=maxlen over an alphabet, deterministic order
fn all_lists<M: MF>(alpha: &[M], maxlen: usize) -> Vec<Vec<M>> {
    let mut out: Vec<Vec<M>> = vec![vec![]];
    let mut prev: Vec<Vec<M>> = vec![vec![]];
    for _ in 0..maxlen {
        let mut next = Vec::with_capacity(prev.len() * alpha.len());
        for p in &prev { for a in alpha { let mut q = p.clone(); q.push(*a); next.push(q); } }
        out.extend(next.iter().cloned());
        prev = next;
    }
    out
}

struct Sweep<M> { name: &'static str, lists: Vec<Vec<M>>, scalars: Vec<M>, xs: Vec<M> }

fn sweep_real(name: &'static str, lo: i64, hi: i64, maxlen: usize) -> Sweep<Rat> {
    let alpha: Vec<Rat> = (lo..=hi).map(Rat::int).collect();
    Sweep {
        name,
        lists: all_lists(&alpha, maxlen),
        scalars: vec![Rat::int(2), Rat::int(-1), Rat::ZERO, Rat::int(3)],
        xs: vec![Rat::ZERO, Rat::ONE, Rat::int(-1), Rat::int(2), Rat::new(-1, 2)],
    }
}
fn sweep_gauss(name: &'static str, maxlen: usize) -> Sweep<CRat> {
    let z = |a: i64, b: i64| CRat::new(Rat::int(a), Rat::int(b));
    let alpha = vec![z(0, 0), z(1, 0), z(-1, 0), z(0, 1), z(0, -1)];
    Sweep {
        name,
        lists: all_lists(&alpha, maxlen),
        scalars: vec![z(2, 0), z(0, 1), z(0, 0), z(1, -1)],
        xs: vec![z(0, 0), z(0, 1), z(-1, 0), z(1, 1), CRat::new(Rat::new(1, 2), Rat::new(-1, 2))],
    }
}
fn sweep_case<M: MF>(sw: &Sweep<M>, ia: usize, ib: usize) -> Case<M> {
    let n = sw.lists.len();
    Case {
        a: sw.lists[ia].clone(),
        b: sw.lists[ib].clone(),
        c: sw.lists[(ia * 7 + ib * 13 + 5) % n].clone(),
        s: sw.scalars[(ia + ib) % sw.scalars.len()],
        xs: sw.xs.clone(),
    }
}

// ---------------------------------------------------------------------------------------------
// entry point
// ---------------------------------------------------------------------------------------------

/// Aliasing and state: the same object on both sides of an operator, and one live polynomial put through a sequence of
/// queries (derivative, derivative_n, eval, degree) interleaved with in-place edits (index write, coeffs().push/pop,
/// trim, clone-and-continue), compared with a plain coefficient list after every step.
/// Evaluation far out: a polynomial whose coefficients above degree 1 are stored zeros (padding, or the result of a
/// cancelled difference) has the value c0 + c1*x, representable for |x| up to 2^1000; an evaluation scheme must not form
/// powers of x that the definition never needs (0 * inf = NaN).
fn huge_points(st: &mut Stats, rng: &mut Rng) {
    st.next_case();
    let len = rng.usize(2, 9);
    let (c0, c1) = (rng.int(-5, 5) as f64, rng.nzint(5) as f64);
    let k = rng.int(300, 1000) as i32;
    let x = 2f64.powi(k) * if rng.bool() { 1.0 } else { -1.0 };
    let want = c1 * x + c0;
    let mut c = vec![0.0f64; len]; c[0] = c0; c[1] = c1;
    let via_sub = len >= 3 && rng.bool();
    let p = if via_sub { let mut u = c.clone(); let mut v = vec![0.0; len]; let t = rng.nzint(4) as f64; u[len - 1] = t; v[len - 1] = t; &Polynomial::new(u) - &Polynomial::new(v) } else { Polynomial::new(c.clone()) };
    let desc = || format!("p = {:?}{} (size {}), x = {}2^{}", c, if via_sub { " obtained as a difference whose leading terms cancel" } else { "" }, len, if x < 0.0 { "-" } else { "" }, k);
    st.eval();
    match catch(|| (p.eval(x), p.derivative_at(x, 0), p.derivative_at(x, 1))) {
        Outcome::Ok((v, d0, d1)) => { if v != want || d0 != want || d1 != c1 { st.violation("C11:eval:f64:huge-point", format!("eval = {:e}, derivative_at(x,0) = {:e}, derivative_at(x,1) = {:e}; expected {:e}, {:e}, {:e}; {}", v, d0, d1, want, want, c1, desc())); } }
        o => st.violation("C11:eval:f64:huge-point", format!("{}; {}", o.describe(), desc())),
    }
    let axis = rng.bool();
    let z = if axis { Cmplx::new(x, 0.0) } else { Cmplx::new(0.0, x) };
    let pc = Polynomial::new(c.iter().map(|v| Cmplx::new(*v, 0.0)).collect::<Vec<_>>());
    let wz = if axis { Cmplx::new(c1 * x + c0, 0.0) } else { Cmplx::new(c0, c1 * x) };
    st.eval();
    match catch(|| pc.eval(z)) {
        Outcome::Ok(v) => if !(v.real == wz.real && v.imag == wz.imag) { st.violation("C11:eval:Cmplx:huge-point", format!("eval({:?}) = {:?} expected {:?}; {}", z, v, wz, desc())); },
        o => st.violation("C11:eval:Cmplx:huge-point", format!("{}; {}", o.describe(), desc())),
    }
    st.count("huge-point-cases");
}

/// Exactly representable products of coefficients of very different magnitude: a has coefficients s_i * 2^(e_i), |e_i| <= 60,
/// b is a single term c x^k stored at any length (all other coefficients zero). Every coefficient of a*b is ONE product
/// a_i * c, exactly representable; a scheme that first adds coefficients of different magnitude (Karatsuba-type splitting)
/// loses them.
fn wide_spread_products(st: &mut Stats, rng: &mut Rng) {
    st.next_case();
    let (la, lb) = (rng.usize(1, 9), rng.usize(1, 9));
    let k = rng.usize(0, lb - 1);
    let a: Vec<f64> = (0..la).map(|_| if rng.chance(0.15) { 0.0 } else { rng.nzint(7) as f64 * 2f64.powi(rng.int(-60, 60) as i32) }).collect();
    let c = rng.nzint(5) as f64 * 2f64.powi(rng.int(-20, 20) as i32);
    let mut b = vec![0.0f64; lb]; b[k] = c;
    let mut want = vec![0.0f64; la + lb - 1];
    for i in 0..la { want[i + k] = a[i] * c; }
    let cf = |p: &Polynomial<f64>| (0..p.size()).map(|i| p[i]).collect::<Vec<f64>>();
    let (pa, pb) = (Polynomial::new(a.clone()), Polynomial::new(b.clone()));
    for (name, out) in [("mul(&a,&b)", catch(|| cf(&(&pa * &pb)))), ("mul(&b,&a)", catch(|| cf(&(&pb * &pa)))), ("mul(a,b)", catch(|| cf(&(pa.clone() * pb.clone()))))] {
        st.eval();
        match out {
            Outcome::Ok(g) => if g.len() != want.len() || g.iter().zip(&want).any(|(x, y)| x != y) { st.violation("C11:mul:f64:wide-spread", format!("{} = {:?}, expected {:?} (every coefficient is a single exactly representable product); a={:?} b={:?}", name, g, want, a, b)); return; },
            o => { st.violation("C11:mul:f64:wide-spread", format!("{} {}; a={:?} b={:?}", name, o.describe(), a, b)); return; }
        }
    }
    // Complex<f64>: a with real and imaginary parts of different magnitude, b = c x^k with c in {1, i, -1, 2i}
    let az: Vec<Cmplx> = (0..la).map(|i| Cmplx::new(a[i], a[(i + 1) % la] * 0.5)).collect();
    let cz = *rng.pick(&[Cmplx::new(1.0, 0.0), Cmplx::new(0.0, 1.0), Cmplx::new(-1.0, 0.0), Cmplx::new(0.0, 2.0)]);
    let mut bz = vec![Cmplx::new(0.0, 0.0); lb]; bz[k] = cz;
    let mut wz = vec![Cmplx::new(0.0, 0.0); la + lb - 1];
    for i in 0..la { wz[i + k] = az[i] * cz; }
    let cz_of = |p: &Polynomial<Cmplx>| (0..p.size()).map(|i| p[i]).collect::<Vec<Cmplx>>();
    let (qa, qb) = (Polynomial::new(az.clone()), Polynomial::new(bz.clone()));
    for (name, out) in [("mul(&a,&b)", catch(|| cz_of(&(&qa * &qb)))), ("mul(&b,&a)", catch(|| cz_of(&(&qb * &qa))))] {
        st.eval();
        match out {
            Outcome::Ok(g) => if g.len() != wz.len() || g.iter().zip(&wz).any(|(x, y)| x.real != y.real || x.imag != y.imag) { st.violation("C11:mul:Cmplx:wide-spread", format!("{} = {:?}, expected {:?}; a={:?} b={:?}", name, g, wz, az, bz)); return; },
            o => { st.violation("C11:mul:Cmplx:wide-spread", format!("{} {}; a={:?} b={:?}", name, o.describe(), az, bz)); return; }
        }
    }
    st.count("wide-spread-product-cases");
}

fn alias_and_history(st: &mut Stats, rng: &mut Rng) {
    st.next_case();
    fn norm(mut c: Vec<Rat>) -> Vec<Rat> { while c.last().map_or(false, |x| x.is_zero()) { c.pop(); } c }
    fn coeffs_of(p: &Polynomial<Rat>) -> Vec<Rat> { (0..p.size()).map(|i| p[i]).collect() }
    fn deriv(c: &[Rat]) -> Vec<Rat> { (1..c.len()).map(|k| c[k] * Rat::int(k as i64)).collect() }
    let gen = |rng: &mut Rng, n: usize| -> Vec<Rat> { (0..n).map(|_| if rng.chance(0.2) { Rat::ZERO } else { Rat::int(rng.int(-6, 6)) }).collect() };
    // aliasing: &p op &p
    let n = rng.usize(0, 7);
    let c = gen(rng, n);
    let p = Polynomial::new(c.clone());
    let mut conv = vec![Rat::ZERO; if n == 0 { 0 } else { 2 * n - 1 }];
    for i in 0..n { for j in 0..n { conv[i + j] = conv[i + j] + c[i] * c[j]; } }
    let dbl: Vec<Rat> = c.iter().map(|x| *x + *x).collect();
    for (name, out, want) in [("mul(&p,&p)", catch(|| coeffs_of(&(&p * &p))), conv), ("add(&p,&p)", catch(|| coeffs_of(&(&p + &p))), dbl), ("sub(&p,&p)", catch(|| coeffs_of(&(&p - &p))), vec![])] {
        st.eval();
        match out { Outcome::Ok(g) => if norm(g.clone()) != norm(want.clone()) { st.violation(&format!("C11:alias:{}:Rat:wrong-value", name), format!("p={:?}: {} = {:?} expected {:?}", c, name, g, want)); }, Outcome::Overflow => {}, o => st.violation(&format!("C11:alias:{}:Rat:refused", name), format!("p={:?}: {}", c, o.describe())) }
    }
    // history on one live object
    let n = rng.usize(1, 6);
    let mut m = gen(rng, n);
    let mut q = { let mut w: Vec<Rat> = Vec::with_capacity(n + rng.usize(0, 6)); w.extend(m.iter().cloned()); Polynomial::new(w) };
    let mut log: Vec<String> = vec![format!("start {:?}", m)];
    for _ in 0..rng.usize(3, 12) {
        let op = rng.below(12);
        let v = Rat::int(rng.int(-6, 6));
        match op {
            0 | 1 | 2 => { if m.is_empty() { continue; } log.push("derivative()".into()); st.eval(); match catch(|| coeffs_of(&q.derivative())) { Outcome::Ok(g) => if norm(g.clone()) != norm(deriv(&m)) { st.violation("C11:history:derivative:Rat:stale-or-wrong", format!("derivative = {:?} expected {:?} after {:?}", g, deriv(&m), log)); return; }, Outcome::Overflow => return, o => { st.violation("C11:history:derivative:Rat:refused", format!("{} after {:?}", o.describe(), log)); return; } } }
            3 => { if m.is_empty() { continue; } let k = rng.usize(0, 3); log.push(format!("derivative_n({})", k)); let mut w = m.clone(); for _ in 0..k { w = deriv(&w); } if w.is_empty() && k > 0 && m.len() <= k { continue; } st.eval(); match catch(|| coeffs_of(&q.derivative_n(k))) { Outcome::Ok(g) => if norm(g.clone()) != norm(w.clone()) { st.violation("C11:history:derivative_n:Rat:stale-or-wrong", format!("derivative_n({}) = {:?} expected {:?} after {:?}", k, g, w, log)); return; }, Outcome::Overflow => return, _ => {} } }
            4 => { if m.is_empty() { continue; } let x = Rat::int(rng.int(-3, 3)); log.push(format!("eval({:?})", x)); let mut val = Rat::ZERO; for k in (0..m.len()).rev() { val = val * x + m[k]; } st.eval(); match catch(|| q.eval(x)) { Outcome::Ok(g) => if g != val { st.violation("C11:history:eval:Rat:stale-or-wrong", format!("eval = {:?} expected {:?} after {:?}", g, val, log)); return; }, Outcome::Overflow => return, o => { st.violation("C11:history:eval:Rat:refused", format!("{} after {:?}", o.describe(), log)); return; } } }
            5 => { if m.is_empty() { continue; } let i = rng.usize(0, m.len() - 1); log.push(format!("p[{}] = {:?}", i, v)); m[i] = v; if !catch(|| q[i] = v).is_ok() { st.violation("C11:history:index_mut:Rat:refused", format!("after {:?}", log)); return; } }
            9 | 10 => { // the live object itself is CONSUMED by an owned operator (it may carry spare capacity from earlier pops)
                let k = rng.usize(0, 8); let o = gen(rng, k); let sub = op == 10 && rng.bool(); let left = rng.bool();
                log.push(format!("p = {} {} {:?}", if left { "p" } else { "other" }, if sub { "-" } else { "+" }, o));
                let len = m.len().max(o.len());
                let at = |c: &Vec<Rat>, i: usize| if i < c.len() { c[i] } else { Rat::ZERO };
                let want: Vec<Rat> = (0..len).map(|i| if !sub { at(&m, i) + at(&o, i) } else if left { at(&m, i) - at(&o, i) } else { at(&o, i) - at(&m, i) }).collect();
                let taken = std::mem::replace(&mut q, Polynomial::new(vec![]));
                let other = Polynomial::new(o.clone());
                st.eval();
                match catch(move || match (sub, left) { (false, true) => taken + other, (false, false) => other + taken, (true, true) => taken - other, (true, false) => other - taken }) {
                    Outcome::Ok(r) => { q = r; if norm(coeffs_of(&q)) != norm(want.clone()) { st.violation("C11:history:owned-operator:Rat:wrong-value", format!("result {:?} expected {:?} after {:?}", coeffs_of(&q), want, log)); return; } m = coeffs_of(&q); }
                    Outcome::Overflow => return,
                    o => { st.violation("C11:history:owned-operator:Rat:refused", format!("{} after {:?}", o.describe(), log)); return; }
                }
            }
            11 => { if m.is_empty() { continue; } log.push("trim()".into()); while m.len() > 1 && m[m.len() - 1].is_zero() { m.pop(); } if !catch(|| q.trim()).is_ok() { st.violation("C11:history:trim:Rat:refused", format!("after {:?}", log)); return; } if norm(coeffs_of(&q)) != norm(m.clone()) { st.violation("C11:history:trim:Rat:wrong-value", format!("{:?} after {:?}", coeffs_of(&q), log)); return; } m = coeffs_of(&q); }
            6 => { log.push(format!("coeffs().push({:?})", v)); m.push(v); q.coeffs().push(v); }
            7 => { if m.len() < 2 { continue; } log.push("coeffs().pop()".into()); m.pop(); q.coeffs().pop(); }
            _ => { log.push("clone-and-continue".into()); let c2 = q.clone(); q = c2; }
        }
        st.eval();
        if coeffs_of(&q) != m { st.violation("C11:history:coefficients:Rat:differ-from-model", format!("coefficients {:?} model {:?} after {:?}", coeffs_of(&q), m, log)); return; }
    }
    st.count("alias-and-history-cases");
}

pub fn run(ctx: &Ctx) -> Report {
    // exhaustive sweeps (seed independent): every ordered pair of coefficient lists over a small alphabet
    let mut real_sweeps = vec![sweep_real("sweep{-1,0,1}len<=4", -1, 1, 4)];
    if !ctx.quick() { real_sweeps.push(sweep_real("sweep{-2..2}len<=3", -2, 2, 3)); }
    let gauss_sweeps = vec![sweep_gauss("sweep{0,+-1,+-i}len<=3", 3)];
    // unit table for the sweeps: (kind, sweep index, index of a); each unit runs all b
    let mut eunits: Vec<(u8, usize, usize)> = vec![];
    for (k, sw) in real_sweeps.iter().enumerate() { for ia in 0..sw.lists.len() { eunits.push((0, k, ia)); } }
    for (k, sw) in gauss_sweeps.iter().enumerate() { for ia in 0..sw.lists.len() { eunits.push((1, k, ia)); } }
    let ne = eunits.len() as u64;
    // random part: unit r -> length pair (r%10, r/10%10), i.e. every pair of lengths 0..=9 in every round
    let npairs = ((MAXLEN + 1) * (MAXLEN + 1)) as u64;
    let rounds = ctx.vol(100, 3000);
    let nrand = npairs * rounds;
    const DRAWS: usize = 4;

    let stats = par_run(ctx, TAG, ne + nrand, |u, rng, st| {
        if u < ne {
            let (kind, k, ia) = eunits[u as usize];
            if kind == 0 {
                let sw = &real_sweeps[k];
                for ib in 0..sw.lists.len() {
                    let cs = sweep_case(sw, ia, ib);
                    judge::<Rat>(st, sw.name, &cs);
                    judge::<f64>(st, sw.name, &cs);
                }
            } else {
                let sw = &gauss_sweeps[k];
                for ib in 0..sw.lists.len() {
                    let cs = sweep_case(sw, ia, ib);
                    judge::<CRat>(st, sw.name, &cs);
                    judge::<Cmplx>(st, sw.name, &cs);
                }
            }
        } else {
            let r = u - ne;
            let la = (r % (MAXLEN as u64 + 1)) as usize;
            let lb = ((r / (MAXLEN as u64 + 1)) % (MAXLEN as u64 + 1)) as usize;
            for _ in 0..DRAWS {
                let (cs, cl) = gen_case::<Rat>(rng, la, lb, false);
                judge::<Rat>(st, cl, &cs);
                let (cs, cl) = gen_case::<CRat>(rng, la, lb, false);
                judge::<CRat>(st, cl, &cs);
                let (cs, cl) = gen_case::<Rat>(rng, la, lb, true);
                judge::<f64>(st, cl, &cs);
                // the float-style data are also valid exact cases: same data through Rat (differential across types)
                judge::<Rat>(st, cl, &cs);
                let (cs, cl) = gen_case::<CRat>(rng, la, lb, true);
                judge::<Cmplx>(st, cl, &cs);
                judge::<CRat>(st, cl, &cs);
                alias_and_history(st, rng);
                huge_points(st, rng);
                wide_spread_products(st, rng);
            }
        }
    });

    let mut rep = Report::new(stats,
        "cases = (a,b,c,s,x[0..5]): (1) exhaustive, seed-independent: every ordered pair (a,b) of coefficient lists of length 0..4 over {-1,0,1} through Rat and f64 (thorough: also length 0..3 over {-2..2}) and of length 0..3 over {0,1,-1,i,-i} through CRat and Complex<f64>, with c, s cycled deterministically and x in a fixed 5-point set; (2) random: every ordered pair of lengths (0..9)x(0..9) (empty included, degrees 0..8) in every round, 4 draws per type per unit, coefficient styles int/fraction/sparse/+-1/big/dyadic (exact types) and int/sparse/+-1/half-integer (float types, each also replayed through the exact type), leading/trailing/all-zero blocks injected, scalar in {0,1,-1,random}, 5 evaluation points. Per case: new/clone/coeffs/size/degree/index/is_zero/eval/neg/scalar*/derivative/derivative_n(k=0..deg+1)/derivative_at/trim/quadratic/cubic on a and b; +,-,* borrowed, owned and commuted; values of every result at the points vs the same combination of exact operand values; linearity, product rule, distributivity, associativity, cancellation via composed library calls; all compared exactly with an independent coefficient-list model. Non-trivial: both operands non-empty, max length >= 2, not both identically zero; distinct = distinct (type,a,b,c,s,xs) hashes");
    rep.assumptions = vec![
        "float (f64, Complex<f64>) checks are judged only under an exactness certificate computed from the inputs alone: (1-norm mass bound of all intermediates) x (dyadic grid of coefficients^4 and of x^degree) <= 2^52; uncertified checks are counted under skipped-check:*:exactness-not-certified, never judged; no tolerance is used anywhere".into(),
        "sizes: for non-empty operands size(a+-b)=max, size(a*b)=la+lb-1, size(D^k a)=la-k, size(s*a)=size(-a)=la are demanded (signature ...:wrong-size when only the length differs); a zero result whose length the property does not fix (product with an empty operand, derivative of a constant, order deg+1) may be empty or all-zero".into(),
        "undefined by the property and therefore accepted (refusal or zero result): eval/derivative/derivative_at/trim of the empty polynomial, derivative_at of order deg+1, degree() of the empty polynomial; a non-zero returned value is still flagged (empty-not-zero)".into(),
        "Rat overflow in the model or the library => case / check skipped (counted), never judged".into(),
    ];
    rep.min_nontrivial = if ctx.quick() { 20_000 } else { 200_000 };
    // coverage demand: all 100 ordered length pairs seen for each of the four element types
    for k in [<Rat as Elem>::K_LENPAIRS, <CRat as Elem>::K_LENPAIRS, <f64 as Elem>::K_LENPAIRS, <Cmplx as Elem>::K_LENPAIRS] {
        let n = rep.stats.sets.get(k).map(|s| s.len()).unwrap_or(0) as u64;
        if n < npairs && ctx.only_unit.is_none() { rep.inconclusive.push(format!("coverage: only {} of {} length pairs for {}", n, npairs, k)); }
    }
    let mut ex = J::obj();
    ex.set("exhaustive_parts", J::Arr(vec![
        J::s("all ordered pairs of coefficient lists of length 0..4 over {-1,0,1} (121^2 pairs) at Rat and f64"),
        J::s("all ordered pairs of coefficient lists of length 0..3 over {0,1,-1,i,-i} (156^2 pairs) at CRat and Complex<f64>"),
        J::s("thorough only: all ordered pairs of lists of length 0..3 over {-2..2} (156^2 pairs) at Rat and f64"),
        J::s("all 100 ordered length pairs (0..9)x(0..9) in every random round; derivative orders 0..deg+1 for every operand"),
    ]));
    ex.set("random_rounds", J::UInt(rounds));
    ex.set("sweep_units", J::UInt(ne));
    rep.extra = ex;
    rep
}
