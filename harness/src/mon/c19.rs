//! C19 — meshes return what was stored; interpolation / quadrature exact on (bi)linear data;
//! 1-D file round trip to the printed precision.
//!
//! Two halves:
//!  * storage half (E-exact / E-model): the real generic `Mesh1D<T,X>` / `Mesh2D<T>` instantiated at
//!    T in {f64, Rat} (X in {f64, Rat}) is driven in lock-step with a `Vec<Vec<i64>>` model through
//!    histories of writes (set_nodes_vars, IndexMut whole vector, IndexMut component, apply, assign);
//!    after EVERY step every read path (get_nodes_vars, Index, cross_section_xnode/ynode,
//!    var_as_matrix, coord, nodes/xnodes/ynodes, nnodes, nvars) must equal the model exactly.
//!  * numerical half (f64 only in the library): get_interpolated_vars, trapezium (1-D, 2-D),
//!    square_trapezium and output()/read() are judged against exact rational models.
//!    Grids are dyadic (k/2^s, s<=9, spacing >= 2^-9 > 1e-3) and nodal data integers, so the exact
//!    quadrature values are representable: whenever the generator-side certificate
//!    (sum of |cell terms| < 2^53 quanta) holds, BIT equality with the exact value is demanded.
use crate::fl::U;
use crate::json::J;
use crate::mon::common::*;
use crate::rat::Rat;
use crate::rng::{mix, Rng};
use crate::run::{catch, par_run, Ctx, Outcome, Report, Stats};
use ohsl::{Mesh1D, Mesh2D, Number, Vector};
use std::fmt::{Debug, Display};

const TAG: u64 = 0xC19;

/// interpolation: |got - exact| <= INTERP_TOL_U * u * (|left| + |right|)   (a priori bound ~4)
const INTERP_TOL_U: f64 = 512.0;
/// quadrature when the exact value is not certified representable:
/// |got - exact| <= QUAD_TOL_U * u * sum|cell terms|   (a priori bound ~ ncells+4 <= 125)
const QUAD_TOL_U: f64 = 512.0;
/// policy: a nodal value that is reproduced only up to rounding (not bit-for-bit) is a violation
/// (own narrow signature `...:last-node-not-bit-exact` / `...:node-not-bit-exact`).
/// KNOWN on the pinned tree: `get_interpolated_vars(x_last)` evaluates left + ((right-left)/h)*h in the
/// last cell (every other node is served by the cell to its right with delta_x = 0, hence exactly);
/// when h is not a power of two this rounds, e.g. nodes [0, 47], data [-3, 0]: returns
/// -4.440892098500626e-16 instead of the stored 0. A repair such as
/// `left + (right-left)*(delta_x/h)` makes this monitor silent.
const NODE_BIT_EXACT_IS_VIOLATION: bool = true;
/// file round trip: |read - written| <= 1/2 * 10^-p + |written| * 2^-52 (parse/format rounding)
const FILE_REL_SLACK_LOG2: u32 = 52;

// ------------------------------------------------------------------------------------------------
// element / coordinate types
// ------------------------------------------------------------------------------------------------
pub trait Elem: Copy + Number + PartialEq + Debug + Display + 'static {
    const NAME: &'static str;
    fn of(v: i64) -> Self;
}
impl Elem for f64 {
    const NAME: &'static str = "f64";
    fn of(v: i64) -> f64 { v as f64 }
}
impl Elem for Rat {
    const NAME: &'static str = "Rat";
    fn of(v: i64) -> Rat { Rat::int(v) }
}

/// dyadic grid: positions k[i] / 2^s, strictly increasing
#[derive(Clone, Debug)]
pub struct Grid { pub k: Vec<i64>, pub s: u32 }
impl Grid {
    fn n(&self) -> usize { self.k.len() }
    fn f(&self, i: usize) -> f64 { self.k[i] as f64 / (1u64 << self.s) as f64 } // exact: |k| < 2^53
    fn r(&self, i: usize) -> Rat { Rat::new(self.k[i] as i128, 1i128 << self.s) }
    fn fvec(&self) -> Vec<f64> { (0..self.n()).map(|i| self.f(i)).collect() }
    fn nonuniform(&self) -> bool {
        self.n() >= 3 && (1..self.n() - 1).any(|i| self.k[i + 1] - self.k[i] != self.k[1] - self.k[0])
    }
    fn show(&self) -> String { format!("{:?}/2^{}", self.k, self.s) }
    fn hash(&self, mut h: u64) -> u64 {
        h = hmix(h, self.s as u64);
        for v in &self.k { h = hmix(h, *v as u64); }
        h
    }
}

pub trait NodeX: Copy + Number + PartialEq + Debug + 'static {
    const NAME: &'static str;
    fn at(g: &Grid, i: usize) -> Self;
}
impl NodeX for f64 {
    const NAME: &'static str = "f64";
    fn at(g: &Grid, i: usize) -> f64 { g.f(i) }
}
impl NodeX for Rat {
    const NAME: &'static str = "Rat";
    fn at(g: &Grid, i: usize) -> Rat { g.r(i) }
}

/// node count: usually 2..12; one draw in eight is long (13..`long_max`), so that a search or blocked loop that is only
/// taken on larger meshes is driven too ("every access path" does not stop at 12 nodes)
fn node_count(rng: &mut Rng, long_max: usize) -> usize { if rng.chance(0.125) { rng.usize(13, long_max) } else { rng.usize(2, 12) } }

/// non-uniform (for n>=3) dyadic grid with n nodes
fn gen_grid(rng: &mut Rng, n: usize) -> Grid {
    let s = rng.below(10) as u32; // 2^-s >= 2^-9 = 0.00195 >= 1e-3
    let class = rng.below(4);
    let mut steps: Vec<i64> = (0..n - 1).map(|_| match class {
        0 => rng.int(1, 3),
        1 => rng.int(1, 64),
        2 => 1i64 << rng.below(7),
        _ => if rng.chance(0.2) { rng.int(100, 256) } else { rng.int(1, 2) },
    }).collect();
    if n >= 3 && steps.iter().all(|&d| d == steps[0]) {
        let j = rng.usize(0, n - 2);
        steps[j] += rng.int(1, 5);
    }
    let mut k = vec![rng.int(-1024, 1024)];
    for d in steps { let last = *k.last().unwrap(); k.push(last + d); }
    Grid { k, s }
}

/// nearly uniform: equal steps except for one or two that are longer by 2^-30..2^-40 of a step (still dyadic, still
/// non-uniform): a "the mesh is equally spaced" shortcut must not be taken on a tolerance
fn gen_grid_nearly_uniform(rng: &mut Rng, n: usize) -> Grid {
    let s = rng.int(30, 40) as u32;
    let u = rng.int(1, 3) << s;
    let mut steps: Vec<i64> = vec![u; n - 1];
    if n >= 3 { for _ in 0..rng.usize(1, 2) { let j = rng.usize(0, n - 2); steps[j] += rng.int(1, 8); } }
    let mut k = vec![rng.int(-8, 8) << s];
    for d in steps { let last = *k.last().unwrap(); k.push(last + d); }
    Grid { k, s }
}

fn rand_val(rng: &mut Rng, class: u64) -> i64 {
    match class {
        0 => rng.int(-9, 9),
        1 => rng.int(-1000, 1000),
        2 => rng.int(-1_000_000, 1_000_000),
        _ => rng.int(-(1 << 30), 1 << 30),
    }
}

fn row_eq<T: Elem>(got: &[T], want: &[i64]) -> bool {
    got.len() == want.len() && got.iter().zip(want).all(|(a, b)| *a == T::of(*b))
}

/// run a library call; a panic where the property demands success is a violation
fn call<R>(st: &mut Stats, site: &str, ty: &str, desc: &dyn Fn() -> String, f: impl FnOnce() -> R) -> Option<R> {
    match catch(f) {
        Outcome::Ok(r) => Some(r),
        Outcome::Overflow => { st.count("skipped:rat-overflow"); None }
        Outcome::Budget => { st.count("skipped:budget"); None }
        o => {
            st.violation(&format!("C19:{}:{}:panic", site, ty), format!("{} {}; {}", site, o.describe(), desc()));
            None
        }
    }
}

fn wrong(st: &mut Stats, site: &str, ty: &str, what: String) {
    st.violation(&format!("C19:{}:{}:wrong-value", site, ty), what);
}

// ------------------------------------------------------------------------------------------------
// 1-D storage half
// ------------------------------------------------------------------------------------------------
#[derive(Clone, Debug)]
enum Op1 {
    Set { node: usize, vals: Vec<i64> },
    IdxVec { node: usize, vals: Vec<i64> },
    IdxComp { node: usize, var: usize, val: i64 },
    /// every node gets a unique code through write path `path` (0 set, 1 index-vector, 2 index-component)
    FillCodes { path: u8, base: i64 },
    /// var := a + b*K at every node (K integer grid coordinate), through write path `path`
    FillLinear { var: usize, a: i64, b: i64, path: u8 },
}

pub struct State1 {
    pub data: Vec<Vec<i64>>,
    /// Some([a,b]) when var is currently a + b*K at every node
    pub lin: Vec<Option<[i64; 2]>>,
    pub hist: Vec<String>,
}

fn ty1<T: Elem, X: NodeX>() -> String { format!("{}/{}", T::NAME, X::NAME) }

fn write1<T: Elem, X: NodeX>(st: &mut Stats, m: &mut Mesh1D<T, X>, path: u8, node: usize, vals: &[i64], desc: &dyn Fn() -> String) {
    let ty = ty1::<T, X>();
    let v: Vec<T> = vals.iter().map(|x| T::of(*x)).collect();
    match path {
        0 => { call(st, "mesh1d.set_nodes_vars", &ty, desc, || m.set_nodes_vars(node, Vector::create(v))); }
        1 => { call(st, "mesh1d.index_mut", &ty, desc, || { m[node] = Vector::create(v); }); }
        _ => { call(st, "mesh1d.index_mut", &ty, desc, || { for (j, x) in v.iter().enumerate() { m[node][j] = *x; } }); }
    }
    st.eval();
}

/// every read path of a 1-D mesh against the model
fn check1<T: Elem, X: NodeX>(st: &mut Stats, m: &Mesh1D<T, X>, g: &Grid, nv: usize, s: &State1) {
    let n = g.n();
    let ty = ty1::<T, X>();
    let desc = || format!("Mesh1D<{}> grid={} nvars={} history={:?} model={:?}", ty1::<T, X>(), g.show(), nv, s.hist, s.data);
    if let Some((nn, nvv)) = call(st, "mesh1d.nnodes", &ty, &desc, || (m.nnodes(), m.nvars())) {
        st.eval();
        if nn != n || nvv != nv { wrong(st, "mesh1d.nnodes", &ty, format!("nnodes/nvars = {}/{} expected {}/{}; {}", nn, nvv, n, nv, desc())); return; }
    } else { return; }
    if let Some(rows) = call(st, "mesh1d.get_nodes_vars", &ty, &desc, || (0..n).map(|i| m.get_nodes_vars(i).vec).collect::<Vec<Vec<T>>>()) {
        st.evals_add(n as u64);
        for i in 0..n {
            if !row_eq(&rows[i], &s.data[i]) {
                wrong(st, "mesh1d.get_nodes_vars", &ty, format!("get_nodes_vars({}) = {:?}, stored {:?}; {}", i, rows[i], s.data[i], desc()));
                break;
            }
        }
    }
    if let Some(rows) = call(st, "mesh1d.index", &ty, &desc, || (0..n).map(|i| m[i].vec.clone()).collect::<Vec<Vec<T>>>()) {
        st.evals_add(n as u64);
        for i in 0..n {
            if !row_eq(&rows[i], &s.data[i]) {
                wrong(st, "mesh1d.index", &ty, format!("mesh[{}] = {:?}, stored {:?}; {}", i, rows[i], s.data[i], desc()));
                break;
            }
        }
    }
    if let Some((cs, ns)) = call(st, "mesh1d.coord", &ty, &desc, || ((0..n).map(|i| m.coord(i)).collect::<Vec<X>>(), m.nodes().vec)) {
        st.evals_add(n as u64 + 1);
        let want: Vec<X> = (0..n).map(|i| X::at(g, i)).collect();
        if cs != want { wrong(st, "mesh1d.coord", &ty, format!("coord(0..n) = {:?} expected {:?}; {}", cs, want, desc())); }
        if ns != want { wrong(st, "mesh1d.nodes", &ty, format!("nodes() = {:?} expected {:?}; {}", ns, want, desc())); }
    }
}

fn apply_op1<T: Elem, X: NodeX>(st: &mut Stats, m: &mut Mesh1D<T, X>, g: &Grid, nv: usize, s: &mut State1, op: &Op1) {
    let n = g.n();
    s.hist.push(format!("{:?}", op));
    if s.hist.len() > 24 { s.hist.remove(0); }
    let hist = s.hist.clone();
    let gs = g.show();
    let desc = move || format!("Mesh1D<{}> grid={} nvars={} history(last is the failing op)={:?}", ty1::<T, X>(), gs, nv, hist);
    match op {
        Op1::Set { node, vals } => { write1(st, m, 0, *node, vals, &desc); s.data[*node] = vals.clone(); s.lin.iter_mut().for_each(|l| *l = None); }
        Op1::IdxVec { node, vals } => { write1(st, m, 1, *node, vals, &desc); s.data[*node] = vals.clone(); s.lin.iter_mut().for_each(|l| *l = None); }
        Op1::IdxComp { node, var, val } => {
            let (node, var, val) = (*node, *var, *val);
            call(st, "mesh1d.index_mut", &ty1::<T, X>(), &desc, || { m[node][var] = T::of(val); });
            st.eval();
            s.data[node][var] = val;
            s.lin[var] = None;
        }
        Op1::FillCodes { path, base } => {
            for i in 0..n {
                let vals: Vec<i64> = (0..nv).map(|v| base + (i * 4 + v) as i64).collect();
                write1(st, m, *path, i, &vals, &desc);
                s.data[i] = vals;
            }
            s.lin.iter_mut().for_each(|l| *l = None);
        }
        Op1::FillLinear { var, a, b, path } => {
            for i in 0..n {
                let mut vals = s.data[i].clone();
                vals[*var] = a + b * g.k[i];
                write1(st, m, *path, i, &vals, &desc);
                s.data[i] = vals;
            }
            s.lin[*var] = Some([*a, *b]);
        }
    }
}

fn random_ops1(rng: &mut Rng, n: usize, nv: usize, nops: usize) -> Vec<Op1> {
    let class = rng.below(4);
    let mut ops = vec![];
    if rng.chance(0.7) { ops.push(Op1::FillCodes { path: rng.below(3) as u8, base: rand_val(rng, class.min(2)) }); }
    for _ in 0..nops {
        let node = rng.usize(0, n - 1);
        let c = if rng.chance(0.15) { rng.below(4) } else { class };
        ops.push(match rng.below(10) {
            0..=2 => Op1::Set { node, vals: (0..nv).map(|_| rand_val(rng, c)).collect() },
            3..=5 => Op1::IdxVec { node, vals: (0..nv).map(|_| rand_val(rng, c)).collect() },
            6..=8 => Op1::IdxComp { node, var: rng.usize(0, nv - 1), val: rand_val(rng, c) },
            _ => Op1::FillLinear { var: rng.usize(0, nv - 1), a: rng.int(-50, 50), b: rng.int(-9, 9), path: rng.below(3) as u8 },
        });
    }
    if rng.chance(0.4) {
        ops.push(Op1::FillLinear { var: rng.usize(0, nv - 1), a: rng.int(-50, 50), b: rng.nzint(9), path: rng.below(3) as u8 });
    }
    ops
}

fn enum_ops1() -> Vec<Op1> {
    vec![
        Op1::FillCodes { path: 0, base: 1000 },
        Op1::FillCodes { path: 1, base: -2000 },
        Op1::FillCodes { path: 2, base: 3000 },
    ]
}

/// lock-step history on a 1-D mesh; `after` sees the live mesh and model at the end
fn history1<T: Elem, X: NodeX>(
    st: &mut Stats, rng: &mut Rng, class: &str, g: &Grid, nv: usize, ops: &[Op1],
    after: &mut dyn FnMut(&mut Stats, &mut Rng, &Mesh1D<T, X>, &State1),
) {
    st.next_case();
    let n = g.n();
    let ty = ty1::<T, X>();
    let nodes: Vec<X> = (0..n).map(|i| X::at(g, i)).collect();
    let gs = g.show();
    let d0 = || format!("Mesh1D<{}>::new grid={} nvars={}", ty1::<T, X>(), gs, nv);
    let mut m = match call(st, "mesh1d.new", &ty, &d0, || Mesh1D::<T, X>::new(Vector::create(nodes), nv)) { Some(m) => m, None => return };
    st.eval();
    let mut s = State1 { data: vec![vec![0; nv]; n], lin: vec![Some([0, 0]); nv], hist: vec![] };
    check1(st, &m, g, nv, &s);
    for op in ops {
        apply_op1(st, &mut m, g, nv, &mut s, op);
        check1(st, &m, g, nv, &s);
    }
    after(st, rng, &m, &s);
    st.count(&format!("cases:mesh1d:{}:{}", ty, class));
    st.set_insert("shapes1d", format!("{}x{}", n, nv));
    let constant = s.data.iter().all(|r| r == &s.data[0]);
    if g.nonuniform() && !constant {
        let mut h = g.hash(hash_str("mesh1d") ^ hash_str(&ty));
        for r in &s.data { for v in r { h = hmix(h, *v as u64); } }
        st.nontrivial(hmix(h, ops.len() as u64));
    }
    st.sample(|| format!("Mesh1D<{}> grid={} nvars={} final model={:?}", ty, g.show(), nv, s.data));
}

// ------------------------------------------------------------------------------------------------
// 1-D numerical half (f64)
// ------------------------------------------------------------------------------------------------
fn rabs(r: Rat) -> Rat { r.abs_r() }

/// exact piecewise-linear interpolant at xr (None when outside the grid)
fn interp_exact(g: &Grid, data: &[Vec<i64>], xr: Rat) -> Option<(usize, Vec<Rat>)> {
    let n = g.n();
    if xr < g.r(0) || xr > g.r(n - 1) { return None; }
    let mut k = 0;
    while k + 2 < n && g.r(k + 1) <= xr { k += 1; }
    let h = g.r(k + 1) - g.r(k);
    let t = (xr - g.r(k)) / h;
    let vals = (0..data[k].len()).map(|v| Rat::int(data[k][v]) + Rat::int(data[k + 1][v] - data[k][v]) * t).collect();
    Some((k, vals))
}

fn judge_interp(st: &mut Stats, m: &Mesh1D<f64, f64>, g: &Grid, data: &[Vec<i64>], x: f64, class: &str) {
    let n = g.n();
    let nv = data[0].len();
    // quantifier certificate: x inside the grid and either exactly at a node or >= 1e-6 from every node
    let pre = catch(|| {
        let xr = Rat::from_f64(x);
        let lim = Rat::new(1, 1_000_000);
        let mut at_node = None;
        for i in 0..n {
            let d = rabs(xr - g.r(i));
            if d.is_zero() { at_node = Some(i); } else if d < lim { return None; }
        }
        interp_exact(g, data, xr).map(|(k, v)| (k, v, at_node))
    });
    let (k, exact, at_node) = match pre {
        Outcome::Ok(Some(t)) => t,
        Outcome::Ok(None) => { st.count("skipped:interp-point-outside-quantifier"); return; }
        _ => { st.count("skipped:rat-overflow-in-model"); return; }
    };
    let site = format!("interp1d.{}", class);
    let desc = || format!("get_interpolated_vars({:e} = {:?}) grid={} model={:?} cell={}", x, Rat::from_f64(x), g.show(), data, k);
    let got = match call(st, &site, "f64", &desc, || m.get_interpolated_vars(x).vec) { Some(v) => v, None => return };
    st.eval();
    if got.len() != nv || got.iter().any(|v| !v.is_finite()) {
        wrong(st, &site, "f64", format!("returned {:?} (length/non-finite); {}", got, desc()));
        return;
    }
    for v in 0..nv {
        let scale = (data[k][v].abs() + data[k + 1][v].abs()) as f64;
        let err = match catch(|| rabs(Rat::from_f64(got[v]) - exact[v])) { Outcome::Ok(e) => e, _ => { st.count("skipped:rat-overflow-in-model"); continue; } };
        let bad = if scale == 0.0 { !err.is_zero() } else {
            let ratio = err.to_f64() / (U * scale);
            st.max(&format!("interp:{}:max_err_over_u_scale", class), ratio);
            !(ratio <= INTERP_TOL_U)
        };
        if bad {
            wrong(st, &site, "f64", format!("var {}: got {:e}, exact interpolant {:?} (= {:e}), |err| = {:e}; {}", v, got[v], exact[v], exact[v].to_f64(), err.to_f64(), desc()));
            return;
        }
        if let Some(i) = at_node {
            // At a node the demanded value is the stored datum itself (an integer, hence representable):
            // "reproduces nodal values at the nodes" is read as bit equality. Deviations that are only
            // rounding-sized (they passed the tolerance above) get their own narrow signatures.
            if got[v] != data[i][v] as f64 {
                st.count("observed:node-value-not-bit-exact");
                let mode = if i == n - 1 { "last-node-not-bit-exact" } else { "node-not-bit-exact" };
                st.set_insert("observed:node-not-bit-exact:which", mode.into());
                if NODE_BIT_EXACT_IS_VIOLATION {
                    st.violation(&format!("C19:interp1d.node:f64:{}", mode),
                        format!("var {}: get_interpolated_vars at node {} (x = {:e}) returned {:e} but the stored nodal value is {} (cell used by model: left={} right={}, |err| = {:e}); {}",
                            v, i, x, got[v], data[i][v], data[k][v], data[k + 1][v], err.to_f64(), desc()));
                    return;
                }
            } else { st.count("observed:node-value-bit-exact"); }
        }
    }
}

/// certificate helper: Σ|terms| in quanta must stay below 2^53 for the f64 evaluation to be exact in any order
const EXACT_LIMIT: u128 = 1u128 << 53;

fn judge_quad(st: &mut Stats, site: &str, got: f64, exact: Rat, abs_sum_quanta: u128, abs_sum: Rat, desc: &dyn Fn() -> String) {
    if !got.is_finite() { wrong(st, site, "f64", format!("returned {:e}; {}", got, desc())); return; }
    let certified = abs_sum_quanta < EXACT_LIMIT;
    if certified {
        st.count(&format!("quad:{}:certified-exact", site));
        let ok = matches!(catch(|| Rat::from_f64(got) == exact), Outcome::Ok(true));
        if !ok {
            wrong(st, site, "f64", format!("got {:e} (= {:?}) but the exactly representable value is {:?} (= {:e}); {}", got, catch(|| Rat::from_f64(got)).ok(), exact, exact.to_f64(), desc()));
        }
    } else {
        st.count(&format!("quad:{}:tolerance-judged", site));
        match catch(|| rabs(Rat::from_f64(got) - exact)) {
            Outcome::Ok(e) => {
                let sc = abs_sum.to_f64();
                let bad = if sc == 0.0 { !e.is_zero() } else {
                    let ratio = e.to_f64() / (U * sc);
                    st.max(&format!("quad:{}:max_err_over_u_abssum", site), ratio);
                    !(ratio <= QUAD_TOL_U)
                };
                if bad { wrong(st, site, "f64", format!("got {:e}, exact {:?} (= {:e}), |err| = {:e}; {}", got, exact, exact.to_f64(), e.to_f64(), desc())); }
            }
            _ => st.count("skipped:rat-overflow-in-model"),
        }
    }
}

/// exact 1-D trapezium: (value, Σ|term| in quanta of 2^-(s+1), Σ|term|)
fn trap1_exact(g: &Grid, data: &[Vec<i64>], var: usize) -> (Rat, u128, Rat) {
    let q = Rat::new(1, 1i128 << (g.s + 1));
    let (mut sum, mut quanta) = (0i128, 0u128);
    for i in 0..g.n() - 1 {
        let dx = (g.k[i + 1] - g.k[i]) as i128;
        sum += dx * (data[i][var] as i128 + data[i + 1][var] as i128);
        quanta += (dx as u128) * (data[i][var].unsigned_abs() as u128 + data[i + 1][var].unsigned_abs() as u128);
    }
    (Rat::new(sum, 1) * q, quanta, Rat::new(quanta as i128, 1) * q)
}

fn judge_trap1(st: &mut Stats, m: &Mesh1D<f64, f64>, g: &Grid, s: &State1, site: &str) {
    let nv = s.data[0].len();
    for var in 0..nv {
        let model = catch(|| {
            let t = trap1_exact(g, &s.data, var);
            // analytic integral of a + b*2^s*x over [x0, xn]
            let ana = s.lin[var].map(|[a, b]| {
                let (x0, x1) = (g.r(0), g.r(g.n() - 1));
                Rat::int(a) * (x1 - x0) + Rat::int(b) * Rat::new(1i128 << g.s, 2) * (x1 * x1 - x0 * x0)
            });
            (t, ana)
        });
        let ((exact, quanta, abs_sum), ana) = match model { Outcome::Ok(t) => t, _ => { st.count("skipped:rat-overflow-in-model"); continue; } };
        if let Some(a) = ana {
            st.count("quad:trapezium1d:linear-data");
            if a != exact { st.harness_errors.push(format!("C19 model self-check failed: analytic {:?} vs cell sum {:?} grid {}", a, exact, g.show())); }
        }
        let desc = || format!("Mesh1D<f64,f64>.trapezium({}) grid={} model={:?} linear={:?}", var, g.show(), s.data, s.lin[var]);
        if let Some(got) = call(st, site, "f64", &desc, || m.trapezium(var)) {
            st.eval();
            judge_quad(st, site, got, exact, quanta, abs_sum, &desc);
        }
    }
}

fn numeric1(st: &mut Stats, rng: &mut Rng, m: &Mesh1D<f64, f64>, g: &Grid, s: &State1, exhaustive_points: bool) {
    let n = g.n();
    judge_trap1(st, m, g, s, "trapezium1d");
    // interpolation points
    let mut pts: Vec<(f64, &'static str)> = vec![];
    if exhaustive_points {
        for i in 0..n { pts.push((g.f(i), "node")); }
        for i in 0..n - 1 { pts.push((0.5 * (g.f(i) + g.f(i + 1)), "mid")); }
    } else {
        pts.push((g.f(0), "node"));
        pts.push((g.f(n - 1), "node"));
        for _ in 0..3 { pts.push((g.f(rng.usize(0, n - 1)), "node")); }
        for _ in 0..3 { let i = rng.usize(0, n - 2); pts.push((0.5 * (g.f(i) + g.f(i + 1)), "mid")); }
    }
    for _ in 0..4 {
        let i = rng.usize(0, n - 2);
        let t = rng.range(0.002, 0.998); // spacing >= 2^-9 => >= 3.9e-6 from both ends
        pts.push((g.f(i) + t * (g.f(i + 1) - g.f(i)), "interior"));
    }
    for _ in 0..4 {
        // just outside the quantifier's excluded window: 1.001e-6 .. 1e-5 from a node
        let i = rng.usize(0, n - 1);
        let d = rng.range(1.001e-6, 1.0e-5);
        let x = if i == 0 || (i < n - 1 && rng.bool()) { g.f(i) + d } else { g.f(i) - d };
        pts.push((x, "near-node"));
    }
    for (x, class) in pts { judge_interp(st, m, g, &s.data, x, class); }
}

/// Grids far from the origin (offset +-2^24..2^32, dyadic, spacing still >= 2^-9): the 1e-7 snapping window and the 1e-6
/// exclusion zone of the quantifier are ABSOLUTE distances; interpolation between and next to the nodes, nodal values and
/// the trapezium rule must not depend on where the grid sits.
fn offset_case(st: &mut Stats, rng: &mut Rng) {
    let n = rng.usize(2, 12);
    let nv = rng.usize(1, 3);
    let mut g = gen_grid(rng, n);
    let off = (if rng.bool() { 1i64 } else { -1 }) * (1i64 << (rng.int(24, 32) as u32 + g.s));
    for k in g.k.iter_mut() { *k += off; }
    let cls = rng.below(3);
    let data: Vec<Vec<i64>> = (0..n).map(|_| (0..nv).map(|_| rand_val(rng, cls)).collect()).collect();
    let mut m = Mesh1D::<f64, f64>::new(Vector::create(g.fvec()), nv);
    for i in 0..n { for v in 0..nv { m[i][v] = data[i][v] as f64; } }
    let s = State1 { data, lin: vec![None; nv], hist: vec!["offset-grid".into()] };
    st.count("offset-grid-cases");
    numeric1(st, rng, &m, &g, &s, false);
    // dense near-node probes on both sides of every interior node, from just outside the excluded window outwards
    for i in 1..n.saturating_sub(1) {
        for _ in 0..2 {
            let d = rng.logpos(1.001e-6, 2.0e-4);
            judge_interp(st, &m, &g, &s.data, g.f(i) - d, "near-node-offset-grid");
            judge_interp(st, &m, &g, &s.data, g.f(i) + d, "near-node-offset-grid");
        }
    }
    st.nontrivial(g.hash(hash_str("offset-grid")));
}

/// 2-D quadrature on NEARLY uniform grids (own case: nodal data written directly, small integers)
fn nearly_uniform_case(st: &mut Stats, rng: &mut Rng) {
    let (nx, ny) = (rng.usize(3, 8), rng.usize(2, 8));
    let nv = rng.usize(1, 2);
    let gx = gen_grid_nearly_uniform(rng, nx);
    let gy = match rng.below(3) { 0 => gen_grid_nearly_uniform(rng, ny), 1 => { let st0 = rng.int(1, 3); Grid { k: (0..ny as i64).map(|i| i * st0).collect(), s: rng.below(3) as u32 } }, _ => gen_grid(rng, ny) };
    let cls = rng.below(2);
    let data: Vec<Vec<Vec<i64>>> = (0..nx).map(|_| (0..ny).map(|_| (0..nv).map(|_| rand_val(rng, cls)).collect()).collect()).collect();
    let mut m = Mesh2D::<f64>::new(Vector::create(gx.fvec()), Vector::create(gy.fvec()), nv);
    for i in 0..nx { for j in 0..ny { m.set_nodes_vars(i, j, Vector::create(data[i][j].iter().map(|v| *v as f64).collect::<Vec<f64>>())); } }
    let s = State2 { data, bil: vec![None; nv], hist: vec!["nearly-uniform-grid".into()] };
    st.count("nearly-uniform-grid-cases");
    numeric2(st, &m, &gx, &gy, &s);
    st.nontrivial(gx.hash(gy.hash(hash_str("nearly-uniform"))));
}

/// output(file, p) then read(file) into a mesh with the same nvars but unrelated nodes/data
fn judge_file(st: &mut Stats, rng: &mut Rng, workdir: &str, seed: u64, m: &Mesh1D<f64, f64>, g: &Grid, s: &State1, p: usize) {
    let n = g.n();
    let nv = s.data[0].len();
    let case = st.next_case();
    let fname = format!("{}/c19_p{}_s{}_u{}_c{}.dat", workdir, std::process::id(), seed, st.unit, case);
    let desc = || format!("output(precision {}) / read: grid={} nvars={} model={:?} file={}", p, g.show(), nv, s.data, fname);
    // half of the time the path already holds a LONGER mesh written earlier by the library (state carried between
    // two calls on the same file): output must replace it, not overwrite its beginning
    if rng.bool() {
        let nbig = n + rng.usize(1, 9);
        let mut big = Mesh1D::<f64, f64>::new(Vector::<f64>::linspace(-50.0, 50.0, nbig), nv);
        for i in 0..nbig { for v in 0..nv { big[i][v] = 123456.0 + (i * 7 + v) as f64; } }
        let _ = catch(|| big.output(&fname, p.max(3)));
        st.count("file:path-held-a-longer-mesh-before");
    }
    if call(st, "output1d", "f64", &desc, || m.output(&fname, p)).is_none() { let _ = std::fs::remove_file(&fname); return; }
    st.eval();
    // destination: different node count and garbage contents
    // (a third of the time: the SAME node count on a different grid - nothing may survive from the receiver)
    let n2 = if rng.chance(0.33) { n } else { rng.usize(2, 12) };
    let g2 = gen_grid(rng, n2);
    let mut dst = Mesh1D::<f64, f64>::new(Vector::create(g2.fvec()), nv);
    for i in 0..n2 { for v in 0..nv { dst[i][v] = 777.0 + (i * 4 + v) as f64; } }
    // the receiver is a LIVE mesh: it has already answered interpolation queries (last cell, last node) on its old grid
    let _ = catch(|| dst.get_interpolated_vars(g2.f(n2 - 1)));
    if n2 >= 2 { let _ = catch(|| dst.get_interpolated_vars(0.5 * (g2.f(n2 - 2) + g2.f(n2 - 1)))); }
    let r = call(st, "read1d", "f64", &desc, || dst.read(&fname));
    let _ = std::fs::remove_file(&fname);
    if r.is_none() { return; }
    st.eval();
    st.count(&format!("file:roundtrip:n2{}n", if n2 < n { "<" } else if n2 == n { "=" } else { ">" }));
    st.set_insert("file:precisions", format!("{}", p));
    let got = call(st, "read1d", "f64", &desc, || {
        let nn = dst.nnodes();
        (nn, dst.nvars(), dst.nodes().vec, (0..nn).map(|i| dst.get_nodes_vars(i).vec).collect::<Vec<Vec<f64>>>())
    });
    let (nn, nvv, nodes, rows) = match got { Some(t) => t, None => return };
    if nn != n || nvv != nv || nodes.len() != n || rows.len() != n || rows.iter().any(|r| r.len() != nv) {
        wrong(st, "read1d.shape", "f64", format!("after read: nnodes={} nvars={} nodes.len={} rows={:?}; expected {} nodes x {} vars; {}", nn, nvv, nodes.len(), rows.iter().map(|r| r.len()).collect::<Vec<_>>(), n, nv, desc()));
        return;
    }
    // |read - written| <= 1/2*10^-p + |written|*2^-52, judged exactly over Rat
    let half = Rat::new(1, 2 * 10i128.pow(p as u32));
    let judge = |st: &mut Stats, what: &str, gotv: f64, want: Rat| -> bool {
        if !gotv.is_finite() { wrong(st, what, "f64", format!("read back {:e} for written {:?}; {}", gotv, want, desc())); return false; }
        let r = catch(|| {
            let e = rabs(Rat::from_f64(gotv) - want);
            let tol = half + rabs(want) * Rat::new(1, 1i128 << FILE_REL_SLACK_LOG2);
            (e <= tol, e.to_f64() / half.to_f64())
        });
        match r {
            Outcome::Ok((ok, ratio)) => {
                st.max("file:max_err_over_half_unit_of_last_place", ratio);
                if !ok { wrong(st, what, "f64", format!("read back {:e} for written {:?} (= {:e}), precision {}; {}", gotv, want, want.to_f64(), p, desc())); }
                ok
            }
            _ => { st.count("skipped:rat-overflow-in-model"); true }
        }
    };
    for i in 0..n {
        if !judge(st, "read1d.nodes", nodes[i], g.r(i)) { return; }
        for v in 0..nv { if !judge(st, "read1d.vars", rows[i][v], Rat::int(s.data[i][v])) { return; } }
    }
    // with enough digits the round trip is exact (dyadic nodes with <= 9 binary places, integer data): the receiver must now
    // interpolate and integrate exactly like the mesh that was written - at every node (last one included), in every cell
    if p >= 10 && (0..n).all(|i| nodes[i] == g.f(i)) && (0..n).all(|i| (0..nv).all(|v| rows[i][v] == s.data[i][v] as f64)) {
        for i in (0..n).rev() { judge_interp(st, &dst, g, &s.data, g.f(i), "node-after-read"); }
        for i in 0..n - 1 { judge_interp(st, &dst, g, &s.data, 0.5 * (g.f(i) + g.f(i + 1)), "mid-after-read"); }
        judge_trap1(st, &dst, g, s, "trapezium1d-after-read");
        st.count("file:interpolation-after-read");
    }
}

// ------------------------------------------------------------------------------------------------
// 2-D storage half
// ------------------------------------------------------------------------------------------------
#[derive(Clone, Debug)]
enum Op2 {
    Set { i: usize, j: usize, vals: Vec<i64> },
    IdxVec { i: usize, j: usize, vals: Vec<i64> },
    IdxComp { i: usize, j: usize, var: usize, val: i64 },
    /// apply(f, var): kind 0 bilinear c0 + c1*X + c2*Y + c3*X*Y ; kind 1 non-linear polynomial hash of (X,Y)
    Apply { var: usize, kind: u8, c: [i64; 4] },
    Assign { c: i64 },
    /// unique code at every node through write path 0 set, 1 index-vector, 2 index-component
    FillCodes { path: u8, base: i64 },
}

pub struct State2 {
    pub data: Vec<Vec<Vec<i64>>>, // [i][j][var]
    /// Some(c) when var is currently c0 + c1*X + c2*Y + c3*X*Y everywhere
    pub bil: Vec<Option<[i64; 4]>>,
    pub hist: Vec<String>,
}

fn apply_fn(kind: u8, c: [i64; 4], x: i64, y: i64) -> i64 {
    if kind == 0 { c[0] + c[1] * x + c[2] * y + c[3] * x * y }
    else { (c[0] + c[1] * x * x - 3 * x * y * c[2] + y * y * y + c[3] * y).rem_euclid(100_003) - 50_000 }
}

fn write2<T: Elem>(st: &mut Stats, m: &mut Mesh2D<T>, path: u8, i: usize, j: usize, vals: &[i64], desc: &dyn Fn() -> String) {
    let v: Vec<T> = vals.iter().map(|x| T::of(*x)).collect();
    match path {
        0 => { call(st, "mesh2d.set_nodes_vars", T::NAME, desc, || m.set_nodes_vars(i, j, Vector::create(v))); }
        1 => { call(st, "mesh2d.index_mut", T::NAME, desc, || { m[(i, j)] = Vector::create(v); }); }
        _ => { call(st, "mesh2d.index_mut", T::NAME, desc, || { for (q, x) in v.iter().enumerate() { m[(i, j)][q] = *x; } }); }
    }
    st.eval();
}

fn check2<T: Elem>(st: &mut Stats, m: &Mesh2D<T>, gx: &Grid, gy: &Grid, nv: usize, s: &State2) {
    let (nx, ny) = (gx.n(), gy.n());
    let ty = T::NAME;
    let desc = || format!("Mesh2D<{}> xgrid={} ygrid={} nvars={} history={:?} model[i][j][var]={:?}", ty, gx.show(), gy.show(), nv, s.hist, s.data);
    match call(st, "mesh2d.nnodes", ty, &desc, || (m.nnodes(), m.nvars())) {
        Some((nn, nvv)) => {
            st.eval();
            if nn != (nx, ny) || nvv != nv { wrong(st, "mesh2d.nnodes", ty, format!("nnodes/nvars = {:?}/{} expected {:?}/{}; {}", nn, nvv, (nx, ny), nv, desc())); return; }
        }
        None => return,
    }
    // per-node get
    if let Some(rows) = call(st, "mesh2d.get_nodes_vars", ty, &desc, || {
        let mut out = Vec::with_capacity(nx * ny);
        for i in 0..nx { for j in 0..ny { out.push(m.get_nodes_vars(i, j).vec); } }
        out
    }) {
        st.evals_add((nx * ny) as u64);
        'a: for i in 0..nx { for j in 0..ny {
            if !row_eq(&rows[i * ny + j], &s.data[i][j]) {
                wrong(st, "mesh2d.get_nodes_vars", ty, format!("get_nodes_vars({},{}) = {:?}, stored {:?}; {}", i, j, rows[i * ny + j], s.data[i][j], desc()));
                break 'a;
            }
        } }
    }
    // index
    if let Some(rows) = call(st, "mesh2d.index", ty, &desc, || {
        let mut out = Vec::with_capacity(nx * ny);
        for i in 0..nx { for j in 0..ny { out.push(m[(i, j)].vec.clone()); } }
        out
    }) {
        st.evals_add((nx * ny) as u64);
        'b: for i in 0..nx { for j in 0..ny {
            if !row_eq(&rows[i * ny + j], &s.data[i][j]) {
                wrong(st, "mesh2d.index", ty, format!("mesh[({},{})] = {:?}, stored {:?}; {}", i, j, rows[i * ny + j], s.data[i][j], desc()));
                break 'b;
            }
        } }
    }
    // cross sections at every x node: a 1-D mesh over the y nodes
    let (xs, ys) = (gx.fvec(), gy.fvec());
    for i in 0..nx {
        let sec = call(st, "mesh2d.cross_section_xnode", ty, &desc, || {
            let c = m.cross_section_xnode(i);
            let nn = c.nnodes();
            (nn, c.nvars(), c.nodes().vec, (0..nn).map(|j| c.get_nodes_vars(j).vec).collect::<Vec<Vec<T>>>(), (0..nn).map(|j| c[j].vec.clone()).collect::<Vec<Vec<T>>>())
        });
        st.eval();
        if let Some((nn, nvv, nodes, rows, rows2)) = sec {
            let ok = nn == ny && nvv == nv && nodes == ys && (0..ny).all(|j| row_eq(&rows[j], &s.data[i][j]) && row_eq(&rows2[j], &s.data[i][j]));
            if !ok {
                wrong(st, "mesh2d.cross_section_xnode", ty, format!("cross_section_xnode({}): nnodes={} nvars={} nodes={:?} vars={:?}; expected nodes {:?} vars {:?}; {}", i, nn, nvv, nodes, rows, ys, s.data[i], desc()));
                break;
            }
        } else { break; }
    }
    for j in 0..ny {
        let sec = call(st, "mesh2d.cross_section_ynode", ty, &desc, || {
            let c = m.cross_section_ynode(j);
            let nn = c.nnodes();
            (nn, c.nvars(), c.nodes().vec, (0..nn).map(|i| c.get_nodes_vars(i).vec).collect::<Vec<Vec<T>>>(), (0..nn).map(|i| c[i].vec.clone()).collect::<Vec<Vec<T>>>())
        });
        st.eval();
        if let Some((nn, nvv, nodes, rows, rows2)) = sec {
            let ok = nn == nx && nvv == nv && nodes == xs && (0..nx).all(|i| row_eq(&rows[i], &s.data[i][j]) && row_eq(&rows2[i], &s.data[i][j]));
            if !ok {
                let want: Vec<&Vec<i64>> = (0..nx).map(|i| &s.data[i][j]).collect();
                wrong(st, "mesh2d.cross_section_ynode", ty, format!("cross_section_ynode({}): nnodes={} nvars={} nodes={:?} vars={:?}; expected nodes {:?} vars {:?}; {}", j, nn, nvv, nodes, rows, xs, want, desc()));
                break;
            }
        } else { break; }
    }
    // variable as matrix
    for var in 0..nv {
        let mm = call(st, "mesh2d.var_as_matrix", ty, &desc, || {
            let a = m.var_as_matrix(var);
            let (r, c) = (a.rows(), a.cols());
            let mut out = vec![];
            if r == nx && c == ny { for i in 0..nx { for j in 0..ny { out.push(a[(i, j)]); } } }
            (r, c, out)
        });
        st.eval();
        if let Some((r, c, vals)) = mm {
            let ok = r == nx && c == ny && (0..nx).all(|i| (0..ny).all(|j| vals[i * ny + j] == T::of(s.data[i][j][var])));
            if !ok {
                wrong(st, "mesh2d.var_as_matrix", ty, format!("var_as_matrix({}): {}x{} row-major entries {:?}; expected {}x{} with m[(i,j)] = model[i][j][{}]; {}", var, r, c, vals, nx, ny, var, desc()));
                break;
            }
        } else { break; }
    }
    // coordinates
    if let Some((cs, xn, yn)) = call(st, "mesh2d.coord", ty, &desc, || {
        let mut cs = vec![];
        for i in 0..nx { for j in 0..ny { cs.push(m.coord(i, j)); } }
        (cs, m.xnodes().vec, m.ynodes().vec)
    }) {
        st.evals_add((nx * ny + 2) as u64);
        let ok = (0..nx).all(|i| (0..ny).all(|j| cs[i * ny + j] == (xs[i], ys[j])));
        if !ok { wrong(st, "mesh2d.coord", ty, format!("coord(i,j) row-major = {:?}; {}", cs, desc())); }
        if xn != xs || yn != ys { wrong(st, "mesh2d.xnodes", ty, format!("xnodes() = {:?}, ynodes() = {:?}; {}", xn, yn, desc())); }
    }
}

fn apply_op2<T: Elem>(st: &mut Stats, m: &mut Mesh2D<T>, gx: &Grid, gy: &Grid, nv: usize, s: &mut State2, op: &Op2) {
    let (nx, ny) = (gx.n(), gy.n());
    s.hist.push(format!("{:?}", op));
    if s.hist.len() > 24 { s.hist.remove(0); }
    let hist = s.hist.clone();
    let (gxs, gys) = (gx.show(), gy.show());
    let desc = move || format!("Mesh2D<{}> xgrid={} ygrid={} nvars={} history(last is the failing op)={:?}", T::NAME, gxs, gys, nv, hist);
    match op {
        Op2::Set { i, j, vals } => { write2(st, m, 0, *i, *j, vals, &desc); s.data[*i][*j] = vals.clone(); s.bil.iter_mut().for_each(|b| *b = None); }
        Op2::IdxVec { i, j, vals } => { write2(st, m, 1, *i, *j, vals, &desc); s.data[*i][*j] = vals.clone(); s.bil.iter_mut().for_each(|b| *b = None); }
        Op2::IdxComp { i, j, var, val } => {
            let (i, j, var, val) = (*i, *j, *var, *val);
            call(st, "mesh2d.index_mut", T::NAME, &desc, || { m[(i, j)][var] = T::of(val); });
            st.eval();
            s.data[i][j][var] = val;
            s.bil[var] = None;
        }
        Op2::Apply { var, kind, c } => {
            let (var, kind, c) = (*var, *kind, *c);
            let (sx, sy) = ((1u64 << gx.s) as f64, (1u64 << gy.s) as f64);
            // the callback recovers the integer grid coordinates from the f64 positions it is handed (exact)
            let f = move |x: f64, y: f64| -> T { T::of(apply_fn(kind, c, (x * sx) as i64, (y * sy) as i64)) };
            call(st, "mesh2d.apply", T::NAME, &desc, || m.apply(&f, var));
            st.eval();
            for i in 0..nx { for j in 0..ny { s.data[i][j][var] = apply_fn(kind, c, gx.k[i], gy.k[j]); } }
            s.bil[var] = if kind == 0 { Some(c) } else { None };
        }
        Op2::Assign { c } => {
            let c = *c;
            call(st, "mesh2d.assign", T::NAME, &desc, || m.assign(T::of(c)));
            st.eval();
            for i in 0..nx { for j in 0..ny { for v in 0..nv { s.data[i][j][v] = c; } } }
            s.bil.iter_mut().for_each(|b| *b = Some([c, 0, 0, 0]));
        }
        Op2::FillCodes { path, base } => {
            for i in 0..nx { for j in 0..ny {
                let vals: Vec<i64> = (0..nv).map(|v| base + ((i * 16 + j) * 4 + v) as i64).collect();
                write2(st, m, *path, i, j, &vals, &desc);
                s.data[i][j] = vals;
            } }
            s.bil.iter_mut().for_each(|b| *b = None);
        }
    }
}

fn random_ops2(rng: &mut Rng, nx: usize, ny: usize, nv: usize, nops: usize) -> Vec<Op2> {
    let class = rng.below(4);
    let mut ops = vec![];
    if rng.chance(0.6) { ops.push(Op2::FillCodes { path: rng.below(3) as u8, base: rand_val(rng, class.min(2)) }); }
    for _ in 0..nops {
        let (i, j) = (rng.usize(0, nx - 1), rng.usize(0, ny - 1));
        let c = if rng.chance(0.15) { rng.below(4) } else { class };
        ops.push(match rng.below(12) {
            0..=2 => Op2::Set { i, j, vals: (0..nv).map(|_| rand_val(rng, c)).collect() },
            3..=5 => Op2::IdxVec { i, j, vals: (0..nv).map(|_| rand_val(rng, c)).collect() },
            6..=8 => Op2::IdxComp { i, j, var: rng.usize(0, nv - 1), val: rand_val(rng, c) },
            9 => Op2::Apply { var: rng.usize(0, nv - 1), kind: 0, c: [rng.int(-50, 50), rng.int(-9, 9), rng.int(-9, 9), rng.int(-3, 3)] },
            10 => Op2::Apply { var: rng.usize(0, nv - 1), kind: 1, c: [rng.int(-50, 50), rng.int(-9, 9), rng.int(-9, 9), rng.int(-3, 3)] },
            _ => Op2::Assign { c: rand_val(rng, c.min(2)) },
        });
    }
    if rng.chance(0.4) {
        ops.push(Op2::Apply { var: rng.usize(0, nv - 1), kind: 0, c: [rng.int(-50, 50), rng.int(-9, 9), rng.int(-9, 9), rng.nzint(3)] });
    }
    ops
}

fn enum_ops2(nv: usize) -> Vec<Op2> {
    let mut ops = vec![
        Op2::FillCodes { path: 0, base: 1000 },
        Op2::FillCodes { path: 1, base: -5000 },
        Op2::FillCodes { path: 2, base: 9000 },
    ];
    for var in 0..nv { ops.push(Op2::Apply { var, kind: 1, c: [17 + var as i64, 5, 7, 11] }); }
    ops.push(Op2::Assign { c: -7 });
    for var in 0..nv { ops.push(Op2::Apply { var, kind: 0, c: [3, -2 + var as i64, 5, 1] }); }
    ops
}

fn history2<T: Elem>(
    st: &mut Stats, rng: &mut Rng, class: &str, gx: &Grid, gy: &Grid, nv: usize, ops: &[Op2],
    after: &mut dyn FnMut(&mut Stats, &mut Rng, &Mesh2D<T>, &State2),
) {
    st.next_case();
    let (nx, ny) = (gx.n(), gy.n());
    let (gxs, gys) = (gx.show(), gy.show());
    let d0 = || format!("Mesh2D<{}>::new xgrid={} ygrid={} nvars={}", T::NAME, gxs, gys, nv);
    let mut m = match call(st, "mesh2d.new", T::NAME, &d0, || Mesh2D::<T>::new(Vector::create(gx.fvec()), Vector::create(gy.fvec()), nv)) { Some(m) => m, None => return };
    st.eval();
    let mut s = State2 { data: vec![vec![vec![0; nv]; ny]; nx], bil: vec![Some([0, 0, 0, 0]); nv], hist: vec![] };
    check2(st, &m, gx, gy, nv, &s);
    for op in ops {
        apply_op2(st, &mut m, gx, gy, nv, &mut s, op);
        check2(st, &m, gx, gy, nv, &s);
    }
    after(st, rng, &m, &s);
    st.count(&format!("cases:mesh2d:{}:{}", T::NAME, class));
    st.set_insert("shapes2d", format!("{}x{}x{}", nx, ny, nv));
    let constant = s.data.iter().all(|r| r.iter().all(|c| c == &s.data[0][0]));
    if gx.nonuniform() && gy.nonuniform() && !constant {
        let mut h = gy.hash(gx.hash(hash_str("mesh2d") ^ hash_str(T::NAME)));
        for r in &s.data { for c in r { for v in c { h = hmix(h, *v as u64); } } }
        st.nontrivial(hmix(h, ops.len() as u64));
    }
    st.sample(|| format!("Mesh2D<{}> xgrid={} ygrid={} nvars={} final model={:?}", T::NAME, gx.show(), gy.show(), nv, s.data));
}

// ------------------------------------------------------------------------------------------------
// 2-D numerical half (f64)
// ------------------------------------------------------------------------------------------------
/// exact 2-D trapezium of var (square=false) or var^2 (square=true):
/// (value, Σ|term| in quanta of 2^-(sx+sy+2), Σ|term|)
fn trap2_exact(gx: &Grid, gy: &Grid, data: &[Vec<Vec<i64>>], var: usize, square: bool) -> (Rat, u128, Rat) {
    let q = Rat::new(1, 1i128 << (gx.s + gy.s + 2));
    let (mut sum, mut quanta) = (0i128, 0u128);
    let f = |i: usize, j: usize| -> i128 { let v = data[i][j][var] as i128; if square { v * v } else { v } };
    for i in 0..gx.n() - 1 {
        let dx = (gx.k[i + 1] - gx.k[i]) as i128;
        for j in 0..gy.n() - 1 {
            let dy = (gy.k[j + 1] - gy.k[j]) as i128;
            let c = [f(i, j), f(i + 1, j), f(i, j + 1), f(i + 1, j + 1)];
            sum += dx * dy * (c[0] + c[1] + c[2] + c[3]);
            quanta += (dx * dy) as u128 * (c[0].unsigned_abs() + c[1].unsigned_abs() + c[2].unsigned_abs() + c[3].unsigned_abs());
        }
    }
    (Rat::new(sum, 1) * q, quanta, Rat::new(quanta as i128, 1) * q)
}

fn numeric2(st: &mut Stats, m: &Mesh2D<f64>, gx: &Grid, gy: &Grid, s: &State2) {
    let nv = s.data[0][0].len();
    for var in 0..nv {
        for square in [false, true] {
            let site = if square { "square_trapezium2d" } else { "trapezium2d" };
            let model = catch(|| {
                let t = trap2_exact(gx, gy, &s.data, var, square);
                let ana = if square { None } else {
                    s.bil[var].map(|c| {
                        let (x0, x1, y0, y1) = (gx.r(0), gx.r(gx.n() - 1), gy.r(0), gy.r(gy.n() - 1));
                        let (lx, ly) = (x1 - x0, y1 - y0);
                        // ∫X dx with X = 2^sx x ;  ∫Y dy with Y = 2^sy y
                        let ix = Rat::new(1i128 << gx.s, 2) * (x1 * x1 - x0 * x0);
                        let iy = Rat::new(1i128 << gy.s, 2) * (y1 * y1 - y0 * y0);
                        Rat::int(c[0]) * lx * ly + Rat::int(c[1]) * ix * ly + Rat::int(c[2]) * lx * iy + Rat::int(c[3]) * ix * iy
                    })
                };
                (t, ana)
            });
            let ((exact, quanta, abs_sum), ana) = match model { Outcome::Ok(t) => t, _ => { st.count("skipped:rat-overflow-in-model"); continue; } };
            if let Some(a) = ana {
                st.count("quad:trapezium2d:bilinear-data");
                if a != exact { st.harness_errors.push(format!("C19 model self-check failed: analytic {:?} vs cell sum {:?} xgrid {} ygrid {} bil {:?}", a, exact, gx.show(), gy.show(), s.bil[var])); }
            }
            let desc = || format!("Mesh2D<f64>.{}({}) xgrid={} ygrid={} model[i][j][var]={:?} bilinear={:?}", site, var, gx.show(), gy.show(), s.data, s.bil[var]);
            let got = call(st, site, "f64", &desc, || if square { m.square_trapezium(var) } else { m.trapezium(var) });
            st.eval();
            if let Some(got) = got { judge_quad(st, site, got, exact, quanta, abs_sum, &desc); }
        }
    }
}

/// numerical routines on cross-sections of a 2-D f64 mesh (composition of the two halves)
fn numeric2_sections(st: &mut Stats, rng: &mut Rng, m: &Mesh2D<f64>, gx: &Grid, gy: &Grid, s: &State2) {
    let (nx, ny) = (gx.n(), gy.n());
    let nv = s.data[0][0].len();
    let i = rng.usize(0, nx - 1);
    let j = rng.usize(0, ny - 1);
    let d0 = || format!("cross_section of Mesh2D<f64> xgrid={} ygrid={} model={:?}", gx.show(), gy.show(), s.data);
    if let Some(sec) = call(st, "mesh2d.cross_section_xnode", "f64", &d0, || m.cross_section_xnode(i)) {
        let s1 = State1 { data: s.data[i].clone(), lin: vec![None; nv], hist: vec![format!("cross_section_xnode({})", i)] };
        judge_trap1(st, &sec, gy, &s1, "trapezium1d.of-xsection");
        let jj = rng.usize(0, ny - 2);
        judge_interp(st, &sec, gy, &s1.data, 0.5 * (gy.f(jj) + gy.f(jj + 1)), "mid");
        judge_interp(st, &sec, gy, &s1.data, gy.f(ny - 1), "node");
    }
    if let Some(sec) = call(st, "mesh2d.cross_section_ynode", "f64", &d0, || m.cross_section_ynode(j)) {
        let s1 = State1 { data: (0..nx).map(|i| s.data[i][j].clone()).collect(), lin: vec![None; nv], hist: vec![format!("cross_section_ynode({})", j)] };
        judge_trap1(st, &sec, gx, &s1, "trapezium1d.of-ysection");
        let ii = rng.usize(0, nx - 2);
        judge_interp(st, &sec, gx, &s1.data, 0.5 * (gx.f(ii) + gx.f(ii + 1)), "mid");
        judge_interp(st, &sec, gx, &s1.data, gx.f(0), "node");
    }
}

// ------------------------------------------------------------------------------------------------
// driver
// ------------------------------------------------------------------------------------------------
pub fn run(ctx: &Ctx) -> Report {
    // file round trips need a writable work directory; probe once (trouble here is never a verdict)
    let _ = std::fs::create_dir_all(&ctx.workdir);
    let probe = format!("{}/c19_probe_{}_{}.tmp", ctx.workdir, std::process::id(), ctx.seed);
    let io_ok = std::fs::write(&probe, b"1 2\n").is_ok() && std::fs::read_to_string(&probe).is_ok();
    let _ = std::fs::remove_file(&probe);

    // enumerated work items (seed independent): every 1-D shape n in 2..12 x nvars 1..4, every 2-D shape
    let mut shapes: Vec<(usize, usize, usize)> = vec![]; // (nx, ny or 0 for 1-D, nvars)
    for n in 2..=12 { for nv in 1..=4 { shapes.push((n, 0, nv)); } }
    for nx in 2..=12 { for ny in 2..=12 { for nv in 1..=4 { shapes.push((nx, ny, nv)); } } }
    let ne = shapes.len() as u64;
    let nrand = ctx.vol(20_000, 1_200_000);
    let workdir = ctx.workdir.clone();
    let seed = ctx.seed;

    let stats = par_run(ctx, TAG, ne + nrand, |u, rng, st| {
        if u < ne {
            let (nx, ny, nv) = shapes[u as usize];
            let mut er = Rng::new(mix(0xC19E, u)); // enumerated part: independent of the run seed
            let er = &mut er;
            if ny == 0 {
                let g = gen_grid(er, nx);
                let ops = enum_ops1();
                history1::<Rat, f64>(st, er, "enumerated", &g, nv, &ops, &mut |_, _, _, _| {});
                history1::<Rat, Rat>(st, er, "enumerated", &g, nv, &ops, &mut |_, _, _, _| {});
                let mut ops_f = ops.clone();
                ops_f.push(Op1::FillLinear { var: nv - 1, a: 7, b: -3, path: 0 });
                history1::<f64, f64>(st, er, "enumerated", &g, nv, &ops_f, &mut |st, r, m, s| {
                    numeric1(st, r, m, &g, s, true);
                    if io_ok { judge_file(st, r, &workdir, seed, m, &g, s, (nx * 4 + nv) % 14); }
                });
            } else {
                let gx = gen_grid(er, nx);
                let gy = gen_grid(er, ny);
                let ops = enum_ops2(nv);
                history2::<Rat>(st, er, "enumerated", &gx, &gy, nv, &ops, &mut |_, _, _, _| {});
                history2::<f64>(st, er, "enumerated", &gx, &gy, nv, &ops, &mut |st, r, m, s| {
                    numeric2(st, m, &gx, &gy, s);
                    numeric2_sections(st, r, m, &gx, &gy, s);
                });
            }
            return;
        }
        offset_case(st, rng);
        nearly_uniform_case(st, rng);
        for _ in 0..10 {
            let nv = rng.usize(1, 4);
            match rng.below(10) {
                0 | 1 => {
                    let n = node_count(rng, 48);
                    let g = gen_grid(rng, n);
                    let nops = rng.usize(0, 10); let ops = random_ops1(rng, n, nv, nops);
                    if rng.bool() { history1::<Rat, f64>(st, rng, "random", &g, nv, &ops, &mut |_, _, _, _| {}); }
                    else { history1::<Rat, Rat>(st, rng, "random", &g, nv, &ops, &mut |_, _, _, _| {}); }
                }
                2..=4 => {
                    let n = node_count(rng, 48);
                    if n > 12 { st.count("cases:mesh1d:long(13..48 nodes)"); }
                    let g = gen_grid(rng, n);
                    let nops = rng.usize(0, 10); let ops = random_ops1(rng, n, nv, nops);
                    let p = if rng.chance(0.3) { rng.usize(0, 3) } else { rng.usize(0, 17) };
                    let do_file = io_ok && rng.chance(0.5);
                    history1::<f64, f64>(st, rng, "random", &g, nv, &ops, &mut |st, r, m, s| {
                        numeric1(st, r, m, &g, s, false);
                        if do_file { judge_file(st, r, &workdir, seed, m, &g, s, p); }
                    });
                }
                5 | 6 => {
                    let (nx, ny) = (rng.usize(2, 12), rng.usize(2, 12));
                    let (gx, gy) = (gen_grid(rng, nx), gen_grid(rng, ny));
                    let nops = rng.usize(0, 8); let ops = random_ops2(rng, nx, ny, nv, nops);
                    history2::<Rat>(st, rng, "random", &gx, &gy, nv, &ops, &mut |_, _, _, _| {});
                }
                _ => {
                    let (nx, ny) = (node_count(rng, 24), node_count(rng, 24));
                    if nx > 12 || ny > 12 { st.count("cases:mesh2d:long(13..24 nodes)"); }
                    let (gx, gy) = (gen_grid(rng, nx), gen_grid(rng, ny));
                    let nops = rng.usize(0, 8); let ops = random_ops2(rng, nx, ny, nv, nops);
                    history2::<f64>(st, rng, "random", &gx, &gy, nv, &ops, &mut |st, r, m, s| {
                        numeric2(st, m, &gx, &gy, s);
                        numeric2_sections(st, r, m, &gx, &gy, s);
                    });
                }
            }
        }
    });

    let mut rep = Report::new(stats,
        "meshes on dyadic non-uniform grids (positions k/2^s, s<=9, steps from 4 classes incl. ratios up to 256:1, offsets in [-1024,1024]/2^s), 2..12 nodes per direction (one draw in eight long: 13..48 nodes in 1-D, 13..24 per axis in 2-D f64), 1..4 variables, integer nodal data (4 magnitude classes up to 2^30). \
         Enumerated (seed-independent) units: EVERY 1-D shape (n,nvars) and EVERY 2-D shape (nx,ny,nvars): every (node,var) written with a unique code through every write path and read back through every read path, for T in {f64,Rat} (1-D also X in {f64,Rat}); f64: interpolation at all nodes and mid-cells, trapezium/square_trapezium, one file round trip per 1-D shape. \
         Random units: 10 meshes each with a random write history (set_nodes_vars / IndexMut vector / IndexMut component / apply bilinear+nonlinear / assign / linear fill), ALL read paths compared with the model after every step; then the numerical routines on the final state (interpolation at nodes, mid-cells, random interior points, points 1.001e-6..1e-5 from a node; quadrature vs exact Rat cell sum, cross-checked with the analytic integral when the data are (bi)linear; file round trip at precision 0..17 into a mesh with different node count and garbage contents). \
         A mesh is non-trivial when every direction has >=3 nodes with >=2 distinct spacings and the final nodal data are not constant; distinct = hash(kind, types, grids, final data, #ops)");
    rep.assumptions = vec![
        "interpolation is only judged at points exactly on a node or >= 1e-6 (checked over Rat) from every node, inside the grid; behaviour outside the grid and inside the 1e-7 snapping window is not judged".into(),
        format!("interpolation tolerance |err| <= {}*u*(|left|+|right|) (a priori rounding bound ~4u); exactly AT a node bit equality with the stored (integer) nodal value is demanded in addition (signatures *:last-node-not-bit-exact / *:node-not-bit-exact)", INTERP_TOL_U),
        format!("quadrature: BIT equality with the exact rational value whenever the generator certificate (sum of |cell terms| < 2^53 quanta, so every f64 operation in any order is exact) holds; otherwise |err| <= {}*u*sum|terms|", QUAD_TOL_U),
        "file round trip: |read - written| <= 1/2*10^-p + |written|*2^-52 judged over Rat; read() is called on a mesh with the same nvars (its documented requirement); files live under ctx.workdir and are deleted after reading".into(),
        "Rat overflow in model or library => case skipped (counted), never judged; unwritable workdir => file part skipped and the run is marked inconclusive".into(),
    ];
    rep.min_nontrivial = if ctx.quick() { 20_000 } else { 400_000 };
    if !io_ok { rep.inconclusive.push(format!("workdir {} not writable: file round trips skipped", ctx.workdir)); }
    let mut ex = J::obj();
    ex.set("exhaustive_parts", J::Arr(vec![
        J::s("all 44 1-D shapes (n 2..12 x nvars 1..4) x {f64/f64, Rat/f64, Rat/Rat}: every (node,var) x 3 write paths x all read paths"),
        J::s("all 484 2-D shapes (nx,ny 2..12 x nvars 1..4) x {f64, Rat}: every (i,j,var) x 3 write paths + apply per var + assign x all read paths (get, index, every x/y cross-section, var_as_matrix per var, coord)"),
        J::s("f64: interpolation at every node and every mid-cell of every enumerated 1-D shape; trapezium/square_trapezium of every var of every enumerated 2-D shape"),
    ]));
    ex.set("enumerated_units", J::UInt(ne));
    ex.set("random_units", J::UInt(nrand));
    rep.extra = ex;
    rep
}
