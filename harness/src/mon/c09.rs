//! C09 — iterative solvers converge on well-posed systems, never corrupt a correct x.
use crate::fl::{self, U};
use crate::mon::c08::{bits, norm2, Solver, Sys, SOLVERS};
use crate::mon::common::*;
use crate::rng::Rng;
use crate::run::{catch, par_run, Ctx, Outcome, Report, Stats};
use ohsl::{Sparse, Vector};

const TAG: u64 = 0xC09;
const MARGINS: [f64; 4] = [0.02, 0.1, 0.5, 2.0];
/// QMR's look-ahead-free recurrence has an attainable-accuracy floor of a few 1e-12 (DESIGN 5/C09)
const QMR_MIN_TOL: f64 = 1e-8;

fn iter_cap(n: usize) -> usize { 10 * n + 100 }

/// strictly diagonally dominant system; symmetric => positive diagonal (SPD by Gershgorin)
fn gen_dominant(rng: &mut Rng, n: usize, symmetric: bool, margin: f64, integer: bool) -> Sys {
    let p = if n <= 3 { 0.8 } else { rng.range(1.0, 5.0) / n as f64 };
    let mut d = vec![vec![0.0; n]; n];
    for i in 0..n { for j in 0..n { if i != j && (!symmetric || i < j) && rng.chance(p) {
        let v = if integer { rng.nzint(4) as f64 } else { rng.sym() };
        d[i][j] = v; if symmetric { d[j][i] = v; }
    } } }
    // the units of the matrix must not matter: global scales over 60 decades (exact powers of two for the extremes)
    let scale = if integer { 1.0 } else { *rng.pick(&[1.0, 1e3, 1e-3, 1.0, 2f64.powi(-70), 2f64.powi(70), 2f64.powi(-100), 2f64.powi(100)]) };
    for i in 0..n {
        let s: f64 = d[i].iter().map(|v| v.abs()).sum();
        let mut dii = if integer { (s * (1.0 + margin)).floor() + 1.0 } else { s * (1.0 + margin) + margin * 0.25 + 1e-3 };
        if !symmetric && rng.bool() { dii = -dii; }
        d[i][i] = dii;
    }
    let mut trip = vec![];
    for i in 0..n { for j in 0..n { if d[i][j] != 0.0 { trip.push((i, j, d[i][j] * scale)); } } }
    Sys { n, trip, class: if symmetric { "spd-dominant" } else { "row-dominant-nonsymmetric" } }
}

fn applicable(sv: Solver, symmetric: bool) -> bool { symmetric || sv != Solver::Cg }

fn direct_solution(d: &Vec<Vec<f64>>, b: &[f64]) -> Option<Vec<f64>> {
    let mut m = mat_f64(d);
    catch(|| m.solve_basic(&Vector::create(b.to_vec()))).ok().map(|v| v.vec).filter(|v| fl::all_finite(v))
}

/// ||x - y||_2 / ||y||_2, formed after both vectors are brought to O(1) by an exact power of two (no overflow for entries
/// in the top binade)
fn rel_dist(x: &[f64], y: &[f64]) -> f64 {
    let m = y.iter().chain(x).fold(0.0f64, |m, v| m.max(v.abs()));
    if m == 0.0 || !m.is_finite() { return if m == 0.0 { 0.0 } else { f64::NAN }; }
    let e = -(m.log2().floor() as i32);
    let sc = |v: f64| v * 2f64.powi(e / 2) * 2f64.powi(e - e / 2);
    let (xs, ys): (Vec<f64>, Vec<f64>) = (x.iter().map(|v| sc(*v)).collect(), y.iter().map(|v| sc(*v)).collect());
    let ny = norm2(&ys);
    let dn = norm2(&xs.iter().zip(&ys).map(|(p, q)| p - q).collect::<Vec<_>>());
    if ny == 0.0 { dn } else { dn / ny }
}

fn frob(d: &Vec<Vec<f64>>) -> f64 { norm2(&d.iter().flatten().copied().collect::<Vec<f64>>()) }

fn convergence_case(st: &mut Stats, rng: &mut Rng) {
    let n = if rng.chance(0.2) { rng.usize(1, 4) } else { rng.usize(1, 60) };
    let symmetric = rng.bool();
    let margin = *rng.pick(&MARGINS);
    let sys = gen_dominant(rng, n, symmetric, margin, false);
    let d = sys.dense();
    let a = match catch(|| sys.sparse(rng)) { Outcome::Ok(a) => a, _ => return };
    let inv = match cp_inverse_real(&d) { Some(i) => i, None => { st.count("skipped:certificate-failed"); return; } };
    let kf = frob(&d) * frob(&inv);
    let mk_rhs = |rng: &mut Rng| -> (Vec<f64>, Vec<f64>) {
        // right-hand sides of any scale: the planted solution (hence b) is scaled over 120 decades
        let sc = *rng.pick(&[1.0, 1e8, 1e-8, 1e3, 1e-18, 1e-30, 1e-60, 1e30, 1e60, 1e-80, 1e80, 2f64.powi(-510), 2f64.powi(-530), 1e-140, 1e140, 1e-200, 1e200]);
        let mut xs: Vec<f64> = (0..n).map(|_| rng.sym() * sc).collect();
        let mut b: Vec<f64> = (0..n).map(|i| (0..n).map(|j| d[i][j] * xs[j]).sum()).collect();
        // now and then the whole problem is moved (by an exact power of two) so that the largest |b_i| lies in the TOP binade
        // [2^1023, 2^1024) or just above the subnormal range: "right-hand sides of any scale" includes the ends of the range
        if rng.chance(0.06) {
            let bm = b.iter().fold(0.0f64, |m, v| m.max(v.abs()));
            if bm > 0.0 && bm.is_finite() {
                let e = if rng.bool() { 1023 - bm.log2().floor() as i32 } else { -1000 - bm.log2().floor() as i32 };
                let sh = |v: f64| v * 2f64.powi(e / 2) * 2f64.powi(e - e / 2);
                let (xs2, b2): (Vec<f64>, Vec<f64>) = (xs.iter().map(|v| sh(*v)).collect(), b.iter().map(|v| sh(*v)).collect());
                if xs2.iter().chain(&b2).all(|v| v.is_finite()) && xs2.iter().all(|v| *v == 0.0 || v.abs() > 1e-290) { xs = xs2; b = b2; }
            }
        }
        (xs, b)
    };
    let (xs, b) = mk_rhs(rng);
    // initial guesses: zero, random at the scale of the solution, or a perturbed solution. (A guess that is
    // 1e8 times larger than the solution asks for a residual reduction beyond u*||A||*||x0||/||b||, which no
    // floating-point iteration can deliver; such requests are outside "well-posed" and are not generated.)
    let xscale = norm2(&xs) / (n as f64).sqrt();
    let x0: Vec<f64> = match rng.below(3) { 0 => vec![0.0; n], 1 => (0..n).map(|_| rng.sym() * xscale).collect(), _ => xs.iter().map(|v| v * (1.0 + 0.1 * rng.sym())).collect() };
    let xd = match direct_solution(&d, &b) { Some(x) => x, None => { st.count("skipped:direct-solve-failed"); return; } };
    let tol = rng.logpos(1e-12, 1e-3);
    let bv = Vector::create(b.clone());
    for sv in SOLVERS {
        if !applicable(sv, symmetric) { continue; }
        if sv == Solver::Qmr && tol < QMR_MIN_TOL { st.count("not-demanded:qmr-below-floor"); continue; }
        st.next_case();
        let desc = || format!("solver={} class={} n={} margin={} kappa_F={:e} tol={:e} max_iter={} b={:?} x0={:?} triplets={:?}", sv.name(), sys.class, n, margin, kf, tol, iter_cap(n), b, x0, sys.trip);
        let mut x = Vector::create(x0.clone());
        let out = catch(|| sv.call(&a, &bv, &mut x, iter_cap(n), tol));
        st.eval();
        match out {
            Outcome::Ok(Ok(it)) => {
                st.max(&format!("iterations_over_n_plus_10:{}", sv.name()), it as f64 / (n as f64 + 10.0));
                if !fl::all_finite(&x.vec) { st.violation(&format!("C09:{}:ok-nonfinite", sv.name()), format!("x={:?}; {}", x.vec, desc())); continue; }
                // agreement with the direct dense solution
                // (everything in relative form: no overflow at the ends of the range)
                let err = rel_dist(&x.vec, &xd);
                let xb = { let m = b.iter().fold(0.0f64, |m, v| m.max(v.abs())).max(f64::MIN_POSITIVE); let xm = x.vec.iter().chain(&x0).fold(0.0f64, |m, v| m.max(v.abs())); (n as f64).sqrt() * xm / m };
                let drift = crate::mon::c08::drift_units(sv) * U * (it as f64 + 1.0) * (sys.frob() * xb + 1.0);
                let bound = 4.0 * (kf * (tol + drift) + 8.0 * n as f64 * kf * U);
                st.max(&format!("direct_agreement_over_bound:{}", sv.name()), if bound > 0.0 { err / bound } else { 0.0 });
                if !(err <= bound) { st.violation(&format!("C09:{}:disagrees-with-direct", sv.name()), format!("||x-x_direct||/||x_direct||={:e} > {:e}; x={:?} x_direct={:?}; {}", err, bound, x.vec, xd, desc())); }
                // the budget only bounds the loop: exactly `it` iterations must suffice as well
                if it > 0 && rng.chance(0.3) {
                    let mut x4 = Vector::create(x0.clone());
                    let r4 = catch(|| sv.call(&a, &bv, &mut x4, it, tol));
                    if !matches!(r4, Outcome::Ok(Ok(k)) if k == it) || bits(&x4.vec) != bits(&x.vec) { st.violation(&format!("C09:{}:not-accepted-with-exact-budget", sv.name()), format!("converged in {} iterations under a generous budget, but max_iter = {} gives {:?}; {}", it, it, r4, desc())); }
                }
                st.count(&format!("converged:{}", sv.name()));
                if n >= 2 { let mut h = hash_str(sv.name()); for t in sys.trip.iter().take(8) { h = hmix(h, t.2.to_bits()); } st.nontrivial(hmix(h, tol.to_bits())); }
            }
            Outcome::Ok(Err(e)) => {
                // breakdown guard: reproduce on fresh right-hand sides of the same matrix
                let mut fails = 0;
                for _ in 0..3 {
                    let (_x2, b2) = mk_rhs(rng);
                    let mut xx = Vector::create(vec![0.0; n]);
                    if !matches!(catch(|| sv.call(&a, &Vector::create(b2.clone()), &mut xx, iter_cap(n), tol)), Outcome::Ok(Ok(_))) { fails += 1; }
                }
                if fails >= 2 { st.violation(&format!("C09:{}:no-convergence", sv.name()), format!("Err({:e}) within {} iterations and {} of 3 fresh right-hand sides fail too; {}", e, iter_cap(n), fails, desc())); }
                else { st.count(&format!("isolated-breakdown:{}", sv.name())); st.set_insert(&format!("isolated-breakdown-examples:{}", sv.name()), format!("n={} margin={} tol={:.1e} err={:.1e} symmetric={} x0kind_norm={:.1e} bnorm={:.1e} refails={}", n, margin, tol, e, symmetric, norm2(&x0), norm2(&b), fails)); }
            }
            o => st.violation(&format!("C09:{}:panic", sv.name()), format!("{}; {}", o.describe(), desc())),
        }
        st.sample(|| desc());
    }
}

/// One live Sparse object solved, edited in place (an EXISTING entry overwritten by insert, or the whole matrix scaled) and
/// solved again: every solve must meet the convergence demands for the system the object holds at that moment
/// (anything the object caches about itself must follow its edits).
fn live_object_case(st: &mut Stats, rng: &mut Rng) {
    let n = rng.usize(2, 30);
    let symmetric = rng.bool();
    let margin = *rng.pick(&[0.5, 2.0]);
    let sys = gen_dominant(rng, n, symmetric, margin, false);
    let mut d = sys.dense();
    let mut a = match catch(|| sys.sparse(rng)) { Outcome::Ok(a) => a, _ => return };
    let tol = rng.logpos(1e-10, 1e-4);
    let mut log: Vec<String> = vec![format!("class={} n={} margin={} tol={:e} triplets={:?}", sys.class, n, margin, tol, sys.trip)];
    for step in 0..rng.usize(2, 4) {
        if step > 0 {
            // an edit that keeps strict dominance (and symmetry): halve one stored off-diagonal pair, double a diagonal entry, or scale everything
            match rng.below(3) {
                0 => { let offs: Vec<(usize, usize)> = (0..n).flat_map(|i| (0..n).map(move |j| (i, j))).filter(|&(i, j)| i != j && d[i][j] != 0.0).collect();
                       if let Some(&(i, j)) = offs.get(rng.below(offs.len().max(1) as u64) as usize) { let v = d[i][j] * 0.5; d[i][j] = v; log.push(format!("insert({},{},{:e}) [overwrite]", i, j, v)); if !catch(|| a.insert(i, j, v)).is_ok() { return; } if symmetric { d[j][i] = v; if !catch(|| a.insert(j, i, v)).is_ok() { return; } } } }
                1 => { let i = rng.usize(0, n - 1); let v = d[i][i] * 2.0; d[i][i] = v; log.push(format!("insert({},{},{:e}) [overwrite diagonal]", i, i, v)); if !catch(|| a.insert(i, i, v)).is_ok() { return; } }
                _ => { let c = *rng.pick(&[0.5, 2.0, 3.0]); for row in d.iter_mut() { for v in row.iter_mut() { *v *= c; } } log.push(format!("scale({})", c)); if !catch(|| a.scale(&c)).is_ok() { return; } }
            }
        }
        let xs: Vec<f64> = (0..n).map(|_| rng.sym()).collect();
        let b: Vec<f64> = (0..n).map(|i| (0..n).map(|j| d[i][j] * xs[j]).sum()).collect();
        let xd = match direct_solution(&d, &b) { Some(x) => x, None => return };
        let inv = match cp_inverse_real(&d) { Some(i) => i, None => return };
        let kf = frob(&d) * frob(&inv);
        let bv = Vector::create(b.clone());
        let sv = loop { let s = *rng.pick(&SOLVERS); if applicable(s, symmetric) && !(s == Solver::Qmr && tol < QMR_MIN_TOL) { break s; } };
        log.push(format!("solve[{}](b={:?})", sv.name(), b));
        st.next_case();
        let mut x = Vector::create(vec![0.0; n]);
        st.eval();
        match catch(|| sv.call(&a, &bv, &mut x, iter_cap(n), tol)) {
            Outcome::Ok(Ok(it)) => {
                let err = norm2(&x.vec.iter().zip(&xd).map(|(p, q)| p - q).collect::<Vec<_>>());
                let drift = crate::mon::c08::drift_units(sv) * U * (it as f64 + 1.0) * (frob(&d) * (norm2(&x.vec) / norm2(&b).max(f64::MIN_POSITIVE)) + 1.0);
                let bound = 4.0 * (kf * (tol + drift) + 8.0 * n as f64 * kf * U) * norm2(&xd);
                if !(err <= bound) { st.violation(&format!("C09:{}:history:disagrees-with-direct", sv.name()), format!("||x-x_direct|| = {:e} > {:e} on the edited object; history {:?}", err, bound, log)); return; }
                st.count(&format!("history-converged:{}", sv.name()));
            }
            Outcome::Ok(Err(e)) => {
                // reproduce on a FRESH object holding the same entries: if that one converges, the live object is at fault
                let mut t: Vec<(usize, usize, f64)> = vec![]; for i in 0..n { for j in 0..n { if d[i][j] != 0.0 { t.push((i, j, d[i][j])); } } }
                let fresh = catch(|| { let f = Sparse::<f64>::from_triplets(n, n, &mut t); let mut xx = Vector::create(vec![0.0; n]); sv.call(&f, &bv, &mut xx, iter_cap(n), tol) });
                if matches!(fresh, Outcome::Ok(Ok(_))) { st.violation(&format!("C09:{}:history:no-convergence-on-edited-object", sv.name()), format!("Err({:e}) within {} iterations on the live object, while a fresh object with the same entries converges; history {:?}", e, iter_cap(n), log)); return; }
                st.count(&format!("isolated-breakdown:{}", sv.name()));
            }
            o => { st.violation(&format!("C09:{}:history:panic", sv.name()), format!("{}; history {:?}", o.describe(), log)); return; }
        }
    }
    st.nontrivial(hmix(hash_str("c09-live-object"), rng.u64()));
}

/// zero right-hand side with a NON-zero guess: the well-posed system A x = 0 has the solution 0, the solvers measure the
/// residual absolutely (||b|| := 1), so Ok must leave ||x|| <= ||A^-1|| (tol + drift)
fn zero_rhs_case(st: &mut Stats, rng: &mut Rng) {
    let n = rng.usize(1, 40);
    let symmetric = rng.bool();
    let margin = *rng.pick(&MARGINS);
    let sys = gen_dominant(rng, n, symmetric, margin, false);
    let d = sys.dense();
    let a = match catch(|| sys.sparse(rng)) { Outcome::Ok(a) => a, _ => return };
    let inv = match cp_inverse_real(&d) { Some(i) => i, None => { st.count("skipped:certificate-failed"); return; } };
    let gs = *rng.pick(&[1.0, 1e2, 1e4, 1e6, 1e-3]);
    let mk_guess = |rng: &mut Rng| -> Vec<f64> { (0..n).map(|_| rng.sym() * gs).collect() };
    let x0 = mk_guess(rng);
    // attainable requests only: the absolute residual cannot be pushed below u*||A||*||x0||
    let floor = 1e4 * U * frob(&d) * gs * (n as f64).sqrt();
    let tol = rng.logpos(1e-12, 1e-3).max(floor);
    if tol > 1e-3 { st.count("skipped:zero-rhs-request-unattainable"); return; }
    let bv = Vector::create(vec![0.0; n]);
    for sv in SOLVERS {
        if !applicable(sv, symmetric) { continue; }
        if sv == Solver::Qmr && tol < QMR_MIN_TOL { continue; }
        st.next_case();
        let desc = || format!("solver={} zero-rhs-nonzero-guess class={} n={} margin={} tol={:e} max_iter={} x0={:?} triplets={:?}", sv.name(), sys.class, n, margin, tol, iter_cap(n), x0, sys.trip);
        let mut x = Vector::create(x0.clone());
        let out = catch(|| sv.call(&a, &bv, &mut x, iter_cap(n), tol));
        st.eval();
        match out {
            Outcome::Ok(Ok(it)) => {
                if !fl::all_finite(&x.vec) { st.violation(&format!("C09:{}:zero-rhs:ok-nonfinite", sv.name()), format!("x={:?}; {}", x.vec, desc())); continue; }
                // (drift at the scale of the LARGEST ITERATE, obtained by budget replay as in C08: BiCGSTAB's iterates can grow
                //  far beyond the guess on weakly dominant systems before they come down - thorough seed 5)
                let mmax = crate::mon::c08::max_iterate_norm(sv, &a, &bv, &x0, it, tol).max(norm2(&x0)).max(norm2(&x.vec));
                let drift = crate::mon::c08::drift_units(sv) * U * (it as f64 + 1.0) * frob(&d) * mmax;
                let bound = 4.0 * frob(&inv) * (tol + drift);
                st.max(&format!("zero_rhs_norm_over_bound:{}", sv.name()), norm2(&x.vec) / bound);
                if !(norm2(&x.vec) <= bound) { st.violation(&format!("C09:{}:zero-rhs:disagrees-with-direct", sv.name()), format!("A x = 0 has the solution 0, but Ok({}) left ||x|| = {:e} > ||A^-1||_F (tol + drift) = {:e} (true absolute residual {:e}); x={:?}; {}", it, norm2(&x.vec), bound, crate::mon::c08::true_resid(&d, &x.vec, &vec![0.0; n]), x.vec, desc())); }
                st.count(&format!("zero-rhs-converged:{}", sv.name()));
                if n >= 2 { let mut h = hash_str(sv.name()) ^ 0x5a; for t in sys.trip.iter().take(8) { h = hmix(h, t.2.to_bits()); } st.nontrivial(hmix(h, tol.to_bits())); }
            }
            Outcome::Ok(Err(e)) => {
                let mut fails = 0;
                for _ in 0..3 {
                    let mut xx = Vector::create(mk_guess(rng));
                    if !matches!(catch(|| sv.call(&a, &bv, &mut xx, iter_cap(n), tol)), Outcome::Ok(Ok(_))) { fails += 1; }
                }
                if fails >= 2 { st.violation(&format!("C09:{}:zero-rhs:no-convergence", sv.name()), format!("Err({:e}) within {} iterations and {} of 3 fresh guesses fail too; {}", e, iter_cap(n), fails, desc())); }
                else { st.count(&format!("isolated-breakdown:{}", sv.name())); }
            }
            o => st.violation(&format!("C09:{}:zero-rhs:panic", sv.name()), format!("{}; {}", o.describe(), desc())),
        }
    }
}

/// an initial guess that already solves the system, and (b=0, x0=0), are accepted as solved and x stays finite
fn degenerate_case(st: &mut Stats, rng: &mut Rng) {
    let n = rng.usize(1, 30);
    let symmetric = rng.bool();
    let mg = *rng.pick(&MARGINS); let sys = gen_dominant(rng, n, symmetric, mg, true);
    let d = sys.dense();
    let a = match catch(|| sys.sparse(rng)) { Outcome::Ok(a) => a, _ => return };
    let exact_guess = rng.bool();
    let (b, x0): (Vec<f64>, Vec<f64>) = if exact_guess {
        let xs: Vec<f64> = (0..n).map(|_| rng.int(-9, 9) as f64).collect();
        ((0..n).map(|i| (0..n).map(|j| d[i][j] * xs[j]).sum()).collect(), xs) // integer data: b = A*x0 exactly
    } else { (vec![0.0; n], vec![0.0; n]) };
    if exact_guess && b.iter().all(|v| *v == 0.0) { return; }
    let tol = rng.logpos(1e-12, 1e-3);
    let budget = *rng.pick(&[1usize, 5, iter_cap(n)]);
    let bv = Vector::create(b.clone());
    for sv in SOLVERS {
        if !applicable(sv, symmetric) { continue; }
        st.next_case();
        let kind = if exact_guess { "exact-guess" } else { "zero-rhs-zero-guess" };
        let desc = || format!("solver={} {} class={} n={} tol={:e} max_iter={} b={:?} x0={:?} triplets={:?}", sv.name(), kind, sys.class, n, tol, budget, b, x0, sys.trip);
        let mut x = Vector::create(x0.clone());
        let out = catch(|| sv.call(&a, &bv, &mut x, budget, tol));
        st.eval();
        match out {
            Outcome::Ok(res) => {
                if !fl::all_finite(&x.vec) { st.violation(&format!("C09:{}:{}:x-corrupted", sv.name(), kind), format!("returned {:?} and x = {:?}; {}", res, x.vec, desc())); continue; }
                if res.is_err() { st.violation(&format!("C09:{}:{}:not-accepted", sv.name(), kind), format!("returned {:?}, x = {:?}; {}", res, x.vec, desc())); continue; }
                let bn = norm2(&b); let bstar = if bn == 0.0 { 1.0 } else { bn };
                let tr = crate::mon::c08::true_resid(&d, &x.vec, &b) / bstar;
                if !(tr <= tol) { st.violation(&format!("C09:{}:{}:no-longer-a-solution", sv.name(), kind), format!("true residual {:e} > tol; x={:?}; {}", tr, x.vec, desc())); }
                if bits(&x.vec) == bits(&x0) { st.count("degenerate:x-untouched"); }
                st.count(&format!("degenerate:{}:{}", kind, sv.name()));
                if n >= 2 { st.nontrivial(hmix(hash_str(kind) ^ hash_str(sv.name()), sys.trip.iter().take(8).fold(n as u64, |h, t| hmix(h, t.2.to_bits())))); }
            }
            o => st.violation(&format!("C09:{}:{}:panic", sv.name(), kind), format!("{}; {}", o.describe(), desc())),
        }
    }
}

pub fn run(ctx: &Ctx) -> Report {
    let units = ctx.vol(30_000, 1_200_000);
    let stats = par_run(ctx, TAG, units, |_u, rng, st| { for _ in 0..3 { convergence_case(st, rng); } degenerate_case(st, rng); degenerate_case(st, rng); zero_rhs_case(st, rng); live_object_case(st, rng); });
    let mut rep = Report::new(stats,
        "certified well-posed systems of order 1..60: symmetric strictly diagonally dominant with positive diagonal (SPD; all five variants) and strictly row-dominant nonsymmetric with mixed-sign diagonal (BiCG both error measures, BiCGSTAB, QMR), dominance margins {0.02,0.1,0.5,2}, global matrix scales 1e+-3, 2^+-70, 2^+-100, rhs from a planted solution of scale 1, 1e3, 1e+-8, 1e-18, 1e+-30, 1e+-60, x0 zero/random/scaled, tol log-uniform 1e-12..1e-3 (QMR demanded for tol>=1e-8 only), budget 10n+100, shuffled triplets. Judged: Ok within the budget, finite x, agreement with Matrix::solve_basic within kappa_F*(tol+drift). Zero right-hand side with a non-zero guess (scales 1e-3..1e6, attainable tolerances only): Ok must leave ||x|| within ||A^-1||_F (tol + drift) of the solution 0. Live-object histories: one Sparse object solved, edited in place (insert over an existing entry, scale) and solved again, each solve judged for the system held at that moment. Right-hand sides moved into the top binade [2^1023,2^1024) or down to 2^-1000. Budget metamorphism: a run that converged in k iterations is repeated with max_iter = k and must answer Ok(k) with the same x. Degenerate starts on integer data: exact initial guess (b=A*x0 exactly) and zero rhs with zero guess must be accepted (Ok), x finite and still a solution. Non-trivial: n>=2 and a judged Ok/degenerate outcome; distinct = distinct (solver,entries,tol) hashes");
    rep.assumptions = vec![
        "iteration cap 10n+100 (measured worst 3.4*(n+10) over 1.5 M solves)".into(),
        "a convergence failure is reported only if at least 2 of 3 fresh right-hand sides on the same matrix fail too (isolated Lanczos breakdowns are logged, not flagged)".into(),
        "kappa_F from a harness complete-pivoting inverse".into(),
    ];
    rep.min_nontrivial = 500;
    rep
}
