//! C20 — stub (monitor not built yet)
use crate::run::{Ctx, Report, Stats};
pub fn run(_ctx: &Ctx) -> Report {
    let mut r = Report::new(Stats::default(), "not built");
    r.inconclusive.push("monitor-not-built".into());
    r
}
