//! C20 — mismatched shapes rejected; operands never mutated; clones independent.
use crate::json::J;
use crate::model::{vec_to_ohsl, DM};
use crate::mon::c03::{rand_dm, rand_vec, rval};
use crate::mon::common::*;
use crate::rat::Rat;
use crate::rng::Rng;
use crate::run::{catch, par_run, Ctx, Outcome, Report, Stats};
use ohsl::{Banded, Matrix, Mesh1D, Mesh2D, Polynomial, Sparse, Tridiagonal, Vector};

const TAG: u64 = 0xC20;
const MAXS: usize = 6;

type V = Vector<Rat>;
type M = Matrix<Rat>;

thread_local! {
    /// content mode of the table operands: 0 = random values, 1 = all entries zero (sparse: explicit zeros), 2 = nothing
    /// stored at all (sparse: empty entry list). A "nothing to do" fast path must not come before the size checks.
    static CONTENT: std::cell::Cell<u8> = std::cell::Cell::new(0);
}
fn content() -> u8 { CONTENT.with(|c| c.get()) }
fn rv(rng: &mut Rng, n: usize) -> V { let v = vec_to_ohsl(&rand_vec(rng, n)); if content() > 0 { V::new(n, Rat::ZERO) } else { v } }
fn rm(rng: &mut Rng, r: usize, c: usize) -> M { let m = rand_dm(rng, r, c).to_ohsl(); if content() > 0 { M::new(r, c, Rat::ZERO) } else { m } }
fn rband(rng: &mut Rng, n: usize, m1: usize, m2: usize) -> Banded<Rat> {
    let mut b = Banded::<Rat>::new(n, m1, m2, Rat::int(7));
    for i in 0..n { for j in 0..n { if j <= i + m2 && i <= j + m1 { b[(i, j)] = if content() > 0 { let _ = rng.int(1, 9); Rat::ZERO } else { Rat::int(rng.int(1, 9)) }; } } }
    b
}
fn rtri(rng: &mut Rng, n: usize) -> Tridiagonal<Rat> {
    let z = content() > 0;
    Tridiagonal::with_vecs((0..n - 1).map(|_| { let v = rval(rng); if z { Rat::ZERO } else { v } }).collect(), (0..n).map(|_| { let v = Rat::int(rng.int(1, 9)); if z { Rat::ZERO } else { v } }).collect(), (0..n - 1).map(|_| { let v = rval(rng); if z { Rat::ZERO } else { v } }).collect())
}
fn rsparse(rng: &mut Rng, r: usize, c: usize) -> Sparse<f64> {
    let mut t = vec![];
    for i in 0..r { for j in 0..c { if i == j || rng.chance(0.3) { t.push((i, j, 1.0 + rng.unit())); } } }
    match content() { 1 => { for e in t.iter_mut() { e.2 = 0.0; } } 2 => t.clear(), _ => {} }
    Sparse::<f64>::from_triplets(r, c, &mut t)
}

// ---------- snapshots (all observable state, read defensively) ----------
fn snap_m(m: &M) -> String { match catch(|| DM::from_ohsl(m).show()) { Outcome::Ok(s) => format!("{}|len{}", s, m.verif_storage_len()), _ => format!("unreadable {}x{} len{}", m.rows(), m.cols(), m.verif_storage_len()) } }
fn snap_b(b: &Banded<Rat>) -> String { format!("n{} m1{} m2{} {}", b.size(), b.size_below(), b.size_above(), snap_m(b.compact())) }
fn snap_t(t: &Tridiagonal<Rat>) -> String { format!("n{} {:?} {:?} {:?}", t.size(), t.subdiagonal().vec, t.maindiagonal().vec, t.superdiagonal().vec) }
fn snap_s(s: &Sparse<f64>) -> String { format!("{}x{} nz{} {:?} {:?} {:?}", s.rows, s.cols, s.nonzero, s.val.iter().map(|x| x.to_bits()).collect::<Vec<_>>(), s.row_index, s.col_start) }

/// the call must be rejected (any panic); a return value is a violation
fn must_panic<R>(st: &mut Stats, name: &str, detail: &dyn Fn() -> String, f: impl FnOnce() -> R) {
    st.eval();
    st.count(&format!("table:{}", name));
    match catch(f) {
        Outcome::Panic { msg, .. } => { st.count("rejections"); st.sample(|| format!("{} with {} -> rejected: panic '{}'", name, detail(), msg)); }
        Outcome::Overflow => st.count("skipped:rat-overflow"),
        _ => st.violation(&format!("C20:{}:accepted", name), format!("{} returned instead of panicking; {}", name, detail())),
    }
}
/// rejected AND the receiver is exactly as before
fn must_panic_mut<X, R>(st: &mut Stats, name: &str, detail: &dyn Fn() -> String, x: &mut X, snap: impl Fn(&X) -> String, f: impl FnOnce(&mut X) -> R) {
    let before = snap(x);
    st.eval();
    st.count(&format!("table:{}", name));
    match catch(|| f(x)) {
        Outcome::Panic { msg, .. } => { st.count("rejections"); st.sample(|| format!("{} with {} -> rejected: panic '{}', receiver unchanged: {}", name, detail(), msg, before)); let after = snap(x); if after != before { st.violation(&format!("C20:{}:mutated-before-panic", name), format!("{} panicked but left the receiver changed: before {} after {}; {}", name, before, after, detail())); } }
        Outcome::Overflow => st.count("skipped:rat-overflow"),
        _ => st.violation(&format!("C20:{}:accepted", name), format!("{} returned instead of panicking (receiver now {}); {}", name, snap(x), detail())),
    }
}

fn table_vector(st: &mut Stats, rng: &mut Rng) {
    for n in 0..=MAXS { for m in 0..=MAXS { if n == m { continue; }
        st.next_case();
        let (a, b) = (rv(rng, n), rv(rng, m));
        let d = || format!("sizes {} vs {}", n, m);
        must_panic(st, "Vector:add(&,&)", &d, || &a + &b);
        must_panic(st, "Vector:add(v,&)", &d, || a.clone() + &b);
        must_panic(st, "Vector:add(v,v)", &d, || a.clone() + b.clone());
        must_panic(st, "Vector:sub(&,&)", &d, || &a - &b);
        must_panic(st, "Vector:sub(v,&)", &d, || a.clone() - &b);
        must_panic(st, "Vector:sub(v,v)", &d, || a.clone() - b.clone());
        must_panic(st, "Vector:dot", &d, || a.dot(&b));
        let mut x = a.clone(); must_panic_mut(st, "Vector:add_assign", &d, &mut x, |v| format!("{:?}", v.vec), |v| *v += b.clone());
        let mut x = a.clone(); must_panic_mut(st, "Vector:sub_assign", &d, &mut x, |v| format!("{:?}", v.vec), |v| *v -= b.clone());
        let (af, bf) = (Vector::<f64>::new(n, 1.5), Vector::<f64>::new(m, 2.0));
        must_panic(st, "Vector:dot_f64", &d, || af.dot_f64(&bf));
        st.nontrivial(hmix(hash_str("vec"), (n * 10 + m) as u64));
    } }
    for n in 0..=MAXS {
        let a = rv(rng, n);
        for s in 0..=n + 2 { for e in 0..=n + 2 { if s > e || s >= n || e >= n {
            st.next_case();
            let d = || format!("size {} range ({},{})", n, s, e);
            must_panic(st, "Vector:sum_slice", &d, || a.sum_slice(s, e));
            must_panic(st, "Vector:product_slice", &d, || a.product_slice(s, e));
        } } }
        for i in n..=n + 2 {
            let d = || format!("size {} index {}", n, i);
            must_panic(st, "Vector:index", &d, || a[i]);
            let mut x = a.clone(); must_panic_mut(st, "Vector:index_mut", &d, &mut x, |v| format!("{:?}", v.vec), |v| v[i] = Rat::ONE);
            let mut x = a.clone(); must_panic_mut(st, "Vector:swap", &d, &mut x, |v| format!("{:?}", v.vec), |v| v.swap(0, i));
            if i > n { let mut x = a.clone(); must_panic_mut(st, "Vector:insert", &d, &mut x, |v| format!("{:?}", v.vec), |v| v.insert(i, Rat::ONE)); }
        }
    }
    let mut e = V::empty();
    must_panic_mut(st, "Vector:pop-empty", &|| "empty".into(), &mut e, |v| format!("{:?}", v.vec), |v| v.pop());
}

fn table_matrix(st: &mut Stats, rng: &mut Rng, r: usize, c: usize) {
    let a = rm(rng, r, c);
    let sm = |m: &M| snap_m(m);
    for r2 in 0..=4usize { for c2 in 0..=4usize {
        st.next_case();
        let b = rm(rng, r2, c2);
        let d = || format!("{}x{} vs {}x{}", r, c, r2, c2);
        if (r, c) != (r2, c2) {
            must_panic(st, "Matrix:add(&,&)", &d, || &a + &b);
            must_panic(st, "Matrix:add(m,m)", &d, || a.clone() + b.clone());
            must_panic(st, "Matrix:sub(&,&)", &d, || &a - &b);
            must_panic(st, "Matrix:sub(m,m)", &d, || a.clone() - b.clone());
            let mut x = a.clone(); must_panic_mut(st, "Matrix:add_assign(&)", &d, &mut x, sm, |m| *m += &b);
            let mut x = a.clone(); must_panic_mut(st, "Matrix:add_assign(m)", &d, &mut x, sm, |m| *m += b.clone());
            let mut x = a.clone(); must_panic_mut(st, "Matrix:sub_assign(&)", &d, &mut x, sm, |m| *m -= &b);
            let mut x = a.clone(); must_panic_mut(st, "Matrix:sub_assign(m)", &d, &mut x, sm, |m| *m -= b.clone());
        }
        if c != r2 {
            must_panic(st, "Matrix:mul(&,&)", &d, || &a * &b);
            must_panic(st, "Matrix:mul(m,m)", &d, || a.clone() * b.clone());
        }
    } }
    for n in 0..=MAXS {
        let v = rv(rng, n);
        let d = || format!("{}x{} with vector of size {}", r, c, n);
        if n != c {
            must_panic(st, "Matrix:multiply", &d, || a.multiply(&v));
            must_panic(st, "Matrix:mul(&,&v)", &d, || &a * &v);
            must_panic(st, "Matrix:mul(m,v)", &d, || a.clone() * v.clone());
            for row in 0..r { let mut x = a.clone(); must_panic_mut(st, "Matrix:set_row(size)", &|| format!("{} row {}", d(), row), &mut x, sm, |m| m.set_row(row, v.clone())); }
        }
        if n != r { for col in 0..c { let mut x = a.clone(); must_panic_mut(st, "Matrix:set_col(size)", &|| format!("{} col {}", d(), col), &mut x, sm, |m| m.set_col(col, v.clone())); } }
        if n != r || r != c {
            let mut x = a.clone(); must_panic_mut(st, "Matrix:solve_basic", &d, &mut x, sm, |m| m.solve_basic(&v));
            let mut x = a.clone(); must_panic_mut(st, "Matrix:solve_lu", &d, &mut x, sm, |m| m.solve_lu(&v));
        }
    }
    if r != c {
        let d = || format!("non-square {}x{}", r, c);
        let mut x = a.clone(); must_panic_mut(st, "Matrix:lu_decomp_in_place", &d, &mut x, sm, |m| m.lu_decomp_in_place());
        must_panic(st, "Matrix:inverse", &d, || a.inverse());
        if r > 0 && c > 0 { must_panic(st, "Matrix:determinant", &d, || a.determinant()); }
    }
    for i in r..=r + 2 {
        let d = || format!("{}x{} row {}", r, c, i);
        must_panic(st, "Matrix:get_row", &d, || a.get_row(i));
        let mut x = a.clone(); must_panic_mut(st, "Matrix:set_row(range)", &d, &mut x, sm, |m| m.set_row(i, rv(&mut Rng::new(1), c)));
        let mut x = a.clone(); must_panic_mut(st, "Matrix:delete_row", &d, &mut x, sm, |m| m.delete_row(i));
        let mut x = a.clone(); must_panic_mut(st, "Matrix:fill_row", &d, &mut x, sm, |m| m.fill_row(i, Rat::ONE));
        for k in 0..=r { let mut x = a.clone(); must_panic_mut(st, "Matrix:swap_rows", &|| format!("{} with {}", d(), k), &mut x, sm, |m| if k % 2 == 0 { m.swap_rows(i, k) } else { m.swap_rows(k, i) }); }
    }
    for j in c..=c + 2 {
        let d = || format!("{}x{} col {}", r, c, j);
        must_panic(st, "Matrix:get_col", &d, || a.get_col(j));
        let mut x = a.clone(); must_panic_mut(st, "Matrix:set_col(range)", &d, &mut x, sm, |m| m.set_col(j, rv(&mut Rng::new(2), r)));
        let mut x = a.clone(); must_panic_mut(st, "Matrix:fill_col", &d, &mut x, sm, |m| m.fill_col(j, Rat::ONE));
    }
    st.nontrivial(hmix(hash_str("mat"), (r * 10 + c) as u64));
}

fn table_banded(st: &mut Stats, rng: &mut Rng) {
    let shapes: Vec<(usize, usize, usize)> = vec![(1, 0, 0), (2, 0, 1), (2, 1, 0), (3, 1, 1), (3, 2, 0), (4, 1, 2), (5, 2, 2), (6, 1, 1)];
    for &(n, m1, m2) in &shapes {
        let a = rband(rng, n, m1, m2);
        for &(n2, p1, p2) in &shapes { if (n, m1, m2) == (n2, p1, p2) { continue; }
            st.next_case();
            let b = rband(rng, n2, p1, p2);
            let d = || format!("banded ({},{},{}) vs ({},{},{})", n, m1, m2, n2, p1, p2);
            must_panic(st, "Banded:add(&,&)", &d, || &a + &b);
            must_panic(st, "Banded:add(b,b)", &d, || a.clone() + b.clone());
            must_panic(st, "Banded:sub(&,&)", &d, || &a - &b);
            must_panic(st, "Banded:sub(b,b)", &d, || a.clone() - b.clone());
            let mut x = a.clone(); must_panic_mut(st, "Banded:add_assign(&)", &d, &mut x, snap_b, |m| *m += &b);
            let mut x = a.clone(); must_panic_mut(st, "Banded:add_assign(b)", &d, &mut x, snap_b, |m| *m += b.clone());
            let mut x = a.clone(); must_panic_mut(st, "Banded:sub_assign(&)", &d, &mut x, snap_b, |m| *m -= &b);
            let mut x = a.clone(); must_panic_mut(st, "Banded:sub_assign(b)", &d, &mut x, snap_b, |m| *m -= b.clone());
        }
        for k in 0..=MAXS { if k == n { continue; }
            let v = rv(rng, k);
            let d = || format!("banded ({},{},{}) with vector of size {}", n, m1, m2, k);
            must_panic(st, "Banded:mul(&,&v)", &d, || &a * &v);
            must_panic(st, "Banded:mul(b,v)", &d, || a.clone() * v.clone());
            must_panic(st, "Banded:solve", &d, || a.solve(&v));
        }
        for band in -(m1 as isize) - 2..=(m2 as isize) + 2 { if band < -(m1 as isize) || band > m2 as isize {
            let mut x = a.clone(); must_panic_mut(st, "Banded:fill_band", &|| format!("banded ({},{},{}) band {}", n, m1, m2, band), &mut x, snap_b, |m| m.fill_band(band, Rat::ONE));
        } }
        for i in 0..n { for j in 0..n { if j > i + m2 || i > j + m1 {
            let d = || format!("banded ({},{},{}) position ({},{}) outside the band", n, m1, m2, i, j);
            must_panic(st, "Banded:index(out-of-band)", &d, || a[(i, j)]);
            let mut x = a.clone(); must_panic_mut(st, "Banded:index_mut(out-of-band)", &d, &mut x, snap_b, |m| m[(i, j)] = Rat::ONE);
        } } }
        st.nontrivial(hmix(hash_str("band"), (n * 100 + m1 * 10 + m2) as u64));
    }
}

fn table_tridiagonal(st: &mut Stats, rng: &mut Rng) {
    for n in 1..=MAXS {
        let a = rtri(rng, n);
        for m in 1..=MAXS { if m == n { continue; }
            st.next_case();
            let b = rtri(rng, m);
            let d = || format!("tridiagonal {} vs {}", n, m);
            must_panic(st, "Tridiagonal:add", &d, || a.clone() + b.clone());
            must_panic(st, "Tridiagonal:sub", &d, || a.clone() - b.clone());
        }
        for k in 0..=MAXS { if k == n { continue; }
            let v = rv(rng, k);
            let d = || format!("tridiagonal {} with vector of size {}", n, k);
            must_panic(st, "Tridiagonal:mul(&,&v)", &d, || &a * &v);
            must_panic(st, "Tridiagonal:mul(t,v)", &d, || a.clone() * v.clone());
            must_panic(st, "Tridiagonal:solve", &d, || a.solve(&v));
        }
        for i in 0..n + 2 { for j in 0..n + 2 { if i >= n || j >= n || (i as isize - j as isize).abs() > 1 {
            let d = || format!("tridiagonal {} position ({},{})", n, i, j);
            must_panic(st, "Tridiagonal:index", &d, || a[(i, j)]);
            let mut x = a.clone(); must_panic_mut(st, "Tridiagonal:index_mut", &d, &mut x, snap_t, |t| t[(i, j)] = Rat::ONE);
        } } }
        // constructors with inconsistent diagonal lengths
        for ls in 0..=n + 1 { for lu in 0..=n + 1 { if ls != n - 1 || lu != n - 1 {
            let d = || format!("main {} sub {} sup {}", n, ls, lu);
            must_panic(st, "Tridiagonal:with_vecs", &d, || Tridiagonal::with_vecs(vec![Rat::ONE; ls], vec![Rat::ONE; n], vec![Rat::ONE; lu]));
            must_panic(st, "Tridiagonal:with_vectors", &d, || Tridiagonal::with_vectors(V::new(ls, Rat::ONE), V::new(n, Rat::ONE), V::new(lu, Rat::ONE)));
        } } }
        st.nontrivial(hmix(hash_str("tri"), n as u64));
    }
}

/// dot_f64 chooses its worker count from the CPUs the calling thread may use: the size check must hold for every count,
/// the single-CPU case included
fn table_dot_affinity(st: &mut Stats) {
    let cpus = crate::mon::c16::allowed_cpus();
    if cpus.is_empty() { st.count("skipped:affinity-unavailable"); return; }
    for k in [1usize, 2, 3, cpus.len()] {
        if k > cpus.len() { continue; }
        if !crate::mon::c16::pin_to(&cpus[..k]) { st.count("skipped:affinity-not-effective"); continue; }
        st.next_case();
        for n1 in 0..=MAXS { for n2 in 0..=MAXS { if n1 != n2 {
            let (a, b) = (Vector::<f64>::new(n1, 1.5), Vector::<f64>::new(n2, 2.0));
            must_panic(st, "Vector:dot_f64", &|| format!("sizes {} and {} with {} usable CPU(s)", n1, n2, k), || a.dot_f64(&b));
        } } }
        st.count(&format!("dot_f64-mismatch-table:cpus-{}", k));
    }
    let _ = crate::mon::c16::pin_to(&cpus);
}

fn table_sparse(st: &mut Stats, rng: &mut Rng) {
    for r in 1..=4usize { for c in 1..=4usize {
        st.next_case();
        let s = rsparse(rng, r, c);
        let d = || format!("sparse {}x{}", r, c);
        for k in 0..=MAXS {
            let v = Vector::<f64>::new(k, 1.0);
            if k != c { must_panic(st, "Sparse:multiply", &|| format!("{} vector {}", d(), k), || s.multiply(&v)); }
            if k != r { must_panic(st, "Sparse:transpose_multiply", &|| format!("{} vector {}", d(), k), || s.transpose_multiply(&v)); }
        }
        for i in r..=r + 2 { must_panic(st, "Sparse:get(row)", &|| format!("{} row {}", d(), i), || s.get(i, 0)); }
        for j in c..=c + 2 { must_panic(st, "Sparse:get(col)", &|| format!("{} col {}", d(), j), || s.get(0, j)); }
        for (i, j) in [(r, 0), (r + 1, c - 1), (0, c), (r - 1, c + 2), (r, c)] {
            let mut x = rsparse(rng, r, c);
            must_panic_mut(st, "Sparse:insert", &|| format!("{} at ({},{})", d(), i, j), &mut x, snap_s, |m| m.insert(i, j, 2.5));
            must_panic(st, "Sparse:from_triplets", &|| format!("{} triplet ({},{})", d(), i, j), || Sparse::<f64>::from_triplets(r, c, &mut vec![(0, 0, 1.0), (i, j, 2.0)]));
        }
        // solver entry points: non-square, or b / x of the wrong size; x must stay untouched
        for kb in 0..=5usize { for kx in 0..=5usize {
            if r == c && kb == r && kx == r { continue; }
            // the rejection must not depend on the OTHER arguments: iteration budget 10 or 0, right-hand side and guess
            // non-zero or zero (a zero residual, or no iteration at all, must not let a mis-shaped system through)
            for (mi, bval, xval) in [(10usize, 1.0f64, 0.25f64), (0, 1.0, 0.25), (10, 0.0, 0.0), (0, 0.0, 0.0), (3, 0.0, 0.25)] {
                let b = Vector::<f64>::new(kb, bval);
                let dd = || format!("{} b {} x {} (max_iter {}, b entries {}, x entries {})", d(), kb, kx, mi, bval, xval);
                let sx = |v: &Vector<f64>| format!("{:?}", v.vec.iter().map(|x| x.to_bits()).collect::<Vec<_>>());
                let mut x = Vector::<f64>::new(kx, xval); must_panic_mut(st, "Sparse:solve_cg", &dd, &mut x, sx, |x| s.solve_cg(&b, x, mi, 1e-8));
                let mut x = Vector::<f64>::new(kx, xval); must_panic_mut(st, "Sparse:solve_bicg", &dd, &mut x, sx, |x| s.solve_bicg(&b, x, mi, 1e-8, 1));
                let mut x = Vector::<f64>::new(kx, xval); must_panic_mut(st, "Sparse:solve_bicgstab", &dd, &mut x, sx, |x| s.solve_bicgstab(&b, x, mi, 1e-8));
                let mut x = Vector::<f64>::new(kx, xval); must_panic_mut(st, "Sparse:solve_qmr", &dd, &mut x, sx, |x| s.solve_qmr(&b, x, mi, 1e-8));
            }
        } }
        if r == c { for itol in [0usize, 3, 7] { let b = Vector::<f64>::new(r, 1.0); let mut x = Vector::<f64>::new(r, 0.25); must_panic_mut(st, "Sparse:solve_bicg(itol)", &|| format!("{} itol {}", d(), itol), &mut x, |v| format!("{:?}", v.vec), |x| s.solve_bicg(&b, x, 10, 1e-8, itol)); } }
        st.nontrivial(hmix(hash_str("sparse"), (r * 10 + c) as u64));
    } }
}

fn table_mesh_poly(st: &mut Stats, rng: &mut Rng) {
    for n in 2..=5usize { for nv in 1..=3usize {
        st.next_case();
        let nodes = Vector::<f64>::linspace(0.0, 1.0, n);
        let mut m1 = Mesh1D::<Rat, f64>::new(nodes.clone(), nv);
        for i in 0..n { m1.set_nodes_vars(i, rv(rng, nv)); }
        let s1 = |m: &Mesh1D<Rat, f64>| format!("{:?}", (0..m.nnodes()).map(|i| m.get_nodes_vars(i).vec).collect::<Vec<_>>());
        for i in n..=n + 2 {
            let d = || format!("Mesh1D nodes {} vars {} node {}", n, nv, i);
            must_panic(st, "Mesh1D:get_nodes_vars", &d, || m1.get_nodes_vars(i));
            must_panic(st, "Mesh1D:coord", &d, || m1.coord(i));
            must_panic(st, "Mesh1D:index", &d, || m1[i].clone());
            must_panic_mut(st, "Mesh1D:set_nodes_vars(node)", &d, &mut m1, s1, |m| m.set_nodes_vars(i, V::new(nv, Rat::ONE)));
        }
        for k in 0..=nv + 2 { if k != nv { must_panic_mut(st, "Mesh1D:set_nodes_vars(size)", &|| format!("Mesh1D vars {} vector {}", nv, k), &mut m1, s1, |m| m.set_nodes_vars(0, V::new(k, Rat::ONE))); } }
        let ny = (n % 3) + 2;
        let mut m2 = Mesh2D::<Rat>::new(nodes.clone(), Vector::<f64>::linspace(0.0, 2.0, ny), nv);
        for i in 0..n { for j in 0..ny { m2.set_nodes_vars(i, j, rv(rng, nv)); } }
        let s2 = move |m: &Mesh2D<Rat>| format!("{:?}", (0..n).flat_map(|i| (0..ny).map(move |j| (i, j))).map(|(i, j)| m.get_nodes_vars(i, j).vec).collect::<Vec<_>>());
        for (i, j) in [(n, 0), (n + 1, ny - 1), (0, ny), (n - 1, ny + 2), (n, ny)] {
            let d = || format!("Mesh2D {}x{} vars {} node ({},{})", n, ny, nv, i, j);
            must_panic(st, "Mesh2D:get_nodes_vars", &d, || m2.get_nodes_vars(i, j));
            must_panic_mut(st, "Mesh2D:set_nodes_vars(node)", &d, &mut m2, s2, |m| m.set_nodes_vars(i, j, V::new(nv, Rat::ONE)));
        }
        for i in n..=n + 1 { must_panic(st, "Mesh2D:cross_section_xnode", &|| format!("Mesh2D nx {} node {}", n, i), || m2.cross_section_xnode(i).nnodes()); must_panic(st, "Mesh2D:coord(x)", &|| format!("nx {} node {}", n, i), || m2.coord(i, 0)); }
        for j in ny..=ny + 1 { must_panic(st, "Mesh2D:cross_section_ynode", &|| format!("Mesh2D ny {} node {}", ny, j), || m2.cross_section_ynode(j).nnodes()); must_panic(st, "Mesh2D:coord(y)", &|| format!("ny {} node {}", ny, j), || m2.coord(0, j)); }
        for v in nv..=nv + 2 {
            let d = || format!("Mesh2D vars {} var {}", nv, v);
            must_panic(st, "Mesh2D:var_as_matrix", &d, || m2.var_as_matrix(v));
            must_panic_mut(st, "Mesh2D:apply(var)", &d, &mut m2, s2, |m| m.apply(&|_x, _y| Rat::ONE, v));
        }
        for k in 0..=nv + 2 { if k != nv { must_panic_mut(st, "Mesh2D:set_nodes_vars(size)", &|| format!("Mesh2D vars {} vector {}", nv, k), &mut m2, s2, |m| m.set_nodes_vars(0, 0, V::new(k, Rat::ONE))); } }
        let mf = Mesh2D::<f64>::new(nodes.clone(), Vector::<f64>::linspace(0.0, 2.0, ny), nv);
        let mf1 = Mesh1D::<f64, f64>::new(nodes.clone(), nv);
        for v in nv..=nv + 2 { must_panic(st, "Mesh2D:trapezium(var)", &|| format!("vars {} var {}", nv, v), || mf.trapezium(v)); must_panic(st, "Mesh2D:square_trapezium(var)", &|| format!("vars {} var {}", nv, v), || mf.square_trapezium(v)); must_panic(st, "Mesh1D:trapezium(var)", &|| format!("vars {} var {}", nv, v), || mf1.trapezium(v)); }
        st.nontrivial(hmix(hash_str("mesh"), (n * 10 + nv) as u64));
    } }
    for n in 0..=MAXS {
        st.next_case();
        let c = rand_vec(rng, n);
        let p = Polynomial::new(c.clone());
        for i in n..=n + 2 {
            let d = || format!("polynomial of size {} index {}", n, i);
            must_panic(st, "Polynomial:index", &d, || p[i]);
            let mut x = p.clone(); must_panic_mut(st, "Polynomial:index_mut", &d, &mut x, |q| format!("{:?}", (0..q.size()).map(|k| q[k]).collect::<Vec<_>>()), |q| q[i] = Rat::ONE);
        }
        st.nontrivial(hmix(hash_str("poly"), n as u64));
    }
}

// ---------- non-mutation of operands, owned == borrowed, with hostile bit patterns ----------
/// Histories: the range that counts is the CURRENT one. Objects are first shrunk through their own API (pop / resize /
/// clear, delete_row / resize / transpose_in_place, coeffs().pop / trim, Mesh1D::read of a shorter file) and then every
/// checked accessor is called with arguments that were valid before the shrink and are out of range now.
fn table_after_shrink(st: &mut Stats, rng: &mut Rng, workdir: &str, seed: u64) {
    // Vector
    for n in 1..=MAXS { for how in 0..4usize {
        st.next_case();
        let mut v = rv(rng, n);
        let newn = match how { 0 => { let _ = v.pop(); n - 1 } 1 => { let k = rng.usize(0, n - 1); v.resize(k); k } 2 => { v.clear(); 0 } _ => { let _ = v.pop(); if n >= 2 { let _ = v.pop(); n - 2 } else { n - 1 } } };
        if v.size() != newn { st.violation("C20:Vector:after-shrink:size", format!("size {} after shrinking a vector of {} (op {}), expected {}", v.size(), n, how, newn)); continue; }
        let sv = |x: &V| format!("{:?}", x.vec);
        for i in newn..=n {
            let d = || format!("Vector of size {} shrunk to {} (op {}), index {}", n, newn, how, i);
            must_panic(st, "Vector:index:after-shrink", &d, || v[i]);
            must_panic_mut(st, "Vector:index_mut:after-shrink", &d, &mut v, sv, |x| x[i] = Rat::ONE);
            must_panic_mut(st, "Vector:swap:after-shrink", &d, &mut v, sv, |x| x.swap(0, i));
            if i > newn { must_panic_mut(st, "Vector:insert:after-shrink", &d, &mut v, sv, |x| x.insert(i, Rat::ONE)); }
            if i > newn { must_panic(st, "Vector:sum_slice:after-shrink", &d, || v.sum_slice(0, i)); }
        }
        let w = rv(rng, n);
        if n != newn { must_panic(st, "Vector:dot:after-shrink", &|| format!("shrunk {} -> {} against {}", n, newn, n), || v.dot(&w)); must_panic(st, "Vector:add(&,&):after-shrink", &|| format!("shrunk {} -> {} against {}", n, newn, n), || &v + &w); }
        st.nontrivial(hmix(hash_str("shrink-vector"), (n * 10 + how) as u64));
    } }
    // Matrix
    for r in 1..=4usize { for c in 1..=4usize { for how in 0..4usize {
        st.next_case();
        let mut a = rm(rng, r, c);
        match how {
            0 => { let k = rng.usize(0, r - 1); a.delete_row(k); }
            1 => { let (r2, c2) = (rng.usize(0, r), rng.usize(0, c)); a.resize(r2, c2); }
            2 => a.transpose_in_place(),
            _ => a.clear(),
        }
        let (nr, nc) = (a.rows(), a.cols());
        let sm = |m: &M| snap_m(m);
        let d = |what: &str, i: usize| format!("Matrix {}x{} turned into {}x{} (op {}), {} {}", r, c, nr, nc, how, what, i);
        for i in nr..=r.max(nr) + 1 {
            must_panic(st, "Matrix:get_row:after-shrink", &|| d("row", i), || a.get_row(i));
            must_panic_mut(st, "Matrix:set_row(range):after-shrink", &|| d("row", i), &mut a, sm, |m| m.set_row(i, V::new(nc, Rat::ONE)));
            must_panic_mut(st, "Matrix:fill_row:after-shrink", &|| d("row", i), &mut a, sm, |m| m.fill_row(i, Rat::ONE));
            must_panic_mut(st, "Matrix:delete_row:after-shrink", &|| d("row", i), &mut a, sm, |m| m.delete_row(i));
            must_panic_mut(st, "Matrix:swap_rows:after-shrink", &|| d("row", i), &mut a, sm, |m| m.swap_rows(0, i));
        }
        for j in nc..=c.max(nc) + 1 {
            must_panic(st, "Matrix:get_col:after-shrink", &|| d("col", j), || a.get_col(j));
            must_panic_mut(st, "Matrix:set_col(range):after-shrink", &|| d("col", j), &mut a, sm, |m| m.set_col(j, V::new(nr, Rat::ONE)));
            must_panic_mut(st, "Matrix:fill_col:after-shrink", &|| d("col", j), &mut a, sm, |m| m.fill_col(j, Rat::ONE));
        }
        if nc != c { let x = rv(rng, c); must_panic(st, "Matrix:multiply:after-shrink", &|| d("vector of the old column count", c), || a.multiply(&x)); }
        if nr != r { must_panic_mut(st, "Matrix:set_col(size):after-shrink", &|| d("column vector of the old row count", r), &mut a, sm, |m| m.set_col(0, V::new(r, Rat::ONE))); }
        if (nr, nc) != (r, c) { let b = rm(rng, r, c); must_panic(st, "Matrix:add(&,&):after-shrink", &|| d("against the old shape", 0), || &a + &b); }
        st.nontrivial(hmix(hash_str("shrink-matrix"), (r * 100 + c * 10 + how) as u64));
    } } }
    // Polynomial
    for n in 1..=MAXS { for how in 0..2usize {
        st.next_case();
        let mut c = rand_vec(rng, n);
        if how == 1 { let k = rng.usize(1, n); for i in n - k..n { c[i] = Rat::ZERO; } }
        let mut p = Polynomial::new(c.clone());
        if how == 0 { let _ = p.coeffs().pop(); } else { p.trim(); }
        let newn = p.size();
        if newn >= n { continue; }
        for i in newn..=n {
            let d = || format!("Polynomial of size {} shrunk to {} (op {}), index {}", n, newn, how, i);
            must_panic(st, "Polynomial:index:after-shrink", &d, || p[i]);
            must_panic_mut(st, "Polynomial:index_mut:after-shrink", &d, &mut p, |q: &Polynomial<Rat>| format!("{:?}", q.clone().coeffs()), |q| q[i] = Rat::ONE);
        }
        st.nontrivial(hmix(hash_str("shrink-poly"), (n * 10 + how) as u64));
    } }
    // Mesh1D: read a shorter file into a longer live mesh
    for nold in 3..=7usize { for nnew in 2..nold { for nv in 1..=2usize {
        let case = st.next_case();
        let fname = format!("{}/c20_p{}_s{}_u{}_c{}.dat", workdir, std::process::id(), seed, st.unit, case);
        let mut small = Mesh1D::<f64, f64>::new(Vector::<f64>::linspace(0.0, 1.0, nnew), nv);
        for i in 0..nnew { for v in 0..nv { small[i][v] = (i * 3 + v) as f64; } }
        let mut big = Mesh1D::<f64, f64>::new(Vector::<f64>::linspace(-2.0, 5.0, nold), nv);
        for i in 0..nold { for v in 0..nv { big[i][v] = 1000.0 + (i * 3 + v) as f64; } }
        let io = catch(|| { small.output(&fname, 6); big.read(&fname); });
        let _ = std::fs::remove_file(&fname);
        if !io.is_ok() || big.nnodes() != nnew { st.count("skipped:mesh-file-io-unavailable"); continue; }
        let s1 = |m: &Mesh1D<f64, f64>| format!("{:?}", (0..m.nnodes()).map(|i| bits(&m.get_nodes_vars(i).vec)).collect::<Vec<_>>());
        for i in nnew..=nold + 1 {
            let d = || format!("Mesh1D with {} nodes after read() of a {}-node file, vars {}, node {}", nold, nnew, nv, i);
            must_panic(st, "Mesh1D:index:after-shrink", &d, || big[i].clone());
            must_panic_mut(st, "Mesh1D:index_mut:after-shrink", &d, &mut big, s1, |m| m[i][0] = 5.0);
            must_panic(st, "Mesh1D:get_nodes_vars:after-shrink", &d, || big.get_nodes_vars(i));
            must_panic(st, "Mesh1D:coord:after-shrink", &d, || big.coord(i));
            must_panic_mut(st, "Mesh1D:set_nodes_vars(node):after-shrink", &d, &mut big, s1, |m| m.set_nodes_vars(i, Vector::new(nv, 1.0)));
        }
        st.nontrivial(hmix(hash_str("shrink-mesh"), (nold * 100 + nnew * 10 + nv) as u64));
    } } }
}

fn hostile(rng: &mut Rng) -> f64 {
    match rng.below(8) {
        0 => -0.0, 1 => f64::from_bits(1 + rng.below(1000)), 2 => f64::from_bits(0x7ff8_0000_0000_0000 | rng.below(1 << 20)), 3 => f64::from_bits(0xfff8_0000_0000_0001),
        4 => 0.0, _ => rng.sym() * 4.0,
    }
}
fn bits(v: &[f64]) -> Vec<u64> { v.iter().map(|x| x.to_bits()).collect() }
fn mbits(m: &Matrix<f64>) -> Vec<u64> { let mut o = vec![m.rows() as u64, m.cols() as u64]; for i in 0..m.rows() { for j in 0..m.cols() { o.push(m[(i, j)].to_bits()); } } o }

fn non_mutation(st: &mut Stats, rng: &mut Rng) {
    st.next_case();
    let n = rng.usize(1, 6);
    let nan_ok = rng.chance(0.5);
    let mut g = |rng: &mut Rng| { let x = hostile(rng); if !nan_ok && x.is_nan() { 1.25 } else { x } };
    let (a, b): (Vec<f64>, Vec<f64>) = ((0..n).map(|_| g(rng)).collect(), (0..n).map(|_| g(rng)).collect());
    let (va, vb) = (Vector::create(a.clone()), Vector::create(b.clone()));
    let d = || format!("a={:x?} b={:x?}", bits(&a), bits(&b));
    macro_rules! same_vec { ($name:expr, $x:expr, $y:expr) => {{ st.eval(); match (catch(|| $x), catch(|| $y)) { (Outcome::Ok(p), Outcome::Ok(q)) => if bits(&p.vec) != bits(&q.vec) { st.violation(&format!("C20:{}:owned-differs-from-borrowed", $name), d()); }, (Outcome::Panic{..}, Outcome::Panic{..}) => {}, _ => st.violation(&format!("C20:{}:owned-differs-from-borrowed", $name), format!("one form panicked; {}", d())) } }}; }
    same_vec!("Vector:add", &va + &vb, va.clone() + vb.clone());
    same_vec!("Vector:add(v,&)", &va + &vb, va.clone() + &vb);
    same_vec!("Vector:sub", &va - &vb, va.clone() - vb.clone());
    let _ = catch(|| (va.dot(&vb), va.sum_slice(0, n - 1), va.product_slice(0, n - 1), va.abs(), va.norm_1(), va.norm_2(), va.norm_p(3.0), va.norm_inf(), va.clone(), va.size()));
    if rng.chance(0.03) { let _ = catch(|| va.dot_f64(&vb)); } // thread creation is expensive in this VM
    st.eval();
    if bits(&va.vec) != bits(&a) || bits(&vb.vec) != bits(&b) { st.violation("C20:Vector:operand-mutated", d()); }
    // matrices
    let (r, c) = (rng.usize(1, 4), rng.usize(1, 4));
    let mk = |rng: &mut Rng, r: usize, c: usize, g: &mut dyn FnMut(&mut Rng) -> f64| { let mut m = Matrix::<f64>::new(r, c, 0.0); for i in 0..r { for j in 0..c { m[(i, j)] = g(rng); } } m };
    let ma = mk(rng, r, c, &mut g); let mb = mk(rng, r, c, &mut g); let mc = mk(rng, c, r, &mut g);
    let (sa, sb, sc) = (mbits(&ma), mbits(&mb), mbits(&mc));
    let vx = Vector::create((0..c).map(|_| g(rng)).collect::<Vec<f64>>()); let sx = bits(&vx.vec);
    macro_rules! same_mat { ($name:expr, $x:expr, $y:expr) => {{ st.eval(); match (catch(|| $x), catch(|| $y)) { (Outcome::Ok(p), Outcome::Ok(q)) => if mbits(&p) != mbits(&q) { st.violation(&format!("C20:{}:owned-differs-from-borrowed", $name), format!("A={:x?} B={:x?}", sa, sb)); }, (Outcome::Panic{..}, Outcome::Panic{..}) => {}, _ => st.violation(&format!("C20:{}:owned-differs-from-borrowed", $name), "one form panicked".to_string()) } }}; }
    same_mat!("Matrix:neg", -&ma, -ma.clone());
    same_mat!("Matrix:add", &ma + &mb, ma.clone() + mb.clone());
    same_mat!("Matrix:sub", &ma - &mb, ma.clone() - mb.clone());
    same_mat!("Matrix:mul-scalar", &ma * 1.5, ma.clone() * 1.5);
    same_mat!("Matrix:div-scalar", &ma / 1.5, ma.clone() / 1.5);
    same_mat!("Matrix:mul", &ma * &mc, ma.clone() * mc.clone());
    st.eval();
    if let (Outcome::Ok(p), Outcome::Ok(q)) = (catch(|| &ma * &vx), catch(|| ma.clone() * vx.clone())) { if bits(&p.vec) != bits(&q.vec) { st.violation("C20:Matrix:mul-vector:owned-differs-from-borrowed", format!("A={:x?}", sa)); } }
    let _ = catch(|| (ma.multiply(&vx), ma.get_row(0), ma.get_col(0), ma.transpose(), ma.norm_1(), ma.norm_inf(), ma.norm_p(2.5), ma.norm_frob(), ma.norm_max(), ma.rows(), ma.numel()));
    if r == c { let _ = catch(|| ma.determinant()); let _ = catch(|| ma.inverse()); }
    st.eval();
    if mbits(&ma) != sa || mbits(&mb) != sb || mbits(&mc) != sc || bits(&vx.vec) != sx { st.violation("C20:Matrix:operand-mutated", format!("A={:x?}", sa)); }
    // banded / tridiagonal / sparse / polynomial on finite data
    let nb = rng.usize(1, 5); let (m1, m2) = (rng.usize(0, nb - 1), rng.usize(0, nb - 1));
    let mut bd = Banded::<f64>::new(nb, m1, m2, -0.0);
    for i in 0..nb { for j in 0..nb { if j <= i + m2 && i <= j + m1 { bd[(i, j)] = if i == j { 4.0 + rng.unit() } else { rng.sym() }; } } }
    let sbd = mbits(bd.compact()); let vb2 = Vector::create((0..nb).map(|_| rng.sym()).collect::<Vec<f64>>()); let svb2 = bits(&vb2.vec);
    st.eval();
    for (name, x, y) in [("Banded:neg", catch(|| mbits((-&bd).compact())), catch(|| mbits((-bd.clone()).compact()))), ("Banded:add", catch(|| mbits((&bd + &bd).compact())), catch(|| mbits((bd.clone() + bd.clone()).compact()))), ("Banded:sub", catch(|| mbits((&bd - &bd).compact())), catch(|| mbits((bd.clone() - bd.clone()).compact()))), ("Banded:mul-scalar", catch(|| mbits((&bd * 3.0).compact())), catch(|| mbits((bd.clone() * 3.0).compact()))), ("Banded:div-scalar", catch(|| mbits((&bd / 3.0).compact())), catch(|| mbits((bd.clone() / 3.0).compact())))] {
        if let (Outcome::Ok(p), Outcome::Ok(q)) = (x, y) { if p != q { st.violation(&format!("C20:{}:owned-differs-from-borrowed", name), format!("compact={:x?}", sbd)); } }
    }
    if let (Outcome::Ok(p), Outcome::Ok(q)) = (catch(|| &bd * &vb2), catch(|| bd.clone() * vb2.clone())) { if bits(&p.vec) != bits(&q.vec) { st.violation("C20:Banded:mul-vector:owned-differs-from-borrowed", format!("compact={:x?}", sbd)); } }
    let _ = catch(|| (bd.det(), bd.solve(&vb2), bd.size()));
    if mbits(bd.compact()) != sbd || bits(&vb2.vec) != svb2 { st.violation("C20:Banded:operand-mutated", format!("compact={:x?}", sbd)); }
    let nt = rng.usize(1, 6);
    let tr = Tridiagonal::with_vecs((0..nt - 1).map(|_| rng.sym()).collect::<Vec<f64>>(), (0..nt).map(|_| 3.0 + rng.unit()).collect(), (0..nt - 1).map(|_| rng.sym()).collect());
    let st_t = |t: &Tridiagonal<f64>| (bits(&t.subdiagonal().vec), bits(&t.maindiagonal().vec), bits(&t.superdiagonal().vec));
    let s0 = st_t(&tr); let vt = Vector::create((0..nt).map(|_| rng.sym()).collect::<Vec<f64>>()); let svt = bits(&vt.vec);
    st.eval();
    if let (Outcome::Ok(p), Outcome::Ok(q)) = (catch(|| &tr * &vt), catch(|| tr.clone() * vt.clone())) { if bits(&p.vec) != bits(&q.vec) { st.violation("C20:Tridiagonal:mul-vector:owned-differs-from-borrowed", format!("{:x?}", s0)); } }
    let _ = catch(|| (tr.det(), tr.solve(&vt), tr.transpose().size(), tr.convert().rows(), tr.clone().size()));
    if st_t(&tr) != s0 || bits(&vt.vec) != svt { st.violation("C20:Tridiagonal:operand-mutated", format!("{:x?}", s0)); }
    let ns = rng.usize(1, 6);
    let sp = rsparse(rng, ns, ns); let ssp = snap_s(&sp);
    let bsp = Vector::create((0..ns).map(|_| rng.sym()).collect::<Vec<f64>>()); let sbsp = bits(&bsp.vec);
    st.eval();
    let _ = catch(|| { let mut x = Vector::<f64>::new(ns, 0.0); let _ = sp.solve_cg(&bsp, &mut x, 5, 1e-8); let _ = sp.solve_bicg(&bsp, &mut x, 5, 1e-8, 1); let _ = sp.solve_bicgstab(&bsp, &mut x, 5, 1e-8); let _ = sp.solve_qmr(&bsp, &mut x, 5, 1e-8); (sp.multiply(&bsp), sp.transpose_multiply(&bsp), sp.transpose().nonzero, sp.to_dense().rows(), sp.to_triplets().len(), sp.get(0, 0), sp.col_index().size()) });
    if snap_s(&sp) != ssp || bits(&bsp.vec) != sbsp { st.violation("C20:Sparse:operand-mutated", ssp.clone()); }
    let pc: Vec<f64> = (0..rng.usize(1, 6)).map(|_| g(rng)).collect(); let qc: Vec<f64> = (0..rng.usize(1, 6)).map(|_| g(rng)).collect();
    let (pp, qq) = (Polynomial::new(pc.clone()), Polynomial::new(qc.clone()));
    let pb = |p: &Polynomial<f64>| (0..p.size()).map(|i| p[i].to_bits()).collect::<Vec<_>>();
    st.eval();
    for (name, x, y) in [("Polynomial:add", catch(|| pb(&(&pp + &qq))), catch(|| pb(&(pp.clone() + qq.clone())))), ("Polynomial:sub", catch(|| pb(&(&pp - &qq))), catch(|| pb(&(pp.clone() - qq.clone())))), ("Polynomial:mul", catch(|| pb(&(&pp * &qq))), catch(|| pb(&(pp.clone() * qq.clone())))), ("Polynomial:mul-scalar", catch(|| pb(&(&pp * 1.5))), catch(|| pb(&(pp.clone() * 1.5)))), ("Polynomial:neg", catch(|| pb(&(-&pp))), catch(|| pb(&(-pp.clone()))))] {
        if let (Outcome::Ok(p), Outcome::Ok(q)) = (x, y) { if p != q { st.violation(&format!("C20:{}:owned-differs-from-borrowed", name), format!("p={:x?} q={:x?}", bits(&pc), bits(&qc))); } }
    }
    let _ = catch(|| (pp.eval(0.5), pp.derivative().size(), pp.degree(), pp.is_zero(), pp.polydiv(&qq).is_ok()));
    if pc.len() >= 2 && pc.iter().all(|x| x.is_finite()) && pc[pc.len() - 1] != 0.0 { let _ = catch(|| pp.roots(true)); }
    if pb(&pp) != bits(&pc) || pb(&qq) != bits(&qc) { st.violation("C20:Polynomial:operand-mutated", format!("p={:x?}", bits(&pc))); }
    st.count("non-mutation-cases");
    st.nontrivial(hmix(hash_str("nonmut"), bits(&a).iter().fold(n as u64, |h, x| hmix(h, *x))));
}

// ---------- clone independence under interleaved mutations ----------
fn clone_independence(st: &mut Stats, rng: &mut Rng) {
    st.next_case();
    // Matrix
    let (r, c) = (rng.usize(1, 4), rng.usize(1, 4));
    let mut da = rand_dm(rng, r, c); let mut db = da.clone();
    let mut a = da.to_ohsl(); let mut b = a.clone();
    let mut log = vec![];
    for _ in 0..rng.usize(2, 12) {
        let on_a = rng.bool();
        let (m, d): (&mut M, &mut DM<Rat>) = if on_a { (&mut a, &mut da) } else { (&mut b, &mut db) };
        let (i, j, s) = (rng.usize(0, d.r - 1), rng.usize(0, d.c - 1), rval(rng));
        match rng.below(5) {
            0 => { m[(i, j)] = s; d.a[i][j] = s; log.push(format!("{}[({},{})]={:?}", if on_a { "a" } else { "b" }, i, j, s)); }
            1 => { m.fill_row(i, s); for q in 0..d.c { d.a[i][q] = s; } log.push(format!("{}.fill_row({},{:?})", if on_a { "a" } else { "b" }, i, s)); }
            2 => { *m += s; for row in d.a.iter_mut() { for v in row.iter_mut() { *v = *v + s; } } log.push(format!("{}+={:?}", if on_a { "a" } else { "b" }, s)); }
            3 => { m.transpose_in_place(); *d = d.transpose(); log.push(format!("{}.transpose_in_place()", if on_a { "a" } else { "b" })); }
            _ => { m.swap_rows(i, 0); d.a.swap(i, 0); log.push(format!("{}.swap_rows({},0)", if on_a { "a" } else { "b" }, i)); }
        }
        st.eval();
        if !da.eq_ohsl(&a) || !db.eq_ohsl(&b) { st.violation("C20:Matrix:clone-not-independent", format!("after {:?}: a={} (model {}) b={} (model {})", log, snap_m(&a), da.show(), snap_m(&b), db.show())); break; }
    }
    // Vector, Banded, Tridiagonal, Polynomial: mutate the clone, the original must keep its snapshot, and vice versa
    let vn = rng.usize(1, 6); let v = rv(rng, vn); let mut w = v.clone(); let sv = format!("{:?}", v.vec);
    w[0] = Rat::int(99); w.push(Rat::ONE); w *= Rat::int(2);
    st.eval(); if format!("{:?}", v.vec) != sv { st.violation("C20:Vector:clone-not-independent", sv.clone()); }
    let bd = rband(rng, 4, 1, 2); let mut be = bd.clone(); let sb = snap_b(&bd);
    be[(1, 1)] = Rat::int(99); be *= Rat::int(3); be.fill_band(0, Rat::int(5));
    st.eval(); if snap_b(&bd) != sb { st.violation("C20:Banded:clone-not-independent", sb.clone()); }
    let mut bd2 = bd.clone(); let sbe = snap_b(&be); bd2 += Rat::ONE; let _ = &bd2;
    if snap_b(&be) != sbe { st.violation("C20:Banded:clone-not-independent", sbe); }
    let t = rtri(rng, 4); let mut u = t.clone(); let stt = snap_t(&t);
    u[(0, 0)] = Rat::int(99); u *= Rat::int(2); u.transpose_in_place();
    st.eval(); if snap_t(&t) != stt { st.violation("C20:Tridiagonal:clone-not-independent", stt); }
    let p = Polynomial::new(rand_vec(rng, 4)); let mut q = p.clone(); let sp = format!("{:?}", (0..p.size()).map(|k| p[k]).collect::<Vec<_>>());
    q[0] = Rat::int(99); q.coeffs().push(Rat::ONE);
    st.eval(); if format!("{:?}", (0..p.size()).map(|k| p[k]).collect::<Vec<_>>()) != sp { st.violation("C20:Polynomial:clone-not-independent", sp); }
    // Clone::clone_from (the allocation-reusing form) on a LIVE receiver of another size: afterwards the receiver must be
    // indistinguishable from the source - sizes, entries, derived quantities - and independent of it
    {
        let (n1, n2) = (rng.usize(1, 6), rng.usize(1, 6));
        let src = rv(rng, n1); let mut dst = rv(rng, n2); dst.clone_from(&src);
        st.eval(); if dst.vec != src.vec || dst.size() != src.size() { st.violation("C20:Vector:clone_from-differs", format!("src {:?} dst {:?}", src.vec, dst.vec)); }
        let (r1, c1, r2, c2) = (rng.usize(0, 4), rng.usize(0, 4), rng.usize(0, 4), rng.usize(0, 4));
        let src = rm(rng, r1, c1); let mut dst = rm(rng, r2, c2); dst.clone_from(&src);
        st.eval(); if snap_m(&dst) != snap_m(&src) { st.violation("C20:Matrix:clone_from-differs", format!("src {} dst {}", snap_m(&src), snap_m(&dst))); }
        else if r1 > 0 && c1 > 0 { let ss = snap_m(&src); dst[(0, 0)] = Rat::int(77); if snap_m(&src) != ss { st.violation("C20:Matrix:clone-not-independent", ss); } }
        let (n1, n2) = (rng.usize(1, 6), rng.usize(1, 6));
        let (a1, a2) = (rng.usize(0, n1 - 1), rng.usize(0, n1 - 1)); let (b1, b2) = (rng.usize(0, n2 - 1), rng.usize(0, n2 - 1));
        let src = rband(rng, n1, a1, a2); let mut dst = rband(rng, n2, b1, b2); dst.clone_from(&src);
        st.eval();
        let x = rv(rng, n1);
        if snap_b(&dst) != snap_b(&src) { st.violation("C20:Banded:clone_from-differs", format!("src {} dst {}", snap_b(&src), snap_b(&dst))); }
        else { match (catch(|| (&src * &x).vec), catch(|| (&dst * &x).vec), catch(|| src.det()), catch(|| dst.det())) { (Outcome::Ok(p), Outcome::Ok(q), Outcome::Ok(d1), Outcome::Ok(d2)) => if p != q || d1 != d2 { st.violation("C20:Banded:clone_from-differs", format!("products/determinants differ after clone_from: {:?} vs {:?}, {:?} vs {:?}", p, q, d1, d2)); }, (Outcome::Overflow, ..) | (_, Outcome::Overflow, ..) | (_, _, Outcome::Overflow, _) | (_, _, _, Outcome::Overflow) => {}, _ => st.violation("C20:Banded:clone_from-differs", format!("an operation panics on the receiver of clone_from but not on the source (or vice versa): src {}", snap_b(&src))) } }
        let (n1, n2) = (rng.usize(1, 6), rng.usize(1, 6));
        let src = rtri(rng, n1); let mut dst = rtri(rng, n2); dst.clone_from(&src);
        st.eval();
        let x = rv(rng, n1);
        if snap_t(&dst) != snap_t(&src) { st.violation("C20:Tridiagonal:clone_from-differs", format!("src {} dst {}", snap_t(&src), snap_t(&dst))); }
        else { match (catch(|| (&src * &x).vec), catch(|| (&dst * &x).vec), catch(|| src.det()), catch(|| dst.det()), catch(|| snap_m(&src.convert())), catch(|| snap_m(&dst.convert()))) { (Outcome::Ok(p), Outcome::Ok(q), Outcome::Ok(d1), Outcome::Ok(d2), Outcome::Ok(c1), Outcome::Ok(c2)) => if p != q || d1 != d2 || c1 != c2 { st.violation("C20:Tridiagonal:clone_from-differs", format!("product/determinant/dense form differ after clone_from: {:?} vs {:?}, {:?} vs {:?}, {} vs {}", p, q, d1, d2, c1, c2)); }, (a, b, c, d, e, f) => if [a.is_ok(), c.is_ok(), e.is_ok()] != [b.is_ok(), d.is_ok(), f.is_ok()] && ![matches!(a, Outcome::Overflow), matches!(b, Outcome::Overflow), matches!(c, Outcome::Overflow), matches!(d, Outcome::Overflow)].iter().any(|v| *v) { st.violation("C20:Tridiagonal:clone_from-differs", format!("an operation panics on the receiver of clone_from but not on the source: src {}", snap_t(&src))); } } }
        let (n1, n2) = (rng.usize(0, 6), rng.usize(0, 6));
        let src = Polynomial::new(rand_vec(rng, n1)); let mut dst = Polynomial::new(rand_vec(rng, n2)); dst.clone_from(&src);
        st.eval();
        let cs = |p: &Polynomial<Rat>| (0..p.size()).map(|k| p[k]).collect::<Vec<_>>();
        if cs(&src) != cs(&dst) { st.violation("C20:Polynomial:clone_from-differs", format!("src {:?} dst {:?}", cs(&src), cs(&dst))); }
        st.count("clone_from-cases");
    }
    st.count("clone-cases");
    st.nontrivial(hmix(hash_str("clone"), rng.u64()));
}

pub fn run(ctx: &Ctx) -> Report {
    let nmat = 25u64; // matrix shapes 0..4 x 0..4
    let fixed = 6u64;
    let _ = std::fs::create_dir_all(&ctx.workdir);
    let (workdir, seed) = (ctx.workdir.clone(), ctx.seed);
    let nrand = ctx.vol(3000, 150_000);
    let ntab = fixed + nmat;
    let stats = par_run(ctx, TAG, 3 * ntab + nrand, |u, rng, st| {
        // the tables run three times: random content, all-zero content, nothing stored (sparse)
        let (u, mode) = if u < 3 * ntab { (u % ntab, (u / ntab) as u8) } else { (u - 2 * ntab, 0u8) };
        CONTENT.with(|c| c.set(mode));
        if mode > 0 { st.count(&format!("table-runs:content-mode-{}", mode)); }
        match u {
            0 => { table_vector(st, rng); table_dot_affinity(st); }
            1 => table_banded(st, rng),
            2 => table_tridiagonal(st, rng),
            3 => table_sparse(st, rng),
            4 => table_mesh_poly(st, rng),
            5 => table_after_shrink(st, rng, &workdir, seed),
            u if u < fixed + nmat => { let v = (u - fixed) as usize; table_matrix(st, rng, v / 5, v % 5); }
            _ => { for _ in 0..10 { non_mutation(st, rng); clone_independence(st, rng); } }
        }
        CONTENT.with(|c| c.set(0));
    });
    let entry_points: Vec<String> = stats.counters.keys().filter(|k| k.starts_with("table:")).map(|k| k[6..].to_string()).collect();
    let mut rep = Report::new(stats,
        "must-panic table: every binary operator / compound assignment / product / solver entry / checked accessor of Vector, Matrix, Banded, Tridiagonal, Sparse, Mesh1D, Mesh2D, Polynomial called with all mismatched size pairs up to 6 (matrices: all shape pairs in [0,4]^2) and every out-of-range row/column/band/node/variable/index up to size+2; for &mut entry points the receiver is snapshotted (all entries + private storage length) and must be identical after the caught panic. Every table is run three times: with random contents, with all-zero contents and (Sparse) with nothing stored, so that a 'nothing to do' fast path cannot precede a size check. After-shrink histories: Vector (pop / resize / clear), Matrix (delete_row / resize / transpose_in_place / clear), Polynomial (coeffs().pop / trim) and Mesh1D (read() of a shorter file into a longer live mesh) are shrunk through their own API and every checked accessor is then called with arguments that were valid before and are out of range now. Non-mutation: every by-reference operator and &self method on operands containing -0.0, subnormals and NaN payloads, operands compared bit-for-bit afterwards, owned vs borrowed forms bit-identical. Clone independence: interleaved mutations on a matrix and its clone, each against its own model, plus mutate-the-clone checks for Vector, Banded, Tridiagonal, Polynomial. Non-trivial: each table row group / random case; distinct = distinct (type,sizes) or case hashes. The raw (i,j) index operators of Matrix, Banded (beyond the band test) and Mesh2D are outside the claim");
    rep.assumptions = vec!["any panic counts as a rejection".into(), "Sparse and the meshes have no Clone; their clone independence is vacuous".into()];
    rep.min_nontrivial = 150;
    let mut ex = J::obj();
    ex.set("entry_points", J::Arr(entry_points.iter().map(|s| J::s(s)).collect()));
    ex.set("entry_point_count", J::UInt(entry_points.len() as u64));
    ex.set("exhaustive_parts", J::Arr(vec![J::s("the whole must-panic table (seed-independent sizes; values random)")]));
    rep.extra = ex;
    rep
}
