//! C06 — all views of a sparse matrix agree; compressed-column form stays well-formed.
use crate::model::{vec_to_ohsl, DM};
use crate::mon::common::*;
use crate::rat::Rat;
use crate::rng::{permutations, Rng};
use crate::run::{catch, par_run, Ctx, Outcome, Report, Stats};
use ohsl::Sparse;
use std::collections::{BTreeMap, BTreeSet};

const TAG: u64 = 0xC06;

#[derive(Clone, Debug, PartialEq)]
pub struct SM { pub rows: usize, pub cols: usize, pub e: BTreeMap<(usize, usize), Rat> }

impl SM {
    pub fn triplets(&self) -> Vec<(usize, usize, Rat)> { self.e.iter().map(|(&(r, c), &v)| (r, c, v)).collect() }
    pub fn dense(&self) -> DM<Rat> { DM::from_fn(self.rows, self.cols, |i, j| *self.e.get(&(i, j)).unwrap_or(&Rat::ZERO)) }
    pub fn transpose(&self) -> SM { SM { rows: self.cols, cols: self.rows, e: self.e.iter().map(|(&(r, c), &v)| ((c, r), v)).collect() } }
    /// raw CSC arrays; rows within each column in scrambled order when `scramble`
    pub fn csc(&self, rng: &mut Rng, scramble: bool) -> (Vec<Rat>, Vec<usize>, Vec<usize>) {
        let mut val = vec![]; let mut ri = vec![]; let mut cs = vec![0usize];
        for c in 0..self.cols {
            let mut col: Vec<(usize, Rat)> = self.e.iter().filter(|(&(_, cc), _)| cc == c).map(|(&(r, _), &v)| (r, v)).collect();
            if scramble { rng.shuffle(&mut col); }
            for (r, v) in col { ri.push(r); val.push(v); }
            cs.push(val.len());
        }
        (val, ri, cs)
    }
}

pub fn gen_sm(rng: &mut Rng, rows: usize, cols: usize, density: f64, allow_zero_values: bool) -> SM {
    let mut e = BTreeMap::new();
    for r in 0..rows { for c in 0..cols { if rng.chance(density) {
        let v = if allow_zero_values && rng.chance(0.05) { Rat::ZERO } else if rng.chance(0.2) { Rat::new(rng.nzint(9) as i128, rng.int(1, 4) as i128) } else { Rat::int(rng.nzint(9)) };
        e.insert((r, c), v);
    } } }
    SM { rows, cols, e }
}

/// structural well-formedness of the public CSC fields
pub fn wellformed<T>(s: &Sparse<T>) -> Result<(), String> {
    if s.col_start.len() != s.cols + 1 { return Err(format!("col_start.len()={} != cols+1={}", s.col_start.len(), s.cols + 1)); }
    if s.col_start[0] != 0 { return Err(format!("col_start[0]={}", s.col_start[0])); }
    for k in 0..s.cols { if s.col_start[k] > s.col_start[k + 1] { return Err(format!("col_start decreases at {}: {:?}", k, s.col_start)); } }
    let last = s.col_start[s.cols];
    if last != s.nonzero || s.val.len() != s.nonzero || s.row_index.len() != s.nonzero { return Err(format!("entry count mismatch: col_start.last={} nonzero={} val.len={} row_index.len={}", last, s.nonzero, s.val.len(), s.row_index.len())); }
    if let Some(r) = s.row_index.iter().find(|&&r| r >= s.rows) { return Err(format!("row index {} out of range (rows={})", r, s.rows)); }
    let mut seen = BTreeSet::new();
    for c in 0..s.cols { for k in s.col_start[c]..s.col_start[c + 1] { if !seen.insert((s.row_index[k], c)) { return Err(format!("duplicate entry ({},{})", s.row_index[k], c)); } } }
    Ok(())
}

/// all views of `s` must describe the model `m`
pub fn check_views(st: &mut Stats, s: &Sparse<Rat>, m: &SM, step: &str, hist: &dyn Fn() -> String) -> bool {
    st.eval();
    if s.rows != m.rows || s.cols != m.cols { st.violation("C06:shape", format!("after {}: shape {}x{} expected {}x{}; {}", step, s.rows, s.cols, m.rows, m.cols, hist())); return false; }
    match catch(|| wellformed(s)) {
        Outcome::Ok(Ok(())) => {}
        Outcome::Ok(Err(e)) => { st.violation("C06:csc-malformed", format!("after {}: {}; fields nonzero={} val={:?} row_index={:?} col_start={:?}; {}", step, e, s.nonzero, s.val, s.row_index, s.col_start, hist())); return false; }
        o => { st.violation("C06:csc-malformed", format!("after {}: inspecting fields {}; {}", step, o.describe(), hist())); return false; }
    }
    let mut ok = true;
    // get for every (r,c)
    for r in 0..m.rows { for c in 0..m.cols {
        let want = m.e.get(&(r, c)).copied();
        match catch(|| s.get(r, c)) { Outcome::Ok(g) => if g != want { st.violation("C06:get:wrong-value", format!("after {}: get({},{}) = {:?} expected {:?}; {}", step, r, c, g, want, hist())); ok = false; }, o => { st.violation("C06:get:panic", format!("after {}: get({},{}) {}; {}", step, r, c, o.describe(), hist())); ok = false; } }
        if !ok { return false; }
    } }
    // triplets as a set (and duplicate-free as a list)
    match catch(|| s.to_triplets()) {
        Outcome::Ok(t) => { let set: BTreeMap<(usize, usize), Rat> = t.iter().map(|&(r, c, v)| ((r, c), v)).collect(); if set != m.e || t.len() != m.e.len() { st.violation("C06:to_triplets:wrong", format!("after {}: to_triplets = {:?} expected {:?}; {}", step, t, m.triplets(), hist())); ok = false; } }
        o => { st.violation("C06:to_triplets:panic", format!("after {}: {}; {}", step, o.describe(), hist())); ok = false; }
    }
    match catch(|| s.to_dense()) {
        Outcome::Ok(d) => if !m.dense().eq_ohsl(&d) { st.violation("C06:to_dense:wrong", format!("after {}: to_dense differs; {}", step, hist())); ok = false; },
        o => { st.violation("C06:to_dense:panic", format!("after {}: {}; {}", step, o.describe(), hist())); ok = false; }
    }
    match catch(|| s.col_index()) {
        Outcome::Ok(ci) => {
            let mut good = ci.size() == m.e.len();
            if good { for c in 0..s.cols { for k in s.col_start[c]..s.col_start[c + 1] { if ci[k] != c { good = false; } } } }
            if !good { st.violation("C06:col_index:wrong", format!("after {}: col_index = {:?} col_start = {:?}; {}", step, ci.vec, s.col_start, hist())); ok = false; }
        }
        o => { st.violation("C06:col_index:panic", format!("after {}: {}; {}", step, o.describe(), hist())); ok = false; }
    }
    ok
}

/// Sparse<f64> with hostile stored values (inf, NaN, -0.0, subnormals): `scale` multiplies EVERY stored value - by 0, 1, -1
/// as well (inf * 0 is NaN, -3 * 0 is -0.0); entries, nonzero count and pattern stay what they were
fn hostile_values_f64(st: &mut Stats, rng: &mut Rng) {
    st.next_case();
    let (rows, cols) = (rng.usize(1, 6), rng.usize(1, 6));
    let mut t: Vec<(usize, usize, f64)> = vec![];
    for i in 0..rows { for j in 0..cols { if rng.chance(0.4) { t.push((i, j, *rng.pick(&[1.5, -3.0, f64::INFINITY, f64::NEG_INFINITY, f64::NAN, -0.0, 0.0, 5e-324, 1e308, -2.0]))); } } }
    let model = t.clone();
    rng.shuffle(&mut t);
    let mut s = match catch(|| Sparse::<f64>::from_triplets(rows, cols, &mut t)) { Outcome::Ok(s) => s, _ => return };
    let same = |x: f64, y: f64| (x.is_nan() && y.is_nan()) || x.to_bits() == y.to_bits();
    let mut cur = model.clone();
    for _ in 0..rng.usize(1, 3) {
        let f = *rng.pick(&[0.0, 1.0, -1.0, -0.0, 2.0, 0.5, f64::INFINITY]);
        for e in cur.iter_mut() { e.2 *= f; }
        if !catch(|| s.scale(&f)).is_ok() { st.violation("C06:scale:panic", format!("scale({:?}) on {}x{} {:?}", f, rows, cols, model)); return; }
        st.eval();
        for &(i, j, v) in &cur {
            match catch(|| s.get(i, j)) {
                Outcome::Ok(Some(g)) if same(g, v) => {}
                o => { st.violation("C06:scale:f64:hostile-values", format!("after scale({:?}): get({},{}) = {:?}, expected Some({:?}) (every stored value is multiplied, 0 * inf = NaN, -3 * 0 = -0.0); start {}x{} {:?}", f, i, j, match o { Outcome::Ok(x) => format!("{:?}", x), oo => oo.describe() }, v, rows, cols, model)); return; }
            }
        }
        if s.nonzero != cur.len() || wellformed(&s).is_err() { st.violation("C06:scale:f64:hostile-values", format!("after scale({:?}) the structure changed: nonzero {} expected {}; {:?}", f, s.nonzero, cur.len(), wellformed(&s))); return; }
    }
    st.count("hostile-value-cases");
}

/// Wrap-around probes: K-1 cheap single-column constructions between two judged constructions that touch the same rows, for K
/// around 2^8 and 2^16. Per-thread epoch / stamp counters of those widths wrap exactly there; with marks left from the previous
/// epoch a genuine entry would look "already seen".
pub fn epoch_probe(st: &mut Stats, rng: &mut Rng, gap: usize) {
    st.next_case();
    let rows = rng.usize(3, 10);
    let full = |rng: &mut Rng, cols: usize| -> SM { gen_sm(rng, rows, cols, 1.0, false) };
    let first = full(rng, 1);
    let mut t = first.triplets();
    let a = catch(|| Sparse::<Rat>::from_triplets(rows, 1, &mut t));
    if let Outcome::Ok(a) = &a { let _ = catch(|| a.transpose()); }
    for _ in 0..gap { let mut one = vec![(0usize, 0usize, Rat::ONE)]; let _ = catch(|| { let m = Sparse::<Rat>::from_triplets(1, 1, &mut one); m.transpose() }); }
    for cols in [1usize, 2, 3] {
        let m = full(rng, cols);
        let mut t = m.triplets(); rng.shuffle(&mut t);
        let shown = format!("full {}x1 matrix, then {} single-entry 1x1 constructions (+transposes), then from_triplets({}x{}, {:?})", rows, gap, rows, cols, t);
        match catch(|| Sparse::<Rat>::from_triplets(rows, cols, &mut t)) {
            Outcome::Ok(s) => { st.eval(); if !check_views(st, &s, &m, "construction after an epoch of small constructions", &|| shown.clone()) { return; }
                                if let Outcome::Ok(tr) = catch(|| s.transpose()) { if !check_views(st, &tr, &m.transpose(), "transpose after an epoch of small constructions", &|| shown.clone()) { return; } } }
            o => { st.violation("C06:construct:panic", format!("{}: {}", shown, o.describe())); return; }
        }
    }
    st.count("epoch-probes");
}

/// A construction / insertion that the library rejects (out-of-range row or column after some valid triplets), caught and
/// ignored: whatever it leaves behind (scratch buffers, counters) must not reach the next, valid call on this thread.
pub fn rejected_calls(st: &mut Stats, rng: &mut Rng) {
    let (rows, cols) = (rng.usize(1, 8), rng.usize(1, 8));
    let k = rng.usize(0, 6);
    let mut t: Vec<(usize, usize, Rat)> = (0..k).map(|q| (rng.usize(0, rows - 1), (q * cols / (k + 1)).min(cols - 1), Rat::int(rng.nzint(5)))).collect();
    t.sort_by_key(|x| x.1); t.dedup_by_key(|x| (x.0, x.1));
    let bad = match rng.below(3) { 0 => (rows + rng.usize(0, 2), rng.usize(0, cols - 1)), 1 => (rng.usize(0, rows - 1), cols + rng.usize(0, 2)), _ => (rows, cols) };
    let pos = rng.usize(0, t.len()); t.insert(pos, (bad.0, bad.1, Rat::ONE));
    let out = catch(|| Sparse::<Rat>::from_triplets(rows, cols, &mut t));
    st.count(if out.is_ok() { "rejected-calls:accepted(!)" } else { "rejected-calls:from_triplets" });
    // operations on an INCONSISTENT matrix handed over through the unchecked from_vecs (row index out of range / value array too
    // short): whatever they do (they panic on the pinned tree), the next valid call must not feel it
    if rng.chance(0.3) {
        let bad_m = catch(|| if rng.bool() { Sparse::<Rat>::from_vecs(2, 2, vec![Rat::ONE, Rat::ONE], vec![0, 5], vec![0, 1, 2]) } else { Sparse::<Rat>::from_vecs(3, 2, vec![Rat::ONE], vec![0, 2, 1], vec![0, 2, 3]) });
        if let Outcome::Ok(bm) = bad_m {
            let _ = catch(|| bm.transpose());
            let _ = catch(|| bm.multiply(&vec_to_ohsl(&[Rat::ONE, Rat::ONE])));
            let _ = catch(|| bm.transpose_multiply(&vec_to_ohsl(&[Rat::ONE, Rat::ONE, Rat::ONE])));
            st.count("rejected-calls:operations-on-inconsistent-from_vecs");
        }
    }
    // the very next valid construction on this thread is judged in full, so is the matrix after a rejected insert
    let m2 = gen_sm(rng, rows, cols, 0.5, false);
    let mut t2 = m2.triplets(); rng.shuffle(&mut t2);
    let shown = format!("rejected from_triplets({}x{}, bad triplet {:?} at position {}) then from_triplets({}x{}, {:?})", rows, cols, bad, pos, rows, cols, t2);
    match catch(|| Sparse::<Rat>::from_triplets(rows, cols, &mut t2)) {
        Outcome::Ok(mut s) => {
            st.eval();
            if !check_views(st, &s, &m2, "construction after a rejected construction", &|| shown.clone()) { return; }
            match catch(|| s.transpose()) { Outcome::Ok(tr) => { st.eval(); if !check_views(st, &tr, &m2.transpose(), "transpose after rejected calls", &|| shown.clone()) { return; } }, o => { st.violation("C06:transpose:panic", format!("{}: transpose of the valid matrix {}", shown, o.describe())); return; } }
            let _ = catch(|| s.insert(bad.0, bad.1, Rat::ONE));
            st.count("rejected-calls:insert");
            st.eval();
            check_views(st, &s, &m2, "after a rejected insert", &|| shown.clone());
        }
        o => st.violation("C06:construct:panic", format!("{}: {}", shown, o.describe())),
    }
}

fn history(st: &mut Stats, rng: &mut Rng, rows: usize, cols: usize) {
    st.next_case();
    if rng.chance(0.2) { rejected_calls(st, rng); }
    let dens = *rng.pick(&[0.0, 0.1, 0.3, 0.6, 1.0]);
    let mut m = gen_sm(rng, rows, cols, dens, true);
    // sometimes force empty first/last column
    if cols > 1 && rng.chance(0.3) { let c0 = if rng.bool() { 0 } else { cols - 1 }; m.e.retain(|&(_, c), _| c != c0); }
    let mut log: Vec<String> = vec![];
    let via_vecs = rng.chance(0.35);
    let built = if via_vecs {
        let scr = rng.bool(); let (val, ri, cs) = m.csc(rng, scr);
        log.push(format!("from_vecs({}x{}, val={:?}, row_index={:?}, col_start={:?})", rows, cols, val, ri, cs));
        catch(|| Sparse::<Rat>::from_vecs(rows, cols, val, ri, cs))
    } else {
        let mut t = m.triplets();
        rng.shuffle(&mut t);
        log.push(format!("from_triplets({}x{}, {:?})", rows, cols, t));
        catch(|| Sparse::<Rat>::from_triplets(rows, cols, &mut t))
    };
    let mut s = match built { Outcome::Ok(s) => s, o => { st.violation("C06:construct:panic", format!("{} ; {:?}", o.describe(), log)); return; } };
    if !check_views(st, &s, &m, "construction", &|| format!("{:?}", log)) { return; }
    let steps = rng.usize(0, 25);
    let hot = rng.usize(0, 10); // a column (row after a transpose) that receives half of the fresh inserts: long columns built in arbitrary order
    let mut h = hash_str("hist") ^ (rows * 16 + cols) as u64;
    for _ in 0..steps {
        let op = rng.below(10);
        h = hmix(h, op);
        let name: String;
        match op {
            0..=3 if m.rows > 0 && m.cols > 0 => { // insert: new or overwrite
                let (r, c) = if !m.e.is_empty() && rng.chance(0.4) { let k = rng.below(m.e.len() as u64) as usize; *m.e.keys().nth(k).unwrap() } else if rng.chance(0.5) { (rng.usize(0, m.rows - 1), hot % m.cols) } else { (rng.usize(0, m.rows - 1), rng.usize(0, m.cols - 1)) };
                let v = Rat::int(rng.int(-9, 9));
                let kind = if m.e.contains_key(&(r, c)) { "overwrite" } else { "new" };
                m.e.insert((r, c), v);
                name = format!("insert[{}]({},{},{:?})", kind, r, c, v);
                if let o @ (Outcome::Panic { .. } | Outcome::Budget) = catch(|| s.insert(r, c, v)) { st.violation("C06:insert:panic", format!("{} {}; {:?}", name, o.describe(), log)); return; }
                st.count(&format!("steps:insert-{}", kind));
            }
            4 | 5 => { let f = Rat::int(*rng.pick(&[-2, -1, 2, 3, 0])); for v in m.e.values_mut() { *v = *v * f; } name = format!("scale({:?})", f);
                if let o @ (Outcome::Panic { .. } | Outcome::Budget) = catch(|| s.scale(&f)) { st.violation("C06:scale:panic", format!("{} {}; {:?}", name, o.describe(), log)); return; } st.count("steps:scale"); }
            8 => { rejected_calls(st, rng); continue; }
            6 | 7 => { m = m.transpose(); name = "transpose()".to_string();
                match catch(|| s.transpose()) { Outcome::Ok(t) => s = t, o => { st.violation("C06:transpose:panic", format!("{}; {:?}", o.describe(), log)); return; } } st.count("steps:transpose"); }
            _ => continue,
        }
        log.push(name.clone());
        if !check_views(st, &s, &m, &name, &|| format!("{:?}", log)) { return; }
    }
    st.count("histories");
    st.set_insert("shapes", format!("{}x{}", rows, cols));
    if rows * cols > 1 { st.nontrivial(hmix(h, rng.u64())); }
    if log.len() > 4 { st.sample(|| format!("{:?}", log)); }
}

/// every permutation of the triplet list gives the same four views (entry sets of size <= 6)
fn order_independence(st: &mut Stats, rng: &mut Rng) {
    st.next_case();
    let (rows, cols) = (rng.usize(1, 4), rng.usize(1, 4));
    let mut m = gen_sm(rng, rows, cols, 0.5, false);
    while m.e.len() > 6 { let k = *m.e.keys().next().unwrap(); m.e.remove(&k); }
    let base = m.triplets();
    let perms = permutations(base.len());
    for p in &perms {
        let mut t: Vec<_> = p.iter().map(|&i| base[i]).collect();
        let shown = format!("{:?}", t);
        match catch(|| Sparse::<Rat>::from_triplets(rows, cols, &mut t)) {
            Outcome::Ok(s) => { if !check_views(st, &s, &m, "from_triplets(permuted)", &|| format!("{}x{} triplets {}", rows, cols, shown)) { return; } }
            o => { st.violation("C06:construct:panic", format!("{}; triplets {}", o.describe(), shown)); return; }
        }
    }
    st.add("triplet-permutations", perms.len() as u64);
    st.nontrivial(hmix(hash_str("perm"), rng.u64()));
}

/// exhaustive patterns for shapes up to 3x3 (2^(r*c) patterns)
fn exhaustive_patterns(st: &mut Stats, rng: &mut Rng, rows: usize, cols: usize) {
    let cells = rows * cols;
    for pat in 0u32..(1 << cells) {
        st.next_case();
        let mut e = BTreeMap::new();
        for k in 0..cells { if pat >> k & 1 == 1 { e.insert((k / cols, k % cols), Rat::int(rng.nzint(9))); } }
        let m = SM { rows, cols, e };
        let mut t = m.triplets();
        rng.shuffle(&mut t);
        let shown = format!("{:?}", t);
        match catch(|| Sparse::<Rat>::from_triplets(rows, cols, &mut t)) {
            Outcome::Ok(s) => {
                if !check_views(st, &s, &m, "from_triplets", &|| format!("{}x{} {}", rows, cols, shown)) { continue; }
                if let Outcome::Ok(tr) = catch(|| s.transpose()) { check_views(st, &tr, &m.transpose(), "transpose", &|| format!("{}x{} {}", rows, cols, shown)); } else { st.violation("C06:transpose:panic", shown.clone()); }
            }
            o => st.violation("C06:construct:panic", format!("{}; {}", o.describe(), shown)),
        }
        st.count("exhaustive-patterns");
        st.nontrivial(hmix(hash_str("pat"), ((rows * 4 + cols) as u64) << 32 | pat as u64));
    }
}

pub fn run(ctx: &Ctx) -> Report {
    let nshape = 121u64; // (rows, cols) in [0,10]^2
    let nexh = 9u64;    // shapes 1..3 x 1..3
    let nperm = ctx.vol(6000, 400_000);
    let reps = ctx.vol(1000, 55_000);
    let stats = par_run(ctx, TAG, nshape + nexh + nperm, |u, rng, st| {
        if u == 0 { for gap in [253usize, 254, 255, 256, 257, 65532, 65533, 65534, 65535, 65536, 65537] { epoch_probe(st, rng, gap); } }
        if u < nshape { for _ in 0..reps { history(st, rng, (u / 11) as usize, (u % 11) as usize); } for _ in 0..reps / 10 { hostile_values_f64(st, rng); } }
        else if u < nshape + nexh { let v = (u - nshape) as usize; exhaustive_patterns(st, rng, v / 3 + 1, v % 3 + 1); }
        else { for _ in 0..4 { order_independence(st, rng); } }
    });
    let mut rep = Report::new(stats,
        "histories: for every shape (rows,cols) in [0,10]^2 build a random duplicate-free Rat matrix (densities 0..1, forced empty first/last columns, explicit zero values) by from_triplets (shuffled) or from_vecs (rows in sorted or scrambled order), then <=25 steps of insert-new/insert-overwrite/scale/transpose; after every step the public CSC fields are checked for well-formedness and get(r,c) for every (r,c), to_triplets, to_dense, col_index are compared with a BTreeMap model. Exhaustive: all 2^(r*c) patterns for shapes up to 3x3; all k! orders of triplet lists with k<=6. Non-trivial: at least 2 cells; distinct = distinct history hashes");
    rep.assumptions = vec!["duplicate-free entry sets only (as the property states)".into(), "from_vecs is given valid arrays (it is documented as unchecked)".into()];
    rep.min_nontrivial = 500;
    rep.extra.set("exhaustive_parts", crate::json::J::Arr(vec![crate::json::J::s("shapes [0,10]^2 for histories"), crate::json::J::s("all sparsity patterns for shapes 1..3 x 1..3"), crate::json::J::s("all permutations of triplet lists of length <= 6")]));
    rep
}
