//! C17 — Newton: success means a root; bounded work; failure reported; state untouched.
//!
//! Six entry points are monitored: `Newton<f64>::solve`, `Newton<Cmplx>::solve`,
//! `Newton<Vec64>::{solve, solve_jacobian}`, `Newton<Vector<Cmplx>>::{solve, solve_jacobian}`.
//!
//! Every case goes through the same generic judge (`judge`):
//!  * termination and evaluation bounds (closures count calls; a call count far above the bound
//!    aborts the run through a `StepBudget` payload and is reported as an eval-bound violation);
//!  * state: `parameters()` bit-identical before/after (scalar kinds; the vector kinds have no
//!    `parameters()` because `Vector` is not `Copy`), second `solve` on the same object gives the
//!    bit-identical result and the identical sequence of evaluation points;
//!  * limit 0 => `Err(guess)` bit-exact with zero evaluations;
//!  * metamorphic chain in the iteration limit: if limit k gives `Ok(x)` then limit k+1 gives the
//!    identical `Ok(x)`; if limit k gives `Err(x_k)` then limit k+1 gives `Ok`/`Err` according to the
//!    stopping criterion evaluated by an independent model on x_k, carrying (up to rounding) one
//!    model Newton step applied to x_k. By induction from limit 0 this pins "Err carries the last
//!    iterate" and "Ok iff the criterion was met";
//!  * for generated functions with planted simple roots and a Newton-Kantorovich style certificate
//!    (including finite-difference derivative error and evaluation noise): `Ok(x)` within the
//!    certified number of iterations and x close to the root.
use crate::fl::U;
use crate::json::J;
use crate::mon::common::*;
use crate::rng::Rng;
use crate::run::{catch, par_run, Ctx, Outcome, Report, Stats, StepBudget};
use ohsl::{Cmplx, Mat64, Matrix, Newton, Vec64, Vector};
use std::cell::{Cell, RefCell};
use std::collections::BTreeMap;
use std::rc::Rc;

const TAG: u64 = 0xC17;

// ------------------------------------------------------------------ fixed tolerances
/// one-step comparison (library vs model step): |x_lib - x_model| <= REL*|dx| + ABS*|x|
const STEP_REL_SCALAR: f64 = 1e-9;
const STEP_REL_SYS: f64 = 1e-6;
const STEP_ABS: f64 = 1e-12;
/// the systems step comparison is only made when the model Jacobian has kappa_inf <= this
const STEP_MAX_COND: f64 = 1e6;
/// relative half-width of the zone around `tol` in which either verdict of the stopping test is accepted
/// (never applies when the model criterion equals tol exactly)
const CRIT_SLACK: f64 = 1e-12;
/// success demand: dist <= max(ACC_TOL*tol, ACC_TOLM*tol/m1) + ACC_U*u*(1+|root|)*M1/m1 + root uncertainty
const ACC_TOL: f64 = 10.0;
const ACC_TOLM: f64 = 4.0;
const ACC_U: f64 = 64.0;
/// Kantorovich quantity demanded of the generated guess ball
const H_MAX: f64 = 0.25;
/// extra closure calls tolerated before the run is aborted (so that small excesses are reported with exact counts)
const BUDGET_SLACK: u64 = 40;
const KCAP: usize = 50;

// ------------------------------------------------------------------ tiny complex arithmetic (independent of ohsl)
type C2 = (f64, f64);
#[inline] fn cadd(a: C2, b: C2) -> C2 { (a.0 + b.0, a.1 + b.1) }
#[inline] fn csub(a: C2, b: C2) -> C2 { (a.0 - b.0, a.1 - b.1) }
#[inline] fn cmul(a: C2, b: C2) -> C2 { (a.0 * b.0 - a.1 * b.1, a.0 * b.1 + a.1 * b.0) }
#[inline] fn cdiv(a: C2, b: C2) -> C2 { let d = b.0 * b.0 + b.1 * b.1; ((a.0 * b.0 + a.1 * b.1) / d, (a.1 * b.0 - a.0 * b.1) / d) }
#[inline] fn cscale(a: C2, s: f64) -> C2 { (a.0 * s, a.1 * s) }
#[inline] fn cab(a: C2) -> f64 { a.0.hypot(a.1) }
#[inline] fn cexp(a: C2) -> C2 { let e = a.0.exp(); (e * a.1.cos(), e * a.1.sin()) }
#[inline] fn csin(a: C2) -> C2 { (a.0.sin() * a.1.cosh(), a.0.cos() * a.1.sinh()) }
#[inline] fn ccos(a: C2) -> C2 { (a.0.cos() * a.1.cosh(), -(a.0.sin() * a.1.sinh())) }
fn flat_c(v: &[C2]) -> Vec<f64> { let mut o = Vec::with_capacity(2 * v.len()); for z in v { o.push(z.0); o.push(z.1); } o }
fn unflat_c(v: &[f64]) -> Vec<C2> { v.chunks(2).map(|c| (c[0], c[1])).collect() }
fn to_cm(z: C2) -> Cmplx { Cmplx::new(z.0, z.1) }

// ------------------------------------------------------------------ problems
type FnR = Rc<dyn Fn(f64) -> f64>;
type FnC = Rc<dyn Fn(C2) -> C2>;
type FnSR = Rc<dyn Fn(&[f64]) -> Vec<f64>>;
type JacSR = Rc<dyn Fn(&[f64]) -> Vec<Vec<f64>>>;
type FnSC = Rc<dyn Fn(&[C2]) -> Vec<C2>>;
type JacSC = Rc<dyn Fn(&[C2]) -> Vec<Vec<C2>>>;

#[derive(Clone, Copy, PartialEq, Debug)]
enum Kind { R, C, SR, SRJ, SC, SCJ }
impl Kind {
    fn site(self) -> &'static str { match self { Kind::SRJ | Kind::SCJ => "solve_jacobian", _ => "solve" } }
    fn ty(self) -> &'static str { match self { Kind::R => "f64", Kind::C => "Cmplx", Kind::SR | Kind::SRJ => "Vec64", _ => "VecCmplx" } }
    fn cplx(self) -> bool { matches!(self, Kind::C | Kind::SC | Kind::SCJ) }
    fn scalar(self) -> bool { matches!(self, Kind::R | Kind::C) }
    fn name(self) -> String { format!("{}:{}", self.site(), self.ty()) }
}
fn sig(k: Kind, mode: &str) -> String { format!("C17:{}:{}:{}", k.site(), k.ty(), mode) }

enum Body {
    R(FnR),
    C(FnC),
    SR(FnSR, Option<JacSR>),
    SC(FnSC, Option<JacSC>),
}
struct Prob { name: String, n: usize, body: Body }
impl Prob {
    fn kind(&self) -> Kind {
        match &self.body {
            Body::R(_) => Kind::R,
            Body::C(_) => Kind::C,
            Body::SR(_, j) => if j.is_some() { Kind::SRJ } else { Kind::SR },
            Body::SC(_, j) => if j.is_some() { Kind::SCJ } else { Kind::SC },
        }
    }
    /// allowed evaluations of the function per iteration
    fn per_iter(&self) -> u64 {
        match self.kind() { Kind::R | Kind::C => 3, Kind::SR | Kind::SC => self.n as u64 + 2, _ => 1 }
    }
}

/// configuration: tolerance, difference step, flat guess (complex numbers as re,im pairs)
#[derive(Clone)]
struct Cfg { tol: f64, delta: f64, guess: Vec<f64> }

#[derive(Clone)]
struct RunOut { ok: bool, x: Vec<f64>, fcalls: u64, jcalls: u64, log: Vec<u64> }
#[derive(Clone)]
enum LibRes { Done(RunOut), Panic(String), Budget(u64, u64), Other }

fn bits(v: &[f64]) -> Vec<u64> { v.iter().map(|x| x.to_bits()).collect() }
fn all_fin(v: &[f64]) -> bool { v.iter().all(|x| x.is_finite()) }
/// inf-norm of a flat point (complex: max modulus)
fn pnorm(v: &[f64], cplx: bool) -> f64 {
    if cplx { v.chunks(2).fold(0.0f64, |m, c| m.max(c[0].hypot(c[1]))) } else { v.iter().fold(0.0f64, |m, x| m.max(x.abs())) }
}
fn pdist(a: &[f64], b: &[f64], cplx: bool) -> f64 {
    if a.len() != b.len() { return f64::INFINITY; }
    let d: Vec<f64> = a.iter().zip(b).map(|(x, y)| x - y).collect();
    if d.iter().any(|x| x.is_nan()) { return f64::NAN; }
    pnorm(&d, cplx)
}

fn finish<T>(o: Outcome<Result<T, T>>, flat: impl Fn(&T) -> Vec<f64>, fc: u64, jc: u64, log: Vec<u64>) -> LibRes {
    match o {
        Outcome::Ok(Ok(v)) => LibRes::Done(RunOut { ok: true, x: flat(&v), fcalls: fc, jcalls: jc, log }),
        Outcome::Ok(Err(v)) => LibRes::Done(RunOut { ok: false, x: flat(&v), fcalls: fc, jcalls: jc, log }),
        Outcome::Panic { msg, loc } => LibRes::Panic(format!("'{}' at {}", msg, loc)),
        Outcome::Budget => LibRes::Budget(fc, jc),
        Outcome::Overflow => LibRes::Other,
    }
}

/// Build ONE Newton object and call the entry point once per element of `limits` (the limit is
/// changed with `iterations()` between calls). Second component: description of a `parameters()` mismatch.
thread_local! {
    /// re-entrant mode: the user function handed to Newton itself uses the library's Newton / Jacobian routines (an
    /// implicitly defined term obtained by an inner solve is ordinary user code)
    static REENTER: Cell<bool> = Cell::new(false);
    static INNER_BAD: Cell<u32> = Cell::new(0);
    static INNER_DEPTH: Cell<u32> = Cell::new(0);
    static INNER_LEFT: Cell<u32> = Cell::new(0);
}
fn inner_library_calls() {
    if !REENTER.with(|r| r.get()) || INNER_DEPTH.with(|d| d.get()) > 0 { return; }
    // (the first few evaluations of each solve are enough to meet any state the outer call holds on to)
    if INNER_LEFT.with(|c| { let v = c.get(); if v > 0 { c.set(v - 1); } v }) == 0 { return; }
    INNER_DEPTH.with(|d| d.set(1));
    let mut bad = false;
    let mut n1 = Newton::<f64>::new(3.0); n1.tolerance(1e-10); n1.iterations(30);
    match n1.solve(&|t: f64| t * t - 4.0) { Ok(t) => if (t - 2.0).abs() > 1e-6 { bad = true; }, Err(_) => bad = true }
    let mut n2 = Newton::<Vec64>::new(Vector::create(vec![0.5, 0.25])); n2.tolerance(1e-10); n2.iterations(30);
    match n2.solve(&|v: Vec64| Vector::create(vec![v[0] + v[1] - 3.0, v[0] * v[0] - v[1] - 3.0])) { Ok(v) => if (v[0] - 2.0).abs() > 1e-6 || (v[1] - 1.0).abs() > 1e-6 { bad = true; }, Err(_) => bad = true }
    let j = Mat64::jacobian(Vector::create(vec![1.0, 2.0]), &|v: Vec64| Vector::create(vec![2.0 * v[0] + 3.0 * v[1], v[0] - v[1]]), 2f64.powi(-10));
    if !(j.rows() == 2 && j.cols() == 2 && j[(0, 0)] == 2.0 && j[(0, 1)] == 3.0 && j[(1, 0)] == 1.0 && j[(1, 1)] == -1.0) { bad = true; }
    let mut n3 = Newton::<Cmplx>::new(Cmplx::new(0.5, 1.5)); n3.tolerance(1e-10); n3.iterations(40);
    match n3.solve(&|z: Cmplx| z * z + Cmplx::new(1.0, 0.0)) { Ok(z) => if z.real.abs() > 1e-6 || (z.imag - 1.0).abs() > 1e-6 { bad = true; }, Err(_) => bad = true }
    if bad { INNER_BAD.with(|b| b.set(b.get() + 1)); }
    INNER_DEPTH.with(|d| d.set(0));
}

fn run_lib(p: &Prob, cfg: &Cfg, limits: &[usize]) -> (Vec<LibRes>, Option<String>) {
    // (one case in 48 runs with re-entrant user functions; decided from the configuration, hence replayable)
    let reenter = (cfg.tol.to_bits() ^ cfg.guess[0].to_bits().rotate_left(17) ^ cfg.delta.to_bits()) % 48 == 0;
    REENTER.with(|r| r.set(reenter));
    INNER_LEFT.with(|c| c.set(6));
    let r = run_lib_inner(p, cfg, limits);
    REENTER.with(|r| r.set(false));
    r
}

fn run_lib_inner(p: &Prob, cfg: &Cfg, limits: &[usize]) -> (Vec<LibRes>, Option<String>) {
    let mut out = Vec::with_capacity(limits.len());
    let mut pm: Option<String> = None;
    let per = p.per_iter();
    match &p.body {
        Body::R(f) => {
            let g = cfg.guess[0];
            let mut nw = Newton::<f64>::new(g);
            nw.tolerance(cfg.tol);
            nw.delta(cfg.delta);
            for &k in limits {
                nw.iterations(k);
                let calls = Cell::new(0u64);
                let log = RefCell::new(Vec::<u64>::new());
                let cap = per * k as u64 + BUDGET_SLACK;
                let fw = |x: f64| -> f64 { inner_library_calls();
                    let c = calls.get() + 1;
                    calls.set(c);
                    if c > cap { std::panic::panic_any(StepBudget); }
                    log.borrow_mut().push(x.to_bits());
                    f(x)
                };
                let want = (cfg.tol.to_bits(), cfg.delta.to_bits(), k, g.to_bits());
                let p0 = nw.parameters();
                let o = catch(|| nw.solve(&fw));
                let p1 = nw.parameters();
                for (w, q) in [("before", p0), ("after", p1)] {
                    let got = (q.0.to_bits(), q.1.to_bits(), q.2, q.3.to_bits());
                    if got != want && pm.is_none() { pm = Some(format!("parameters() {} solve = {:?}, configured (tol,delta,max_iter,guess)=({:e},{:e},{},{:?})", w, q, cfg.tol, cfg.delta, k, g)); }
                }
                out.push(finish(o, |v: &f64| vec![*v], calls.get(), 0, log.into_inner()));
            }
        }
        Body::C(f) => {
            let g = (cfg.guess[0], cfg.guess[1]);
            let mut nw = Newton::<Cmplx>::new(to_cm(g));
            nw.tolerance(cfg.tol);
            nw.delta(cfg.delta);
            for &k in limits {
                nw.iterations(k);
                let calls = Cell::new(0u64);
                let log = RefCell::new(Vec::<u64>::new());
                let cap = per * k as u64 + BUDGET_SLACK;
                let fw = |z: Cmplx| -> Cmplx { inner_library_calls();
                    let c = calls.get() + 1;
                    calls.set(c);
                    if c > cap { std::panic::panic_any(StepBudget); }
                    { let mut l = log.borrow_mut(); l.push(z.real.to_bits()); l.push(z.imag.to_bits()); }
                    to_cm(f((z.real, z.imag)))
                };
                let want = (cfg.tol.to_bits(), cfg.delta.to_bits(), k, g.0.to_bits(), g.1.to_bits());
                let p0 = nw.parameters();
                let o = catch(|| nw.solve(&fw));
                let p1 = nw.parameters();
                for (w, q) in [("before", p0), ("after", p1)] {
                    let got = (q.0.to_bits(), q.1.to_bits(), q.2, q.3.real.to_bits(), q.3.imag.to_bits());
                    if got != want && pm.is_none() { pm = Some(format!("parameters() {} solve = {:?}, configured (tol,delta,max_iter,guess)=({:e},{:e},{},{:?})", w, q, cfg.tol, cfg.delta, k, g)); }
                }
                out.push(finish(o, |v: &Cmplx| vec![v.real, v.imag], calls.get(), 0, log.into_inner()));
            }
        }
        Body::SR(f, jac) => {
            let mut nw = Newton::<Vec64>::new(Vector::create(cfg.guess.clone()));
            nw.tolerance(cfg.tol);
            nw.delta(cfg.delta);
            for &k in limits {
                nw.iterations(k);
                let calls = Cell::new(0u64);
                let jcalls = Cell::new(0u64);
                let log = RefCell::new(Vec::<u64>::new());
                let cap = per * k as u64 + BUDGET_SLACK;
                let jcap = k as u64 + BUDGET_SLACK;
                let fw = |v: Vec64| -> Vec64 { inner_library_calls();
                    let c = calls.get() + 1;
                    calls.set(c);
                    if c > cap { std::panic::panic_any(StepBudget); }
                    { let mut l = log.borrow_mut(); l.push(0xF); for x in &v.vec { l.push(x.to_bits()); } }
                    Vector::create(f(&v.vec))
                };
                let o = match jac {
                    None => catch(|| nw.solve(&fw)),
                    Some(jf) => {
                        let jw = |v: Vec64| -> Mat64 { inner_library_calls();
                            let c = jcalls.get() + 1;
                            jcalls.set(c);
                            if c > jcap { std::panic::panic_any(StepBudget); }
                            { let mut l = log.borrow_mut(); l.push(0xA); for x in &v.vec { l.push(x.to_bits()); } }
                            mat_f64(&jf(&v.vec))
                        };
                        catch(|| nw.solve_jacobian(&fw, &jw))
                    }
                };
                out.push(finish(o, |v: &Vec64| v.vec.clone(), calls.get(), jcalls.get(), log.into_inner()));
            }
        }
        Body::SC(f, jac) => {
            let g: Vec<Cmplx> = unflat_c(&cfg.guess).into_iter().map(to_cm).collect();
            let mut nw = Newton::<Vector<Cmplx>>::new(Vector::create(g));
            nw.tolerance(cfg.tol);
            nw.delta(cfg.delta);
            let unc = |v: &Vector<Cmplx>| -> Vec<C2> { v.vec.iter().map(|z| (z.real, z.imag)).collect() };
            for &k in limits {
                nw.iterations(k);
                let calls = Cell::new(0u64);
                let jcalls = Cell::new(0u64);
                let log = RefCell::new(Vec::<u64>::new());
                let cap = per * k as u64 + BUDGET_SLACK;
                let jcap = k as u64 + BUDGET_SLACK;
                let fw = |v: Vector<Cmplx>| -> Vector<Cmplx> { inner_library_calls();
                    let c = calls.get() + 1;
                    calls.set(c);
                    if c > cap { std::panic::panic_any(StepBudget); }
                    { let mut l = log.borrow_mut(); l.push(0xF); for z in &v.vec { l.push(z.real.to_bits()); l.push(z.imag.to_bits()); } }
                    Vector::create(f(&unc(&v)).into_iter().map(to_cm).collect())
                };
                let o = match jac {
                    None => catch(|| nw.solve(&fw)),
                    Some(jf) => {
                        let jw = |v: Vector<Cmplx>| -> Matrix<Cmplx> { inner_library_calls();
                            let c = jcalls.get() + 1;
                            jcalls.set(c);
                            if c > jcap { std::panic::panic_any(StepBudget); }
                            { let mut l = log.borrow_mut(); l.push(0xA); for z in &v.vec { l.push(z.real.to_bits()); l.push(z.imag.to_bits()); } }
                            let m: Vec<Vec<Cmplx>> = jf(&unc(&v)).into_iter().map(|r| r.into_iter().map(to_cm).collect()).collect();
                            mat_c(&m)
                        };
                        catch(|| nw.solve_jacobian(&fw, &jw))
                    }
                };
                out.push(finish(o, |v: &Vector<Cmplx>| flat_c(&unc(v)), calls.get(), jcalls.get(), log.into_inner()));
            }
        }
    }
    (out, pm)
}

// ------------------------------------------------------------------ independent model of ONE Newton step
#[derive(Clone, Copy, PartialEq, Debug)]
enum Met { Yes, No, NoNan, Either }
struct MStep {
    met: Met,
    /// value of the stopping quantity (|dx| scalar, ||F||inf systems; NaN if undefined)
    crit: f64,
    /// admissible next points (flat); more than one when rounding-level choices of evaluation points exist
    cands: Vec<Vec<f64>>,
    dxn: f64,
    /// all candidates finite
    finite: bool,
    /// the step is numerically well determined (value comparison is meaningful)
    well: bool,
}

fn met_of(crit: f64, tol: f64, cplx: bool) -> Met {
    if crit.is_nan() || tol.is_nan() { return Met::No; }
    if crit != tol && tol.is_finite() && tol > 0.0 && (crit - tol).abs() <= CRIT_SLACK * tol { return Met::Either; }
    // the library's complex modulus sqrt(re^2+im^2) under/overflows where hypot does not
    if cplx && crit != tol && ((crit < 1e-140 && tol < 1e-140) || (crit > 1e140 && tol > 1e140)) { return Met::Either; }
    if crit <= tol { Met::Yes } else { Met::No }
}

/// Gaussian elimination with partial pivoting (textbook, own code), real
fn gepp_r(a: &Vec<Vec<f64>>, b: &[f64]) -> Vec<f64> {
    let n = b.len();
    let mut m = a.clone();
    let mut x = b.to_vec();
    for k in 0..n {
        let mut p = k;
        for i in k + 1..n { if m[i][k].abs() > m[p][k].abs() { p = i; } }
        m.swap(k, p);
        x.swap(k, p);
        for i in k + 1..n {
            let l = m[i][k] / m[k][k];
            for j in k..n { let t = m[k][j]; m[i][j] -= l * t; }
            let t = x[k];
            x[i] -= l * t;
        }
    }
    for k in (0..n).rev() {
        let mut s = x[k];
        for j in k + 1..n { s -= m[k][j] * x[j]; }
        x[k] = s / m[k][k];
    }
    x
}
fn gepp_c(a: &Vec<Vec<C2>>, b: &[C2]) -> Vec<C2> {
    let n = b.len();
    let mut m = a.clone();
    let mut x = b.to_vec();
    for k in 0..n {
        let mut p = k;
        for i in k + 1..n { if cab(m[i][k]) > cab(m[p][k]) { p = i; } }
        m.swap(k, p);
        x.swap(k, p);
        for i in k + 1..n {
            let l = cdiv(m[i][k], m[k][k]);
            for j in k..n { let t = m[k][j]; m[i][j] = csub(m[i][j], cmul(l, t)); }
            let t = x[k];
            x[i] = csub(x[i], cmul(l, t));
        }
    }
    for k in (0..n).rev() {
        let mut s = x[k];
        for j in k + 1..n { s = csub(s, cmul(m[k][j], x[j])); }
        x[k] = cdiv(s, m[k][k]);
    }
    x
}

fn model_step(p: &Prob, cfg: &Cfg, xf: &[f64]) -> MStep {
    let (tol, d) = (cfg.tol, cfg.delta);
    match &p.body {
        Body::R(f) => {
            let c = xf[0];
            let (fp, fm, f0) = (f(c + d), f(c - d), f(c));
            let der = (fp - fm) / (2.0 * d);
            let dx = f0 / der;
            let xn = c - dx;
            let crit = dx.abs();
            let well = fp.is_finite() && fm.is_finite() && f0.is_finite() && (fp - fm).abs() >= 1e-6 * (fp.abs() + fm.abs()) && (fp - fm) != 0.0;
            MStep { met: met_of(crit, tol, false), crit, cands: vec![vec![xn]], dxn: crit, finite: xn.is_finite() && dx.is_finite(), well }
        }
        Body::C(f) => {
            let c = (xf[0], xf[1]);
            let (fp, fm, f0) = (f((c.0 + d, c.1)), f((c.0 - d, c.1)), f(c));
            let num = csub(fp, fm);
            let der = (num.0 / (2.0 * d), num.1 / (2.0 * d));
            let dx = cdiv(f0, der);
            let xn = csub(c, dx);
            let crit = if dx.0.is_nan() || dx.1.is_nan() { f64::NAN } else { cab(dx) };
            let fin = |z: C2| z.0.is_finite() && z.1.is_finite();
            let well = fin(fp) && fin(fm) && fin(f0) && cab(num) >= 1e-6 * (cab(fp) + cab(fm)) && cab(num) != 0.0;
            MStep { met: met_of(crit, tol, true), crit, cands: vec![vec![xn.0, xn.1]], dxn: crit, finite: fin(xn) && fin(dx), well }
        }
        Body::SR(f, jac) => {
            let n = xf.len();
            let f0 = f(xf);
            let nan = f0.iter().any(|v| v.is_nan());
            let crit = if nan { f64::NAN } else { f0.iter().fold(0.0f64, |m, v| m.max(v.abs())) };
            let met = if nan { if f0[0].is_nan() { Met::No } else { Met::NoNan } } else { met_of(crit, tol, false) };
            let mut jacs: Vec<Vec<Vec<f64>>> = vec![];
            match jac {
                Some(jf) => jacs.push(jf(xf)),
                None => {
                    // forward differences, evaluation points formed freshly from x ...
                    let mut a = vec![vec![0.0; n]; n];
                    for j in 0..n {
                        let mut xp = xf.to_vec();
                        xp[j] += d;
                        let fj = f(&xp);
                        for i in 0..n { a[i][j] = (fj[i] - f0[i]) / d; }
                    }
                    jacs.push(a);
                    // ... or by perturbing and restoring one running state vector
                    let mut b = vec![vec![0.0; n]; n];
                    let mut s = xf.to_vec();
                    for j in 0..n {
                        s[j] += d;
                        let fj = f(&s);
                        s[j] -= d;
                        for i in 0..n { b[i][j] = (fj[i] - f0[i]) / d; }
                    }
                    jacs.push(b);
                }
            }
            let well = all_fin(&f0) && jacs.iter().all(|a| matches!(cp_cert_real(a), Some(k) if k <= STEP_MAX_COND));
            let mut cands = vec![];
            let mut dxn = 0.0f64;
            for a in &jacs {
                let dx = gepp_r(a, &f0);
                dxn = dxn.max(pnorm(&dx, false));
                cands.push(xf.iter().zip(&dx).map(|(x, e)| x - e).collect::<Vec<f64>>());
            }
            let finite = cands.iter().all(|c| all_fin(c));
            MStep { met, crit, cands, dxn, finite, well }
        }
        Body::SC(f, jac) => {
            let x = unflat_c(xf);
            let n = x.len();
            let f0 = f(&x);
            let isnan = |z: &C2| z.0.is_nan() || z.1.is_nan();
            let nan = f0.iter().any(isnan);
            let crit = if nan { f64::NAN } else { f0.iter().fold(0.0f64, |m, v| m.max(cab(*v))) };
            let met = if nan { if isnan(&f0[0]) { Met::No } else { Met::NoNan } } else { met_of(crit, tol, true) };
            let mut jacs: Vec<Vec<Vec<C2>>> = vec![];
            match jac {
                Some(jf) => jacs.push(jf(&x)),
                None => {
                    let mut a = vec![vec![(0.0, 0.0); n]; n];
                    for j in 0..n {
                        let mut xp = x.clone();
                        xp[j].0 += d;
                        let fj = f(&xp);
                        for i in 0..n { let t = csub(fj[i], f0[i]); a[i][j] = (t.0 / d, t.1 / d); }
                    }
                    jacs.push(a);
                    let mut b = vec![vec![(0.0, 0.0); n]; n];
                    let mut s = x.clone();
                    for j in 0..n {
                        s[j].0 += d;
                        let fj = f(&s);
                        s[j].0 -= d;
                        for i in 0..n { let t = csub(fj[i], f0[i]); b[i][j] = (t.0 / d, t.1 / d); }
                    }
                    jacs.push(b);
                }
            }
            let well = all_fin(&flat_c(&f0)) && jacs.iter().all(|a| {
                let m: Vec<Vec<Cmplx>> = a.iter().map(|r| r.iter().map(|z| to_cm(*z)).collect()).collect();
                m.iter().all(|r| r.iter().all(|z| z.real.is_finite() && z.imag.is_finite())) && matches!(cp_cert_cmplx(&m), Some(k) if k <= STEP_MAX_COND)
            });
            let mut cands = vec![];
            let mut dxn = 0.0f64;
            for a in &jacs {
                let dx = gepp_c(a, &f0);
                dxn = dxn.max(pnorm(&flat_c(&dx), true));
                cands.push(flat_c(&x.iter().zip(&dx).map(|(p, e)| csub(*p, *e)).collect::<Vec<C2>>()));
            }
            let finite = cands.iter().all(|c| all_fin(c));
            MStep { met, crit, cands, dxn, finite, well }
        }
    }
}

// ------------------------------------------------------------------ certificate for the success half
/// Bounds valid on the ball of radius `rball` around the planted root (inf-norm / modulus):
/// m1 <= 1/||J^-1||, mm1 >= ||J||, m2 >= Lipschitz constant of J, evaluation error of the user
/// function <= ef0 + ef1*dist(x,root), xmax >= ||x||.
#[derive(Clone, Debug)]
struct Bounds { m1: f64, mm1: f64, m2: f64, ef0: f64, ef1: f64, xmax: f64 }
#[derive(Clone, Debug)]
struct Cert { root: Vec<f64>, root_unc: f64, b: Bounds, kstar: usize, dist0: f64, h: f64 }

/// perturbation of the derivative/Jacobian used by the library relative to the true one (inf-norm)
fn deriv_err(kind: Kind, n: usize, b: &Bounds, rball: f64, delta: f64) -> f64 {
    let efmax = b.ef0 + b.ef1 * rball;
    match kind {
        // central difference: truncation <= M2*delta, rounding of the two values, inexact abscissae
        Kind::R | Kind::C => b.m2 * delta + (efmax + 2.0 * U * b.xmax * b.mm1) / delta,
        // forward differences, n columns contribute to a row sum
        Kind::SR | Kind::SC => b.m2 * delta + n as f64 * (2.0 * efmax + 4.0 * U * b.xmax * b.mm1) / delta,
        // user Jacobian evaluated in floating point
        Kind::SRJ | Kind::SCJ => 8.0 * U * n as f64 * b.mm1,
    }
}

/// Majorant recurrence E_{k+1} >= ||x_{k+1}-root|| given E_k >= ||x_k-root||. Returns the first
/// iteration index k* at which the library's stopping test is guaranteed to hold (with factor 2 margin).
fn certify(kind: Kind, n: usize, b: &Bounds, rball: f64, e0: f64, delta: f64, tol: f64) -> Option<usize> {
    let ed = deriv_err(kind, n, b, rball, delta);
    if !(ed <= 0.05 * b.m1) { return None; }
    let m1p = b.m1 - ed;
    let nn = n as f64;
    // relative error of the computed step (division / dense elimination)
    let gam = if kind.scalar() { 8.0 * U } else { 64.0 * nn * nn * U * (b.mm1 + ed) / m1p };
    let mut e = e0;
    for k in 0..KCAP {
        let ef = b.ef0 + b.ef1 * e;
        let en = (ed * e + 0.5 * b.m2 * e * e + ef) / m1p + 2.0 * gam * e + 4.0 * U * b.xmax;
        if !(en.is_finite() && en <= 0.9 * rball && e <= 0.999 * rball) { return None; }
        let stop = if kind.scalar() { 2.0 * (e + en) * (1.0 + gam) <= tol } else { 2.0 * (b.mm1 * e + ef) <= tol };
        if stop { return Some(k); }
        e = en;
    }
    None
}

// ------------------------------------------------------------------ the generic judge
fn show_pt(v: &[f64]) -> String { format!("{:?}", v) }

struct Probe<'a> { p: &'a Prob, cfg: &'a Cfg, cache: BTreeMap<usize, Option<RunOut>> }

/// termination / evaluation-bound / panic verdicts for one library call
fn basic(st: &mut Stats, p: &Prob, k: usize, r: &LibRes, desc: &dyn Fn() -> String) -> Option<RunOut> {
    let kind = p.kind();
    let (fb, jb) = (p.per_iter() * k as u64, if matches!(kind, Kind::SRJ | Kind::SCJ) { k as u64 } else { 0 });
    match r {
        LibRes::Done(o) => {
            if fb > 0 { st.max(&format!("{}:max_fcalls_over_bound", kind.name()), o.fcalls as f64 / fb as f64); }
            if o.fcalls > fb || o.jcalls > jb {
                st.violation(&sig(kind, "eval-bound"), format!("limit {}: {} function and {} jacobian evaluations, allowed {} and {}; {}", k, o.fcalls, o.jcalls, fb, jb, desc()));
            }
            if o.x.len() != if kind.cplx() { 2 * p.n } else { p.n } {
                st.violation(&sig(kind, "result-shape"), format!("limit {}: returned point {:?}; {}", k, o.x, desc()));
                return None;
            }
            Some(o.clone())
        }
        LibRes::Budget(fc, jc) => {
            st.violation(&sig(kind, "eval-bound"), format!("limit {}: aborted after {} function and {} jacobian evaluations, allowed {} and {} (no termination within budget); {}", k, fc, jc, fb, jb, desc()));
            None
        }
        LibRes::Panic(m) => {
            st.violation(&sig(kind, "panic"), format!("limit {}: panic {}; {}", k, m, desc()));
            None
        }
        LibRes::Other => { st.count("skipped:harness-outcome"); None }
    }
}

impl<'a> Probe<'a> {
    fn get(&mut self, st: &mut Stats, k: usize, desc: &dyn Fn() -> String) -> Option<RunOut> {
        if let Some(r) = self.cache.get(&k) { return r.clone(); }
        let (rs, pm) = run_lib(self.p, self.cfg, &[k]);
        st.eval();
        if let Some(m) = pm { st.violation(&sig(self.p.kind(), "parameters-changed"), format!("{}; {}", m, desc())); }
        let r = basic(st, self.p, k, &rs[0], desc);
        self.cache.insert(k, r.clone());
        r
    }
}

fn judge(st: &mut Stats, rng: &mut Rng, p: &Prob, cfg: &Cfg, kmax: usize, cert: Option<&Cert>) {
    st.next_case();
    let kind = p.kind();
    let kn = kind.name();
    let cplx = kind.cplx();
    let desc = || format!("entry={} fn={} n={} tol={:e} delta={:e} guess={} max_iter={}", kn, p.name, p.n, cfg.tol, cfg.delta, show_pt(&cfg.guess), kmax);
    st.count(&format!("cases:{}:{}", kn, if cert.is_some() { "certified" } else { "any-function" }));
    let mut judged_step = false;

    // --- two solves on one object: termination, bounds, parameters, repeatability
    INNER_BAD.with(|b| b.set(0));
    let (rs, pm) = run_lib(p, cfg, &[kmax, kmax]);
    st.evals_add(2);
    if INNER_BAD.with(|b| b.get()) > 0 { st.violation(&sig(kind, "reentrant-inner-call-wrong"), format!("a Newton solve / Jacobian made INSIDE the user function of an outer solve came out wrong; {}", desc())); }
    if let Some(m) = pm { st.violation(&sig(kind, "parameters-changed"), format!("{}; {}", m, desc())); }
    let a = basic(st, p, kmax, &rs[0], &desc);
    let b = basic(st, p, kmax, &rs[1], &desc);
    let a = match a { Some(a) => a, None => return };
    if let Some(b) = &b {
        if a.ok != b.ok || bits(&a.x) != bits(&b.x) {
            st.violation(&sig(kind, "repeat-result-differs"), format!("first call {}({}) second call {}({}); {}", if a.ok { "Ok" } else { "Err" }, show_pt(&a.x), if b.ok { "Ok" } else { "Err" }, show_pt(&b.x), desc()));
        } else if a.log != b.log || a.fcalls != b.fcalls || a.jcalls != b.jcalls {
            let i = a.log.iter().zip(&b.log).position(|(x, y)| x != y).unwrap_or(a.log.len().min(b.log.len()));
            st.violation(&sig(kind, "repeat-evaluations-differ"), format!("evaluation logs differ at word {} (calls {}+{} vs {}+{}); {}", i, a.fcalls, a.jcalls, b.fcalls, b.jcalls, desc()));
        }
    }
    let mut pr = Probe { p, cfg, cache: BTreeMap::new() };
    pr.cache.insert(kmax, Some(a.clone()));

    // --- limit 0 => Err(guess), no evaluations
    let zero_check = |st: &mut Stats, r: &RunOut| {
        if r.ok || bits(&r.x) != bits(&cfg.guess) || r.fcalls != 0 || r.jcalls != 0 {
            st.violation(&sig(kind, "zero-limit"), format!("limit 0 returned {}({}) after {} evaluations, expected Err(guess) untouched; {}", if r.ok { "Ok" } else { "Err" }, show_pt(&r.x), r.fcalls + r.jcalls, desc()));
        }
    };
    if kmax == 0 { zero_check(st, &a); }

    // --- certified success demand
    if let Some(c) = cert {
        let d = pdist(&a.x, &c.root, cplx);
        let rn = pnorm(&c.root, cplx);
        let tm = if kind.scalar() { ACC_TOL * cfg.tol } else { (ACC_TOL * cfg.tol).max(ACC_TOLM * cfg.tol / c.b.m1) };
        let bound = tm + ACC_U * U * (1.0 + rn) * c.b.mm1 / c.b.m1 + c.root_unc;
        if !a.ok {
            st.violation(&sig(kind, "certified-no-success"), format!("Err({}) although convergence is certified within {} iterations (root {}, |guess-root|={:e}, m1={:e} M1={:e} M2={:e} h={:.3}); {}", show_pt(&a.x), c.kstar + 1, show_pt(&c.root), c.dist0, c.b.m1, c.b.mm1, c.b.m2, c.h, desc()));
        } else {
            st.max(&format!("{}:max_dist_over_bound", kn), d / bound);
            st.max(&format!("{}:max_dist_over_tol", kn), d / cfg.tol);
            if !(d <= bound) {
                st.violation(&sig(kind, "success-far-from-root"), format!("Ok({}) at distance {:e} > {:e} from root {} (m1={:e} M1={:e}); {}", show_pt(&a.x), d, bound, show_pt(&c.root), c.b.m1, c.b.mm1, desc()));
            }
            let allowed = p.per_iter() * (c.kstar as u64 + 1);
            st.max(&format!("{}:max_fcalls_over_certified", kn), a.fcalls as f64 / allowed as f64);
            if a.fcalls > allowed {
                st.violation(&sig(kind, "certified-late-stop"), format!("{} function evaluations although the stopping test is certified to hold at iteration {} ({} evaluations); {}", a.fcalls, c.kstar, allowed, desc()));
            }
        }
        st.set_insert(&format!("certified_iters:{}", kn), format!("{}", c.kstar + 1));
    }

    // --- metamorphic chain in the limit
    let mut pairs: Vec<usize> = vec![];
    if a.ok {
        st.count(&format!("result:{}:ok", kn));
        if kmax > 0 {
            if let Some(r0) = pr.get(st, 0, &desc) { zero_check(st, &r0); }
            let (mut lo, mut hi) = (0usize, kmax);
            while hi - lo > 1 {
                let mid = (lo + hi) / 2;
                match pr.get(st, mid, &desc) { Some(r) => if r.ok { hi = mid } else { lo = mid }, None => return }
            }
            pairs.push(lo);
            if lo >= 1 { pairs.push(rng.usize(0, lo - 1)); }
            pairs.push(hi);
            st.set_insert(&format!("iterations_to_ok:{}", kn), format!("{}", hi));
        }
    } else {
        st.count(&format!("result:{}:err", kn));
        if kmax >= 1 { pairs.push(kmax - 1); }
        pairs.push(kmax);
        if kmax >= 2 { pairs.push(rng.usize(0, kmax - 2)); }
    }
    for k in pairs {
        let rk = match pr.get(st, k, &desc) { Some(r) => r, None => continue };
        let rk1 = match pr.get(st, k + 1, &desc) { Some(r) => r, None => continue };
        let show = |r: &RunOut| format!("{}({})", if r.ok { "Ok" } else { "Err" }, show_pt(&r.x));
        if rk.ok {
            if !rk1.ok || bits(&rk.x) != bits(&rk1.x) {
                st.violation(&sig(kind, "limit-monotonicity"), format!("limit {} gives {} but limit {} gives {}; {}", k, show(&rk), k + 1, show(&rk1), desc()));
            }
            continue;
        }
        if !all_fin(&rk.x) { st.count(&format!("pairs:{}:nonfinite-iterate", kn)); continue; }
        let ms = model_step(p, cfg, &rk.x);
        // status
        let bad_status = match ms.met { Met::Yes => !rk1.ok, Met::No | Met::NoNan => rk1.ok, Met::Either => false };
        if bad_status {
            let mode = match ms.met { Met::Yes => "criterion-met-but-err", Met::NoNan => "ok-despite-nan-residual", _ => "ok-but-criterion-not-met" };
            st.violation(&sig(kind, mode), format!("limit {} gives {}; at that point the stopping quantity is {:e} (tol {:e}) yet limit {} gives {}; {}", k, show(&rk), ms.crit, cfg.tol, k + 1, show(&rk1), desc()));
            continue;
        }
        st.count(&format!("pairs:{}:status-{:?}-{}", kn, ms.met, if rk1.ok { "ok" } else { "err" }));
        // value
        if !(ms.finite && ms.well) {
            st.count(&format!("pairs:{}:step-undetermined", kn));
            if rk1.ok && !all_fin(&rk1.x) { st.count(&format!("observed:{}:ok-with-nonfinite-point(singular-derivative)", kn)); }
            continue;
        }
        let rel = if kind.scalar() { STEP_REL_SCALAR } else { STEP_REL_SYS };
        let tolv = rel * ms.dxn + STEP_ABS * pnorm(&rk.x, cplx) + f64::MIN_POSITIVE;
        let dmin = ms.cands.iter().map(|c| pdist(&rk1.x, c, cplx)).fold(f64::INFINITY, |m, d| if d.is_nan() { m } else { m.min(d) });
        st.max(&format!("{}:max_step_dev_over_tol", kn), dmin / tolv);
        if !(dmin <= tolv) {
            st.violation(&sig(kind, "step-mismatch"), format!("limit {} gives {}, limit {} gives {}, but one Newton step from the former is {} (deviation {:e} > {:e}); {}", k, show(&rk), k + 1, show(&rk1), show_pt(&ms.cands[0]), dmin, tolv, desc()));
        } else {
            judged_step = true;
        }
    }
    let nontrivial = judged_step || cert.map_or(false, |c| c.dist0 > 0.0);
    if nontrivial {
        st.nontrivial(hmix(hash_str(&desc()), cert.map_or(0, |c| c.kstar as u64 + 1)));
        st.count(&format!("nontrivial:{}", kn));
    }
    st.sample(|| desc());
}

// ------------------------------------------------------------------ success-half generators
const TOLS: [f64; 9] = [1e-12, 1e-11, 1e-10, 1e-9, 1e-8, 1e-7, 1e-6, 1e-5, 1e-4];

/// A function family with a planted simple root and derivative bounds as a function of the ball radius.
struct Planted { prob: Prob, root: Vec<f64>, root_unc: f64, rcap: f64, bounds: Box<dyn Fn(f64) -> Option<Bounds>> }

/// Choose ball, guess, tolerance, limit for a planted problem and judge it. Returns false if no certificate was found.
fn run_planted(st: &mut Stats, rng: &mut Rng, pl: &Planted) -> bool {
    let kind = pl.prob.kind();
    let n = pl.prob.n;
    let cplx = kind.cplx();
    let delta = if kind.scalar() { *rng.pick(&[1e-8, 1e-8, 1e-7, 1e-6, 1e-5, 1e-4]) } else { *rng.pick(&[1e-8, 1e-8, 1e-7, 1e-6]) };
    // largest ball (geometric search) on which h = rho*M2/(2 m1') <= 1/4
    let mut found: Option<(f64, f64, Bounds, f64)> = None;
    let mut rball = pl.rcap;
    for _ in 0..60 {
        if let Some(b) = (pl.bounds)(rball) {
            let ed = deriv_err(kind, n, &b, rball, delta);
            if b.m1 > 0.0 && ed <= 0.05 * b.m1 {
                let rho = (rball - 2.0 * delta) / 1.01;
                let h = rho * b.m2 / (2.0 * (b.m1 - ed));
                if rho > 0.0 && h <= H_MAX { found = Some((rball, rho, b, h)); break; }
            }
        }
        rball *= 0.75;
    }
    let (rball, rho, b, _) = match found { Some(t) => t, None => { st.count(&format!("skipped:{}:no-ball", kind.name())); return false; } };
    // guess throughout the ball
    let theta = match rng.below(8) { 0 => 0.0, 1 => 1.0, 2 => rng.logpos(1e-9, 1.0), _ => rng.unit() };
    let mut guess = pl.root.clone();
    if cplx {
        let mut worst = 0.0f64;
        let dirs: Vec<C2> = (0..n).map(|_| { let (m, a) = (rng.unit(), rng.range(0.0, std::f64::consts::TAU)); worst = worst.max(m); (m * a.cos(), m * a.sin()) }).collect();
        for i in 0..n { let s = if worst > 0.0 { theta * rho / worst } else { 0.0 }; guess[2 * i] += s * dirs[i].0; guess[2 * i + 1] += s * dirs[i].1; }
    } else {
        let dirs: Vec<f64> = (0..n).map(|_| rng.sym()).collect();
        let worst = dirs.iter().fold(0.0f64, |m, v| m.max(v.abs()));
        for i in 0..n { let s = if worst > 0.0 { theta * rho / worst } else { 0.0 }; guess[i] += s * dirs[i]; }
    }
    // complex problems: guesses lying EXACTLY on the real (or imaginary) axis, where a real-looking derivative must not
    // be mistaken for a real problem (kept only if still inside the ball, see the test on e0 below)
    if cplx { match rng.below(10) { 0 | 1 | 2 => for i in 0..n { guess[2 * i + 1] = 0.0; }, 3 => for i in 0..n { guess[2 * i] = 0.0; }, _ => {} } }
    let dist0 = pdist(&guess, &pl.root, cplx);
    let e0 = dist0 * (1.0 + 1e-12) + pl.root_unc + 4.0 * U * b.xmax;
    if !(e0 <= rho * 1.001 + pl.root_unc + 4.0 * U * b.xmax) { st.count("skipped:guess-outside-ball"); return false; }
    let h = e0 * b.m2 / (2.0 * (b.m1 - deriv_err(kind, n, &b, rball, delta)));
    // tolerance: drawn from the list, raised until the certificate exists
    let mut ti = rng.usize(0, TOLS.len() - 1);
    let (tol, kstar) = loop {
        if let Some(k) = certify(kind, n, &b, rball, e0, delta, TOLS[ti]) { break (TOLS[ti], k); }
        st.count(&format!("certificate:{}:tol-raised", kind.name()));
        ti += 1;
        if ti >= TOLS.len() { st.count(&format!("skipped:{}:uncertified", kind.name())); return false; }
    };
    let extra = match rng.below(4) { 0 | 1 => 0, 2 => rng.usize(1, 3), _ => rng.usize(0, KCAP - (kstar + 1)) };
    let kmax = (kstar + 1 + extra).min(KCAP);
    st.max(&format!("{}:max_h", kind.name()), h);
    st.set_insert("success_families", format!("{}:{}", kind.name(), pl.prob.name.split('[').next().unwrap_or("")));
    let cert = Cert { root: pl.root.clone(), root_unc: pl.root_unc, b, kstar, dist0, h };
    let cfg = Cfg { tol, delta, guess };
    judge(st, rng, &pl.prob, &cfg, kmax, Some(&cert));
    true
}

/// bounds for s*prod(x - r_j) around the target root: `d` = distances to the other roots
fn poly_bounds(d: &[f64], s: f64, r: f64) -> Option<(f64, f64, f64)> {
    let s = s.abs();
    let mut plo = 1.0;
    for &dj in d { if dj - r <= 0.0 { return None; } plo *= dj - r; }
    let mut ssum = 0.0;
    for i in 0..d.len() { let mut t = 1.0; for j in 0..d.len() { if j != i { t *= d[j] + r; } } ssum += t; }
    let m1 = s * (plo - r * ssum);
    let mut e: Vec<f64> = vec![r];
    e.extend(d.iter().map(|dj| dj + r));
    let k = e.len();
    let (mut mm1, mut m2) = (0.0, 0.0);
    for i in 0..k {
        let mut t = 1.0;
        for j in 0..k { if j != i { t *= e[j]; } }
        mm1 += t;
        for l in 0..k { if l != i { let mut t2 = 1.0; for j in 0..k { if j != i && j != l { t2 *= e[j]; } } m2 += t2; } }
    }
    if m1 > 0.0 { Some((m1, s * mm1, s * m2)) } else { None }
}

fn separated_reals(rng: &mut Rng, k: usize, gap: f64) -> Vec<f64> {
    let mut v: Vec<f64> = vec![];
    let mut tries = 0;
    while v.len() < k && tries < 1000 {
        tries += 1;
        let c = rng.range(-4.0, 4.0);
        if v.iter().all(|x| (x - c).abs() >= gap) { v.push(c); }
    }
    v
}
fn separated_cplx(rng: &mut Rng, k: usize, gap: f64) -> Vec<C2> {
    let mut v: Vec<C2> = vec![];
    let mut tries = 0;
    while v.len() < k && tries < 1000 {
        tries += 1;
        let c = (rng.range(-3.0, 3.0), rng.range(-3.0, 3.0));
        if v.iter().all(|x| cab(csub(*x, c)) >= gap) { v.push(c); }
    }
    v
}

/// scalar nonlinearity phi with sup|phi'|, sup|phi''|, sup|phi| on [c-r, c+r] (or the complex disc)
#[derive(Clone, Copy, Debug, PartialEq)]
enum Phi { Sin, Tanh, Exp, Sq, Cube, Atan }
impl Phi {
    fn r(self, x: f64) -> f64 { match self { Phi::Sin => x.sin(), Phi::Tanh => x.tanh(), Phi::Exp => x.exp(), Phi::Sq => x * x, Phi::Cube => x * x * x, Phi::Atan => x.atan() } }
    fn dr(self, x: f64) -> f64 { match self { Phi::Sin => x.cos(), Phi::Tanh => 1.0 - x.tanh() * x.tanh(), Phi::Exp => x.exp(), Phi::Sq => 2.0 * x, Phi::Cube => 3.0 * x * x, Phi::Atan => 1.0 / (1.0 + x * x) } }
    fn c(self, z: C2) -> C2 { match self { Phi::Sin => csin(z), Phi::Exp => cexp(z), Phi::Sq => cmul(z, z), Phi::Cube => cmul(z, cmul(z, z)), _ => unreachable!() } }
    fn dc(self, z: C2) -> C2 { match self { Phi::Sin => ccos(z), Phi::Exp => cexp(z), Phi::Sq => cscale(z, 2.0), Phi::Cube => cscale(cmul(z, z), 3.0), _ => unreachable!() } }
    /// (L1, L2, Gmax) given X >= |x| (modulus), Y >= |Im x| (0 for reals), XR >= Re x
    fn sup(self, x: f64, y: f64, xr: f64) -> (f64, f64, f64) {
        match self {
            Phi::Sin => (y.cosh(), y.cosh(), y.cosh()),
            Phi::Tanh => (1.0, 0.77, 1.0),
            Phi::Exp => (xr.exp(), xr.exp(), xr.exp()),
            Phi::Sq => (2.0 * x, 2.0, x * x),
            Phi::Cube => (3.0 * x * x, 6.0 * x, x * x * x),
            Phi::Atan => (1.0, 0.65, 1.6),
        }
    }
}

fn planted_scalar_real(rng: &mut Rng) -> Option<Planted> {
    let mk = |name: String, f: FnR, root: f64, unc: f64, rcap: f64, bounds: Box<dyn Fn(f64) -> Option<Bounds>>| Planted { prob: Prob { name, n: 1, body: Body::R(f) }, root: vec![root], root_unc: unc, rcap, bounds };
    match rng.below(6) {
        0 => {
            // product form, general separated roots
            let k = rng.usize(1, 6);
            let roots = separated_reals(rng, k, 0.6);
            if roots.len() < k { return None; }
            let s = rng.logmag(0.25, 4.0);
            let t = rng.usize(0, k - 1);
            let rt = roots[t];
            let d: Vec<f64> = (0..k).filter(|j| *j != t).map(|j| (roots[j] - rt).abs()).collect();
            let rc = roots.clone();
            let f: FnR = Rc::new(move |x| { let mut p = s; for r in &rc { p *= x - r; } p });
            let kk = k as f64;
            Some(mk(format!("poly-product[s={:?} roots={:?} target={}]", s, roots, t), f, rt, 0.0, 2.0,
                Box::new(move |r| poly_bounds(&d, s, r).map(|(m1, mm1, m2)| Bounds { m1, mm1, m2, ef0: 0.0, ef1: (2.0 * kk + 4.0) * U * mm1, xmax: rt.abs() + r }))))
        }
        1 => {
            // expanded form with exactly representable coefficients (dyadic roots), Horner evaluation
            let k = rng.usize(1, 5);
            let mut roots: Vec<f64> = vec![];
            while roots.len() < k { let c = rng.int(-6, 6) as f64 * 0.5; if !roots.contains(&c) { roots.push(c); } }
            let s = *rng.pick(&[1.0, -1.0, 2.0, 0.5]);
            let mut co = vec![s];
            for r in &roots { let mut nx = vec![0.0; co.len() + 1]; for (i, c) in co.iter().enumerate() { nx[i + 1] += c; nx[i] -= c * r; } co = nx; }
            let t = rng.usize(0, k - 1);
            let rt = roots[t];
            let d: Vec<f64> = (0..k).filter(|j| *j != t).map(|j| (roots[j] - rt).abs()).collect();
            let c2 = co.clone();
            let f: FnR = Rc::new(move |x| { let mut p = 0.0; for c in c2.iter().rev() { p = p * x + c; } p });
            let kk = k as f64;
            let c3 = co.clone();
            Some(mk(format!("poly-horner[coeffs(low..high)={:?} roots={:?} target={}]", co, roots, t), f, rt, 0.0, 1.0,
                Box::new(move |r| poly_bounds(&d, s, r).map(|(m1, mm1, m2)| {
                    let x = rt.abs() + r;
                    let mut sa = 0.0; let mut xp = 1.0;
                    for c in &c3 { sa += c.abs() * xp; xp *= x; }
                    Bounds { m1, mm1, m2, ef0: (2.0 * kk + 4.0) * U * sa, ef1: 0.0, xmax: x }
                }))))
        }
        2 => {
            // exp(x) - c
            let c = rng.logpos(0.05, 50.0);
            let r0 = c.ln();
            let f: FnR = Rc::new(move |x| x.exp() - c);
            Some(mk(format!("exp(x)-c[c={:?}]", c), f, r0, 4.0 * U * (r0.abs() + 1.0), 1.0,
                Box::new(move |r| Some(Bounds { m1: (r0 - r).exp(), mm1: (r0 + r).exp(), m2: (r0 + r).exp(), ef0: 4.0 * U * ((r0 + r).exp() + c), ef1: 0.0, xmax: r0.abs() + r }))))
        }
        3 => {
            // cos(x) - x, root = Dottie number
            let r0 = 0.7390851332151607f64;
            let f: FnR = Rc::new(|x: f64| x.cos() - x);
            Some(mk("cos(x)-x[]".to_string(), f, r0, 4.0 * U, 0.8,
                Box::new(move |r| if r <= 0.8 { Some(Bounds { m1: 1.0 + (r0 - r).sin(), mm1: 2.0, m2: 1.0, ef0: 4.0 * U * (1.0 + r0 + r), ef1: 0.0, xmax: r0 + r }) } else { None })))
        }
        _ => {
            // a (x - r) + eps (phi(x) - phi(r)): root r exact
            let phi = *rng.pick(&[Phi::Sin, Phi::Tanh, Phi::Exp, Phi::Sq, Phi::Cube, Phi::Atan]);
            let r0 = rng.range(-2.0, 2.0);
            let a = rng.logmag(0.5, 4.0);
            let (l1, _, _) = phi.sup(r0.abs() + 1.0, 0.0, r0 + 1.0);
            let eps = rng.sym() * 0.8 * a.abs() / l1;
            let pr0 = phi.r(r0);
            let f: FnR = Rc::new(move |x| a * (x - r0) + eps * (phi.r(x) - pr0));
            Some(mk(format!("a(x-r)+eps({:?}(x)-{:?}(r))[a={:?} eps={:?} r={:?}]", phi, phi, a, eps, r0), f, r0, 0.0, 1.0,
                Box::new(move |r| {
                    let (l1, l2, g) = phi.sup(r0.abs() + r, 0.0, r0 + r);
                    Some(Bounds { m1: a.abs() - eps.abs() * l1, mm1: a.abs() + eps.abs() * l1, m2: eps.abs() * l2, ef0: 8.0 * U * eps.abs() * g, ef1: 8.0 * U * (a.abs() + eps.abs() * l1), xmax: r0.abs() + r })
                })))
        }
    }
}

fn planted_scalar_cplx(rng: &mut Rng) -> Option<Planted> {
    let mk = |name: String, f: FnC, root: C2, unc: f64, rcap: f64, bounds: Box<dyn Fn(f64) -> Option<Bounds>>| Planted { prob: Prob { name, n: 1, body: Body::C(f) }, root: vec![root.0, root.1], root_unc: unc, rcap, bounds };
    match rng.below(6) {
        0 | 1 => {
            let k = rng.usize(1, 6);
            let roots = separated_cplx(rng, k, 0.7);
            if roots.len() < k { return None; }
            let s = (rng.logmag(0.25, 3.0), rng.sym());
            let t = rng.usize(0, k - 1);
            let rt = roots[t];
            let d: Vec<f64> = (0..k).filter(|j| *j != t).map(|j| cab(csub(roots[j], rt)) * (1.0 - 4.0 * U)).collect();
            let rc = roots.clone();
            let f: FnC = Rc::new(move |z| { let mut p = s; for r in &rc { p = cmul(p, csub(z, *r)); } p });
            let kk = k as f64;
            let sa = cab(s) * (1.0 + 4.0 * U);
            Some(mk(format!("cpoly-product[s={:?} roots={:?} target={}]", s, roots, t), f, rt, 0.0, 2.0,
                Box::new(move |r| poly_bounds(&d, sa, r).map(|(m1, mm1, m2)| Bounds { m1: m1 * (1.0 - 64.0 * U), mm1, m2, ef0: 0.0, ef1: (8.0 * kk + 8.0) * U * mm1, xmax: cab(rt) + r }))))
        }
        2 => {
            // z^2 - c with c = fl(r^2)
            let r0 = (rng.logmag(0.3, 3.0), rng.sym() * if rng.chance(0.35) { 0.15 } else { 2.0 });
            let c = cmul(r0, r0);
            let f: FnC = Rc::new(move |z| csub(cmul(z, z), c));
            let a0 = cab(r0);
            Some(mk(format!("z^2-c[c={:?}]", c), f, r0, 8.0 * U * a0, 1.0,
                Box::new(move |r| if a0 - r > 0.0 { Some(Bounds { m1: 2.0 * (a0 - r) * (1.0 - 8.0 * U), mm1: 2.0 * (a0 + r), m2: 2.0, ef0: 8.0 * U * ((a0 + r) * (a0 + r) + cab(c)), ef1: 0.0, xmax: a0 + r }) } else { None })))
        }
        3 => {
            // z^3 - 1
            let t = rng.below(3);
            let r0 = match t { 0 => (1.0, 0.0), 1 => (-0.5, 0.75f64.sqrt()), _ => (-0.5, -(0.75f64.sqrt())) };
            let f: FnC = Rc::new(|z| csub(cmul(z, cmul(z, z)), (1.0, 0.0)));
            Some(mk(format!("z^3-1[root#{}]", t), f, r0, 4.0 * U, 0.5,
                Box::new(move |r| if r < 1.0 { Some(Bounds { m1: 3.0 * (1.0 - r) * (1.0 - r) * (1.0 - 8.0 * U), mm1: 3.0 * (1.0 + r) * (1.0 + r), m2: 6.0 * (1.0 + r), ef0: 16.0 * U * ((1.0 + r).powi(3) + 1.0), ef1: 0.0, xmax: 1.0 + r }) } else { None })))
        }
        4 => {
            // exp(z) - c with c = fl(exp(r))
            let r0 = (rng.range(-1.5, 1.5), if rng.chance(0.35) { rng.range(-0.15, 0.15) } else { rng.range(-6.0, 6.0) });
            let c = cexp(r0);
            let f: FnC = Rc::new(move |z| csub(cexp(z), c));
            Some(mk(format!("exp(z)-c[c={:?} root~{:?}]", c, r0), f, r0, 16.0 * U * (1.0 + cab(r0)), 1.0,
                Box::new(move |r| Some(Bounds { m1: (r0.0 - r).exp() * (1.0 - 8.0 * U), mm1: (r0.0 + r).exp(), m2: (r0.0 + r).exp(), ef0: 16.0 * U * ((r0.0 + r).exp() * (1.0 + cab(r0) + r) + cab(c)), ef1: 0.0, xmax: cab(r0) + r }))))
        }
        _ => {
            let phi = *rng.pick(&[Phi::Sin, Phi::Exp, Phi::Sq, Phi::Cube]);
            let r0 = (rng.range(-2.0, 2.0), if rng.chance(0.3) { rng.range(-0.15, 0.15) } else { rng.range(-1.5, 1.5) });
            let a = (rng.logmag(0.5, 3.0), rng.sym() * 2.0);
            let aa = cab(a);
            let (l1, _, _) = phi.sup(cab(r0) + 1.0, r0.1.abs() + 1.0, r0.0 + 1.0);
            let eps = cscale((rng.sym(), rng.sym()), 0.55 * aa / l1);
            let ea = cab(eps) * (1.0 + 4.0 * U);
            let pr0 = phi.c(r0);
            let f: FnC = Rc::new(move |z| cadd(cmul(a, csub(z, r0)), cmul(eps, csub(phi.c(z), pr0))));
            Some(mk(format!("a(z-r)+eps({:?}(z)-{:?}(r))[a={:?} eps={:?} r={:?}]", phi, phi, a, eps, r0), f, r0, 0.0, 1.0,
                Box::new(move |r| {
                    let (l1, l2, g) = phi.sup(cab(r0) + r, r0.1.abs() + r, r0.0 + r);
                    Some(Bounds { m1: aa * (1.0 - 8.0 * U) - ea * l1, mm1: aa * (1.0 + 8.0 * U) + ea * l1, m2: ea * l2, ef0: 32.0 * U * ea * g * (1.0 + cab(r0) + r), ef1: 32.0 * U * (aa + ea * l1), xmax: cab(r0) + r })
                })))
        }
    }
}

// ---- planted systems: F(x) = A (x - r) + eps (g(x) - g(r))   or   A x + eps g(x) - c,  c = fl(A r + eps g(r))
#[derive(Clone, Copy, Debug, PartialEq)]
enum G { Comp(Phi), Prod }

#[derive(Clone)]
struct SysR { n: usize, a: Vec<Vec<f64>>, eps: f64, g: G, sigma: Vec<usize>, r: Vec<f64>, c: Option<Vec<f64>> }
impl SysR {
    fn gi(&self, x: &[f64], i: usize) -> f64 { match self.g { G::Comp(p) => p.r(x[self.sigma[i]]), G::Prod => x[i] * x[(i + 1) % self.n] } }
    fn f(&self, x: &[f64]) -> Vec<f64> {
        (0..self.n).map(|i| match &self.c {
            None => { let mut s = 0.0; for j in 0..self.n { s += self.a[i][j] * (x[j] - self.r[j]); } s + self.eps * (self.gi(x, i) - self.gi(&self.r, i)) }
            Some(c) => { let mut s = 0.0; for j in 0..self.n { s += self.a[i][j] * x[j]; } s + self.eps * self.gi(x, i) - c[i] }
        }).collect()
    }
    fn jac(&self, x: &[f64]) -> Vec<Vec<f64>> {
        let mut m = self.a.clone();
        for i in 0..self.n {
            match self.g {
                G::Comp(p) => m[i][self.sigma[i]] += self.eps * p.dr(x[self.sigma[i]]),
                G::Prod => { let k = (i + 1) % self.n; m[i][i] += self.eps * x[k]; m[i][k] += self.eps * x[i]; }
            }
        }
        m
    }
}
#[derive(Clone)]
struct SysC { n: usize, a: Vec<Vec<C2>>, eps: C2, g: G, sigma: Vec<usize>, r: Vec<C2>, c: Option<Vec<C2>> }
impl SysC {
    fn gi(&self, x: &[C2], i: usize) -> C2 { match self.g { G::Comp(p) => p.c(x[self.sigma[i]]), G::Prod => cmul(x[i], x[(i + 1) % self.n]) } }
    fn f(&self, x: &[C2]) -> Vec<C2> {
        (0..self.n).map(|i| match &self.c {
            None => { let mut s = (0.0, 0.0); for j in 0..self.n { s = cadd(s, cmul(self.a[i][j], csub(x[j], self.r[j]))); } cadd(s, cmul(self.eps, csub(self.gi(x, i), self.gi(&self.r, i)))) }
            Some(c) => { let mut s = (0.0, 0.0); for j in 0..self.n { s = cadd(s, cmul(self.a[i][j], x[j])); } csub(cadd(s, cmul(self.eps, self.gi(x, i))), c[i]) }
        }).collect()
    }
    fn jac(&self, x: &[C2]) -> Vec<Vec<C2>> {
        let mut m = self.a.clone();
        for i in 0..self.n {
            match self.g {
                G::Comp(p) => { let s = self.sigma[i]; m[i][s] = cadd(m[i][s], cmul(self.eps, p.dc(x[s]))); }
                G::Prod => { let k = (i + 1) % self.n; m[i][i] = cadd(m[i][i], cmul(self.eps, x[k])); m[i][k] = cadd(m[i][k], cmul(self.eps, x[i])); }
            }
        }
        m
    }
}
/// (sup ||Dg||inf, Lipschitz constant of Dg, sup |g_i|) on the ball
fn g_sup(g: G, x: f64, y: f64, xr: f64) -> (f64, f64, f64) {
    match g { G::Comp(p) => p.sup(x, y, xr), G::Prod => (2.0 * x, 2.0, x * x) }
}

fn planted_system(rng: &mut Rng, cplx: bool, use_jac: bool) -> Option<Planted> {
    let n = rng.usize(1, 6);
    let nn = n as f64;
    let sigma = if rng.bool() { (0..n).collect::<Vec<usize>>() } else { rng.perm(n) };
    let cform = rng.bool();
    let offs = rng.logpos(0.05, 1.5);
    // sparsity pattern of the linear part: general, lower / upper Hessenberg, tridiagonal, lower / upper triangular plus one
    // off-diagonal (one-sided couplings that a structure-exploiting linear solve must not drop)
    let pat = rng.below(8);
    let masked = move |i: usize, j: usize| -> bool { match pat { 2 => j >= i + 2, 3 => i >= j + 2, 4 => j >= i + 2 || i >= j + 2, 5 => j > i + 1 || (i > j && (i - j) % 2 == 1), 6 => i > j + 1 || (j > i && (j - i) % 2 == 1), _ => false } };
    if !cplx {
        let g = *rng.pick(&[G::Comp(Phi::Sin), G::Comp(Phi::Tanh), G::Comp(Phi::Sq), G::Prod, G::Comp(Phi::Atan), G::Comp(Phi::Exp)]);
        let mut a = vec![vec![0.0; n]; n];
        let mut alpha = f64::INFINITY;
        let mut anorm = 0.0f64;
        for i in 0..n {
            let mut s = 0.0;
            for j in 0..n { if j != i { a[i][j] = if masked(i, j) || rng.chance(if pat >= 2 { 0.1 } else { 0.25 }) { 0.0 } else { rng.sym() * offs }; s += a[i][j].abs(); } }
            let marg = rng.range(0.5, 3.0);
            a[i][i] = (s + marg) * if rng.bool() { 1.0 } else { -1.0 };
            alpha = alpha.min((a[i][i].abs() - s) * (1.0 - 16.0 * U));
            anorm = anorm.max((a[i][i].abs() + s) * (1.0 + 16.0 * U));
        }
        let r: Vec<f64> = (0..n).map(|_| rng.range(-1.5, 1.5)).collect();
        let rn = pnorm(&r, false);
        let rmax = r.iter().fold(f64::NEG_INFINITY, |m, v| m.max(*v));
        let (e1, _, _) = g_sup(g, rn + 1.0, 0.0, rmax + 1.0);
        let eps = if rng.chance(0.06) { 0.0 } else { rng.sym() * 0.8 * alpha / e1 };
        let mut sys = SysR { n, a, eps, g, sigma, r: r.clone(), c: None };
        let mut unc = 0.0;
        if cform {
            let c: Vec<f64> = (0..n).map(|i| { let mut s = 0.0; for j in 0..n { s += sys.a[i][j] * r[j]; } s + eps * sys.gi(&r, i) }).collect();
            let (_, _, g0) = g_sup(g, rn, 0.0, rmax);
            // |c - exact| <= (n+4)u(||A|| |r| + |eps| |g(r)|); root moves by at most that / m1 (added below with m1 >= 0.2 alpha)
            unc = (nn + 6.0) * 2.0 * U * (anorm * rn + eps.abs() * g0) / (0.2 * alpha);
            sys.c = Some(c);
        }
        let name = format!("sysR[n={} g={:?} sigma={:?} form={} eps={:?} A={:?} r={:?}]", n, g, sys.sigma, if cform { "Ax+eps*g(x)-c" } else { "A(x-r)+eps*(g(x)-g(r))" }, eps, sys.a, r);
        let s1 = sys.clone();
        let f: FnSR = Rc::new(move |x| s1.f(x));
        let jac: Option<JacSR> = if use_jac { let s2 = sys.clone(); Some(Rc::new(move |x| s2.jac(x))) } else { None };
        let cmax = sys.c.as_ref().map_or(0.0, |c| pnorm(c, false));
        let bounds = Box::new(move |rb: f64| {
            let (e1, lip, gm) = g_sup(g, rn + rb, 0.0, rmax + rb);
            let m1 = alpha - eps.abs() * e1;
            if m1 < 0.2 * alpha * 0.999 { return None; }
            let cu = 4.0 * (nn + 6.0) * U;
            let (ef0, ef1) = if cform { (cu * (anorm * (rn + rb) + eps.abs() * gm + cmax), 0.0) } else { (cu * eps.abs() * gm, cu * (anorm + eps.abs() * e1)) };
            Some(Bounds { m1, mm1: anorm + eps.abs() * e1, m2: eps.abs() * lip, ef0, ef1, xmax: rn + rb })
        });
        Some(Planted { prob: Prob { name, n, body: Body::SR(f, jac) }, root: r, root_unc: unc, rcap: 1.0, bounds })
    } else {
        let g = *rng.pick(&[G::Comp(Phi::Sq), G::Prod, G::Comp(Phi::Cube), G::Comp(Phi::Sin), G::Comp(Phi::Exp)]);
        let mut a = vec![vec![(0.0, 0.0); n]; n];
        let mut alpha = f64::INFINITY;
        let mut anorm = 0.0f64;
        for i in 0..n {
            let mut s = 0.0;
            for j in 0..n { if j != i { a[i][j] = if masked(i, j) || rng.chance(if pat >= 2 { 0.1 } else { 0.25 }) { (0.0, 0.0) } else { (rng.sym() * offs, rng.sym() * offs) }; s += cab(a[i][j]); } }
            let marg = rng.range(0.5, 3.0);
            let ph = rng.range(0.0, std::f64::consts::TAU);
            a[i][i] = ((s + marg) * ph.cos(), (s + marg) * ph.sin());
            alpha = alpha.min((cab(a[i][i]) - s) * (1.0 - 32.0 * U));
            anorm = anorm.max((cab(a[i][i]) + s) * (1.0 + 32.0 * U));
        }
        let r: Vec<C2> = (0..n).map(|_| (rng.range(-1.2, 1.2), rng.range(-1.0, 1.0))).collect();
        let rf = flat_c(&r);
        let rn = pnorm(&rf, true);
        let ymax = r.iter().fold(0.0f64, |m, z| m.max(z.1.abs()));
        let xrmax = r.iter().fold(f64::NEG_INFINITY, |m, z| m.max(z.0));
        let (e1, _, _) = g_sup(g, rn + 1.0, ymax + 1.0, xrmax + 1.0);
        let em = if rng.chance(0.06) { 0.0 } else { rng.unit() * 0.8 * alpha / e1 };
        let ph = rng.range(0.0, std::f64::consts::TAU);
        let eps = (em * ph.cos(), em * ph.sin());
        let ea = cab(eps) * (1.0 + 4.0 * U);
        let mut sys = SysC { n, a, eps, g, sigma, r: r.clone(), c: None };
        let mut unc = 0.0;
        if cform {
            let c: Vec<C2> = (0..n).map(|i| { let mut s = (0.0, 0.0); for j in 0..n { s = cadd(s, cmul(sys.a[i][j], r[j])); } cadd(s, cmul(eps, sys.gi(&r, i))) }).collect();
            let (_, _, g0) = g_sup(g, rn, ymax, xrmax);
            unc = (nn + 6.0) * 8.0 * U * (anorm * rn + ea * g0 * (2.0 + rn)) / (0.2 * alpha);
            sys.c = Some(c);
        }
        let name = format!("sysC[n={} g={:?} sigma={:?} form={} eps={:?} A={:?} r={:?}]", n, g, sys.sigma, if cform { "Ax+eps*g(x)-c" } else { "A(x-r)+eps*(g(x)-g(r))" }, eps, sys.a, r);
        let s1 = sys.clone();
        let f: FnSC = Rc::new(move |x| s1.f(x));
        let jac: Option<JacSC> = if use_jac { let s2 = sys.clone(); Some(Rc::new(move |x| s2.jac(x))) } else { None };
        let cmax = sys.c.as_ref().map_or(0.0, |c| pnorm(&flat_c(c), true));
        let bounds = Box::new(move |rb: f64| {
            let (e1, lip, gm) = g_sup(g, rn + rb, ymax + rb, xrmax + rb);
            let m1 = alpha - ea * e1;
            if m1 < 0.2 * alpha * 0.999 { return None; }
            let cu = 16.0 * (nn + 6.0) * U;
            let gm = gm * (2.0 + rn + rb);
            let (ef0, ef1) = if cform { (cu * (anorm * (rn + rb) + ea * gm + cmax), 0.0) } else { (cu * ea * gm, cu * (anorm + ea * e1)) };
            Some(Bounds { m1, mm1: anorm + ea * e1, m2: ea * lip, ef0, ef1, xmax: rn + rb })
        });
        Some(Planted { prob: Prob { name, n, body: Body::SC(f, jac) }, root: rf, root_unc: unc, rcap: 1.0, bounds })
    }
}

// ------------------------------------------------------------------ "any function" generators (termination / failure half)
const NFAIL_R: u64 = 21;
fn any_fn_r(id: u64, a: f64, b: f64) -> (String, FnR) {
    let (name, f): (&str, FnR) = match id {
        0 => ("x^2+a^2+0.1", Rc::new(move |x| x * x + a * a + 0.1)),
        1 => ("exp(x)", Rc::new(|x: f64| x.exp())),
        2 => ("sqrt|x|", Rc::new(|x: f64| x.abs().sqrt())),
        3 => ("sign(x-b)", Rc::new(move |x| if x > b { 1.0 } else { -1.0 })),
        4 => ("const a", Rc::new(move |_| a)),
        5 => ("ln(x)", Rc::new(|x: f64| x.ln())),
        6 => ("|x|+a^2", Rc::new(move |x: f64| x.abs() + a * a)),
        7 => ("cbrt(x-b)", Rc::new(move |x: f64| (x - b).cbrt())),
        8 => ("atan(x)", Rc::new(|x: f64| x.atan())),
        9 => ("floor(x)+0.5", Rc::new(|x: f64| x.floor() + 0.5)),
        10 => ("1/x", Rc::new(|x: f64| 1.0 / x)),
        11 => ("(x-b)^2", Rc::new(move |x| (x - b) * (x - b))),
        12 => ("x^2-a^2-1", Rc::new(move |x| x * x - a * a - 1.0)),
        13 => ("x^3-2x+2", Rc::new(|x: f64| x * x * x - 2.0 * x + 2.0)),
        14 => ("sqrt(x-b)", Rc::new(move |x: f64| (x - b).sqrt())),
        15 => ("NaN", Rc::new(|_| f64::NAN)),
        16 => ("inf", Rc::new(|_| f64::INFINITY)),
        17 => ("sin(x)+2", Rc::new(|x: f64| x.sin() + 2.0)),
        18 => ("a*x+b", Rc::new(move |x| a * x + b)),
        19 => ("tanh(x)", Rc::new(|x: f64| x.tanh())),
        _ => ("|x-b|", Rc::new(move |x: f64| (x - b).abs())),
    };
    (format!("{}[a={:?} b={:?}]", name, a, b), f)
}
const NFAIL_C: u64 = 14;
fn any_fn_c(id: u64, a: C2, b: C2) -> (String, FnC) {
    let (name, f): (&str, FnC) = match id {
        0 => ("z^2+|a|^2+0.1", Rc::new(move |z| cadd(cmul(z, z), (a.0 * a.0 + a.1 * a.1 + 0.1, 0.0)))),
        1 => ("exp(z)", Rc::new(cexp)),
        2 => ("conj(z)-b", Rc::new(move |z: C2| csub((z.0, -z.1), b))),
        3 => ("|z|+0.5", Rc::new(|z: C2| (cab(z) + 0.5, 0.0))),
        4 => ("const a", Rc::new(move |_| a)),
        5 => ("1/z", Rc::new(|z: C2| cdiv((1.0, 0.0), z))),
        6 => ("(z-b)^2", Rc::new(move |z| cmul(csub(z, b), csub(z, b)))),
        7 => ("z^3-1", Rc::new(|z: C2| csub(cmul(z, cmul(z, z)), (1.0, 0.0)))),
        8 => ("NaN", Rc::new(|_| (f64::NAN, f64::NAN))),
        9 => ("z^2+a", Rc::new(move |z| cadd(cmul(z, z), a))),
        10 => ("a*z+b", Rc::new(move |z| cadd(cmul(a, z), b))),
        11 => ("(sqrt|re|,im)", Rc::new(|z: C2| (z.0.abs().sqrt(), z.1))),
        12 => ("exp(z)-1", Rc::new(|z: C2| csub(cexp(z), (1.0, 0.0)))),
        _ => ("(re,NaN)", Rc::new(|z: C2| (z.0, f64::NAN))),
    };
    (format!("{}[a={:?} b={:?}]", name, a, b), f)
}

/// user-supplied "Jacobians" for the any-function half: central differences of the user's own making, or junk
fn any_jac_r(f: FnSR, mode: u64, n: usize) -> JacSR {
    match mode {
        0 | 1 | 2 => Rc::new(move |x: &[f64]| {
            let h = 1e-6;
            let mut m = vec![vec![0.0; n]; n];
            for j in 0..n {
                let (mut xp, mut xm) = (x.to_vec(), x.to_vec());
                xp[j] += h; xm[j] -= h;
                let (fp, fm) = (f(&xp), f(&xm));
                for i in 0..n { m[i][j] = (fp[i] - fm[i]) / (2.0 * h); }
            }
            m
        }),
        3 => Rc::new(move |_| (0..n).map(|i| (0..n).map(|j| if i == j { 2.0 } else { 0.0 }).collect()).collect()),
        4 => Rc::new(move |_| vec![vec![0.0; n]; n]),
        _ => Rc::new(move |_| vec![vec![f64::NAN; n]; n]),
    }
}
fn any_jac_c(f: FnSC, mode: u64, n: usize) -> JacSC {
    match mode {
        0 | 1 | 2 => Rc::new(move |x: &[C2]| {
            let h = 1e-6;
            let mut m = vec![vec![(0.0, 0.0); n]; n];
            for j in 0..n {
                let (mut xp, mut xm) = (x.to_vec(), x.to_vec());
                xp[j].0 += h; xm[j].0 -= h;
                let (fp, fm) = (f(&xp), f(&xm));
                for i in 0..n { let t = csub(fp[i], fm[i]); m[i][j] = (t.0 / (2.0 * h), t.1 / (2.0 * h)); }
            }
            m
        }),
        3 => Rc::new(move |_| (0..n).map(|i| (0..n).map(|j| if i == j { (0.0, 2.0) } else { (0.0, 0.0) }).collect()).collect()),
        4 => Rc::new(move |_| vec![vec![(0.0, 0.0); n]; n]),
        _ => Rc::new(move |_| vec![vec![(f64::NAN, 0.0); n]; n]),
    }
}

fn any_params(rng: &mut Rng) -> (f64, f64, usize) {
    let tol = match rng.below(12) { 0 => 0.0, 1 => 1.0, 2 => f64::INFINITY, 3 => f64::NAN, 4 => 1e-8, 5 => -1.0, _ => *rng.pick(&TOLS) };
    let delta = match rng.below(12) { 0 => 0.0, 1 => 0.5, 2 => 1.0 / 1048576.0, _ => *rng.pick(&[1e-8, 1e-8, 1e-7, 1e-6, 1e-5]) };
    let kmax = match rng.below(6) { 0 => rng.usize(0, 2), 1 => KCAP, _ => rng.usize(0, KCAP) };
    (tol, delta, kmax)
}
fn any_coord(rng: &mut Rng) -> f64 {
    match rng.below(8) { 0 => 0.0, 1 => rng.int(-3, 3) as f64, 2 => rng.logmag(1e-3, 1e3), _ => rng.range(-3.0, 3.0) }
}

fn any_case(rng: &mut Rng, st: &mut Stats, kind: Kind) {
    let (tol, delta, kmax) = any_params(rng);
    match kind {
        Kind::R => {
            let id = rng.below(NFAIL_R);
            let (name, f) = any_fn_r(id, rng.range(-2.0, 2.0), rng.range(-2.0, 2.0));
            st.set_insert("any_families", format!("{}:{}", kind.name(), name.split('[').next().unwrap_or("")));
            let p = Prob { name, n: 1, body: Body::R(f) };
            let g = vec![any_coord(rng)];
            judge(st, rng, &p, &Cfg { tol, delta, guess: g }, kmax, None);
        }
        Kind::C => {
            let id = rng.below(NFAIL_C);
            let (name, f) = any_fn_c(id, (rng.range(-2.0, 2.0), rng.range(-2.0, 2.0)), (rng.range(-2.0, 2.0), rng.range(-2.0, 2.0)));
            st.set_insert("any_families", format!("{}:{}", kind.name(), name.split('[').next().unwrap_or("")));
            let p = Prob { name, n: 1, body: Body::C(f) };
            let g = vec![any_coord(rng), if rng.chance(0.3) { 0.0 } else { any_coord(rng) }];
            judge(st, rng, &p, &Cfg { tol, delta, guess: g }, kmax, None);
        }
        Kind::SR | Kind::SRJ => {
            let n = rng.usize(1, 6);
            let fam = rng.below(8);
            let coup = if rng.bool() { 0.0 } else { rng.sym() * 0.3 };
            let (name, f): (String, FnSR) = match fam {
                0..=3 => {
                    // componentwise lift of a scalar function, weakly coupled to the next coordinate
                    let ids: Vec<u64> = if rng.bool() { let id = rng.below(NFAIL_R); vec![id; n] } else { (0..n).map(|_| rng.below(NFAIL_R)).collect() };
                    let (a, b) = (rng.range(-2.0, 2.0), rng.range(-2.0, 2.0));
                    let fs: Vec<(String, FnR)> = ids.iter().map(|id| any_fn_r(*id, a, b)).collect();
                    let nm = format!("lift[{} coupling={:?}]", fs.iter().map(|t| t.0.clone()).collect::<Vec<_>>().join(";"), coup);
                    (nm, Rc::new(move |x: &[f64]| (0..n).map(|i| (fs[i].1)(x[i]) + if coup != 0.0 { coup * x[(i + 1) % n] } else { 0.0 }).collect()))
                }
                4 => {
                    // all but the last residual vanish at r, the last is NaN left of 0 (ln)
                    let r: Vec<f64> = (0..n).map(|_| rng.int(-2, 2) as f64).collect();
                    let r2 = r.clone();
                    (format!("nan-tail[a*(x_i-r_i) (i<n-1), ln(x_(n-1)); r={:?}]", r), Rc::new(move |x: &[f64]| (0..n).map(|i| if i + 1 < n { 2.0 * (x[i] - r2[i]) } else { x[i].ln() }).collect()))
                }
                5 => ("singular[F_i = sum_j x_j - 1]".to_string(), Rc::new(move |x: &[f64]| { let s: f64 = x.iter().sum(); vec![s - 1.0; n] })),
                6 => ("zero[F = 0]".to_string(), Rc::new(move |_: &[f64]| vec![0.0; n])),
                _ => {
                    let r: Vec<f64> = (0..n).map(|_| rng.int(-4, 4) as f64 * 0.5).collect();
                    let d: Vec<f64> = (0..n).map(|_| *rng.pick(&[1.0, 2.0, -4.0, 0.5])).collect();
                    let nm = format!("linear[F_i = d_i (x_i - r_i) + 0.25 (x_(i+1) - r_(i+1)); d={:?} r={:?}]", d, r);
                    (nm, Rc::new(move |x: &[f64]| (0..n).map(|i| d[i] * (x[i] - r[i]) + if n > 1 { 0.25 * (x[(i + 1) % n] - r[(i + 1) % n]) } else { 0.0 }).collect()))
                }
            };
            st.set_insert("any_families", format!("{}:{}", kind.name(), ["lift", "lift", "lift", "lift", "nan-tail", "singular", "zero", "linear"][fam as usize]));
            let jm = rng.below(6);
            let jac = if kind == Kind::SRJ { Some(any_jac_r(f.clone(), jm, n)) } else { None };
            let name = if kind == Kind::SRJ { format!("{} jac-mode={}", name, jm) } else { name };
            let mut guess: Vec<f64> = (0..n).map(|_| any_coord(rng)).collect();
            if fam == 4 { for i in 0..n { guess[i] = if i + 1 < n { if rng.chance(0.7) { guess[i].round().clamp(-2.0, 2.0) } else { guess[i] } } else { -guess[i].abs() - 0.5 }; } }
            let p = Prob { name, n, body: Body::SR(f, jac) };
            judge(st, rng, &p, &Cfg { tol, delta, guess }, kmax, None);
        }
        Kind::SC | Kind::SCJ => {
            let n = rng.usize(1, 6);
            let fam = rng.below(8);
            let coup = if rng.bool() { 0.0 } else { rng.sym() * 0.3 };
            let (name, f): (String, FnSC) = match fam {
                0..=3 => {
                    let ids: Vec<u64> = if rng.bool() { let id = rng.below(NFAIL_C); vec![id; n] } else { (0..n).map(|_| rng.below(NFAIL_C)).collect() };
                    let (a, b) = ((rng.range(-2.0, 2.0), rng.range(-2.0, 2.0)), (rng.range(-2.0, 2.0), rng.range(-2.0, 2.0)));
                    let fs: Vec<(String, FnC)> = ids.iter().map(|id| any_fn_c(*id, a, b)).collect();
                    let nm = format!("lift[{} coupling={:?}]", fs.iter().map(|t| t.0.clone()).collect::<Vec<_>>().join(";"), coup);
                    (nm, Rc::new(move |x: &[C2]| (0..n).map(|i| { let v = (fs[i].1)(x[i]); if coup != 0.0 { cadd(v, cscale(x[(i + 1) % n], coup)) } else { v } }).collect()))
                }
                4 => {
                    let r: Vec<C2> = (0..n).map(|_| (rng.int(-2, 2) as f64, rng.int(-2, 2) as f64)).collect();
                    let r2 = r.clone();
                    (format!("nan-tail[2*(z_i-r_i) (i<n-1), (ln(re z),im z) last; r={:?}]", r), Rc::new(move |x: &[C2]| (0..n).map(|i| if i + 1 < n { cscale(csub(x[i], r2[i]), 2.0) } else { (x[i].0.ln(), x[i].1) }).collect()))
                }
                5 => ("singular[F_i = sum_j z_j - 1]".to_string(), Rc::new(move |x: &[C2]| { let s = x.iter().fold((0.0, 0.0), |s, z| cadd(s, *z)); vec![csub(s, (1.0, 0.0)); n] })),
                6 => ("zero[F = 0]".to_string(), Rc::new(move |_: &[C2]| vec![(0.0, 0.0); n])),
                _ => {
                    let r: Vec<C2> = (0..n).map(|_| (rng.int(-4, 4) as f64 * 0.5, rng.int(-4, 4) as f64 * 0.5)).collect();
                    let d: Vec<C2> = (0..n).map(|_| *rng.pick(&[(1.0, 0.0), (0.0, 2.0), (-4.0, 0.0), (0.5, 0.5)])).collect();
                    let nm = format!("linear[F_i = d_i (z_i - r_i) + 0.25 (z_(i+1) - r_(i+1)); d={:?} r={:?}]", d, r);
                    (nm, Rc::new(move |x: &[C2]| (0..n).map(|i| { let v = cmul(d[i], csub(x[i], r[i])); if n > 1 { cadd(v, cscale(csub(x[(i + 1) % n], r[(i + 1) % n]), 0.25)) } else { v } }).collect()))
                }
            };
            st.set_insert("any_families", format!("{}:{}", kind.name(), ["lift", "lift", "lift", "lift", "nan-tail", "singular", "zero", "linear"][fam as usize]));
            let jm = rng.below(6);
            let jac = if kind == Kind::SCJ { Some(any_jac_c(f.clone(), jm, n)) } else { None };
            let name = if kind == Kind::SCJ { format!("{} jac-mode={}", name, jm) } else { name };
            let mut guess: Vec<C2> = (0..n).map(|_| (any_coord(rng), if rng.chance(0.3) { 0.0 } else { any_coord(rng) })).collect();
            if fam == 4 { for i in 0..n { guess[i] = if i + 1 < n { if rng.chance(0.7) { (guess[i].0.round().clamp(-2.0, 2.0), guess[i].1.round().clamp(-2.0, 2.0)) } else { guess[i] } } else { (-guess[i].0.abs() - 0.5, guess[i].1) }; } }
            let p = Prob { name, n, body: Body::SC(f, jac) };
            judge(st, rng, &p, &Cfg { tol, delta, guess: flat_c(&guess) }, kmax, None);
        }
    }
}

// ------------------------------------------------------------------ enumerated boundary cases: stopping quantity == tol exactly
/// Linear functions with dyadic data so that every operation of the first iteration is exact and the
/// stopping quantity equals the tolerance exactly ("<=" must stop). Independent of the seed.
fn boundary_cases(st: &mut Stats) -> u64 {
    let mut rng = Rng::new(0xB0DA);
    let delta = 1.0 / 1024.0;
    let mut count = 0u64;
    // residual vectors [0,..,0,NaN] (NaN not in the first slot): the stopping test must not pass
    for n in 2..=3usize {
        for &tol in &[1e-8, 1e-4] {
            for &kmax in &[1usize, 5] {
                for &uj in &[false, true] {
                    let f: FnSR = Rc::new(move |x: &[f64]| (0..n).map(|i| if i + 1 < n { 2.0 * (x[i] - 1.0) } else { x[i].ln() }).collect());
                    let jac: Option<JacSR> = if uj { Some(Rc::new(move |x: &[f64]| (0..n).map(|i| (0..n).map(|j| if i != j { 0.0 } else if i + 1 < n { 2.0 } else { 1.0 / x[i] }).collect()).collect())) } else { None };
                    let mut g = vec![1.0; n];
                    g[n - 1] = -1.0;
                    let p = Prob { name: "nan-residual[F_i = 2(x_i-1) (i<n-1), F_(n-1) = ln(x_(n-1))]".to_string(), n, body: Body::SR(f, jac) };
                    judge(st, &mut rng, &p, &Cfg { tol, delta: 1e-7, guess: g.clone() }, kmax, None);
                    let f: FnSC = Rc::new(move |x: &[C2]| (0..n).map(|i| if i + 1 < n { cscale(csub(x[i], (1.0, 0.0)), 2.0) } else { (x[i].0.ln(), x[i].1) }).collect());
                    let jac: Option<JacSC> = if uj { Some(Rc::new(move |x: &[C2]| (0..n).map(|i| (0..n).map(|j| if i != j { (0.0, 0.0) } else if i + 1 < n { (2.0, 0.0) } else { (1.0 / x[i].0, 0.0) }).collect()).collect())) } else { None };
                    let gc: Vec<C2> = g.iter().map(|v| (*v, 0.0)).collect();
                    let p = Prob { name: "nan-residual[F_i = 2(z_i-1) (i<n-1), F_(n-1) = (ln(re z),im z)]".to_string(), n, body: Body::SC(f, jac) };
                    judge(st, &mut rng, &p, &Cfg { tol, delta: 1e-7, guess: flat_c(&gc) }, kmax, None);
                    count += 2;
                }
            }
        }
    }
    for &r0 in &[0.0, 1.5, -3.0] {
        for &pw in &[14i32, 20, 30] {
            let tol = 2f64.powi(-pw);
            for &s in &[0.5, 1.0, -4.0] {
                for &sgn in &[1.0, -1.0] {
                    for &kmax in &[1usize, 3] {
                        // real scalar
                        let f: FnR = Rc::new(move |x| s * (x - r0));
                        let p = Prob { name: format!("boundary:s(x-r)[s={:?} r={:?}]", s, r0), n: 1, body: Body::R(f) };
                        judge(st, &mut rng, &p, &Cfg { tol, delta, guess: vec![r0 + sgn * tol] }, kmax, None);
                        count += 1;
                        // complex scalar: offset along the real or the imaginary axis
                        for &im in &[false, true] {
                            let rc = (r0, 0.5);
                            let f: FnC = Rc::new(move |z| cscale(csub(z, rc), s));
                            let g = if im { (rc.0, rc.1 + sgn * tol) } else { (rc.0 + sgn * tol, rc.1) };
                            let p = Prob { name: format!("boundary:s(z-r)[s={:?} r={:?}]", s, rc), n: 1, body: Body::C(f) };
                            judge(st, &mut rng, &p, &Cfg { tol, delta, guess: vec![g.0, g.1] }, kmax, None);
                            count += 1;
                        }
                        // systems: F_i = d_i (x_i - r_i); residual inf-norm == tol exactly at the guess
                        for n in 1..=3usize {
                            for lead in 0..n {
                                let d: Vec<f64> = (0..n).map(|i| if i == 0 { s } else { 2.0 }).collect();
                                let r: Vec<f64> = (0..n).map(|i| r0 + i as f64 * 0.5).collect();
                                let w: Vec<f64> = (0..n).map(|i| if i == lead { 1.0 } else { 0.25 }).collect();
                                let guess: Vec<f64> = (0..n).map(|i| r[i] + sgn * w[i] * tol / d[i]).collect();
                                for &uj in &[false, true] {
                                    let (d1, r1, d2) = (d.clone(), r.clone(), d.clone());
                                    let f: FnSR = Rc::new(move |x: &[f64]| (0..n).map(|i| d1[i] * (x[i] - r1[i])).collect());
                                    let jac: Option<JacSR> = if uj { Some(Rc::new(move |_: &[f64]| (0..n).map(|i| (0..n).map(|j| if i == j { d2[i] } else { 0.0 }).collect()).collect())) } else { None };
                                    let p = Prob { name: format!("boundary:diag[d={:?} r={:?}]", d, r), n, body: Body::SR(f, jac) };
                                    judge(st, &mut rng, &p, &Cfg { tol, delta, guess: guess.clone() }, kmax, None);
                                    count += 1;
                                    // complex: d_i real or imaginary, offsets rotated accordingly
                                    let dc: Vec<C2> = (0..n).map(|i| if i % 2 == 0 { (d[i], 0.0) } else { (0.0, d[i]) }).collect();
                                    let rc: Vec<C2> = r.iter().map(|v| (*v, -0.5)).collect();
                                    let gc: Vec<C2> = (0..n).map(|i| (rc[i].0 + sgn * w[i] * tol / d[i], rc[i].1)).collect();
                                    let (dc1, rc1, dc2) = (dc.clone(), rc.clone(), dc.clone());
                                    let f: FnSC = Rc::new(move |x: &[C2]| (0..n).map(|i| cmul(dc1[i], csub(x[i], rc1[i]))).collect());
                                    let jac: Option<JacSC> = if uj { Some(Rc::new(move |_: &[C2]| (0..n).map(|i| (0..n).map(|j| if i == j { dc2[i] } else { (0.0, 0.0) }).collect()).collect())) } else { None };
                                    let p = Prob { name: format!("boundary:cdiag[d={:?} r={:?}]", dc, rc), n, body: Body::SC(f, jac) };
                                    judge(st, &mut rng, &p, &Cfg { tol, delta, guess: flat_c(&gc) }, kmax, None);
                                    count += 1;
                                }
                            }
                        }
                    }
                }
            }
        }
    }
    count
}

// ------------------------------------------------------------------ entry point
const KINDS: [Kind; 6] = [Kind::R, Kind::C, Kind::SR, Kind::SRJ, Kind::SC, Kind::SCJ];

pub fn run(ctx: &Ctx) -> Report {
    let units = ctx.vol(6000, 150_000);
    let stats = par_run(ctx, TAG, units + 1, |u, rng, st| {
        if u == 0 {
            let c = boundary_cases(st);
            st.add("boundary_cases", c);
            return;
        }
        for _ in 0..4 {
            for &kind in &KINDS {
                // certified success case
                let pl = match kind {
                    Kind::R => planted_scalar_real(rng),
                    Kind::C => planted_scalar_cplx(rng),
                    Kind::SR => planted_system(rng, false, false),
                    Kind::SRJ => planted_system(rng, false, true),
                    Kind::SC => planted_system(rng, true, false),
                    Kind::SCJ => planted_system(rng, true, true),
                };
                match pl { Some(pl) => { run_planted(st, rng, &pl); } None => st.count("skipped:generator") }
                // any-function case
                any_case(rng, st, kind);
            }
        }
    });
    let mut rep = Report::new(stats,
        "each random unit: 4 x 6 entry points x {one certified planted-root case, one any-function case}. Certified: function family with planted simple root \
         (real/complex polynomials in product or Horner form, exp/cos/z^2/z^3 equations, a(x-r)+eps(phi(x)-phi(r)), strictly row-dominant systems A x + eps g(x) of dimension 1..6 with g in \
         sin/tanh/atan/exp/squares/cubes/products), largest ball with Kantorovich h<=1/4 (finite-difference and rounding error included), guess anywhere in the ball (incl. centre and boundary), \
         tol in 1e-12..1e-4 (raised until a certificate exists), limit = certified iterations (+ slack up to 50). Any-function: root-free, non-differentiable, discontinuous, constant, NaN/inf-producing, \
         cycling, slowly converging, singular and linear functions, tol incl. 0/NaN/inf/negative, delta incl. 0, limit 0..50. Unit 0 enumerates dyadic boundary cases (stopping quantity == tol). \
         A case is non-trivial when a certified demand was checked from a guess != root or when at least one (limit k, limit k+1) pair was compared by value against the model step; \
         distinct = hash of function description, configuration and limit.");
    rep.assumptions = vec![
        "user closures are deterministic, do not panic and return vectors/matrices of the right shape".into(),
        "the derivative bounds m1, M1, M2 of the planted families are computed analytically on the guess ball; evaluation noise of the closures is bounded by standard gamma_k*u models".into(),
        "equality of the stopping quantity with the tolerance counts as 'criterion met' (anchor: |dx| <= tol, ||F||inf <= tol)".into(),
        "a residual vector containing NaN does not satisfy ||F||inf <= tol".into(),
        "when the model Newton step is non-finite or ill-conditioned (kappa > 1e6, total cancellation in the difference quotient) any carried value is accepted; Ok with a non-finite point is then only counted (observed:*)".into(),
    ];
    rep.min_nontrivial = if ctx.quick() { 5_000 } else { 100_000 };
    let mut ex = J::obj();
    ex.set("exhaustive_parts", J::Arr(vec![J::s("unit 0: residual [0,..,0,NaN] at the guess, n=2..3 x tol in {1e-8,1e-4} x limit in {1,5} x 4 system entry points"), J::s("unit 0: boundary cases with stopping quantity == tol exactly: 3 roots x 3 tolerances x 3 slopes x 2 signs x 2 limits x {f64, Cmplx re/im offsets, real+complex diagonal systems n=1..3 x leading index x {solve, solve_jacobian}}")]));
    ex.set("entry_points", J::Arr(KINDS.iter().map(|k| J::s(&k.name())).collect()));
    rep.extra = ex;
    rep
}
