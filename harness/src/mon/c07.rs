//! C07 — sparse products equal dense products; transpose is the adjoint.
use crate::fl::{self, U};
use crate::model::vec_to_ohsl;
use crate::mon::c06::{gen_sm, SM};
use crate::mon::common::*;
use crate::rat::Rat;
use crate::rng::Rng;
use crate::run::{catch, par_run, Ctx, Outcome, Report, Stats};
use ohsl::{Sparse, Vector};

const TAG: u64 = 0xC07;
const PRIMES: [i64; 12] = [2, 3, 5, 7, 11, 13, 17, 19, 23, 29, 31, 37];

fn exact_case(st: &mut Stats, rng: &mut Rng, rows: usize, cols: usize) {
    st.next_case();
    let dens = *rng.pick(&[0.0, 0.15, 0.4, 0.8, 1.0]);
    let mut m = gen_sm(rng, rows, cols, dens, true);
    if rows > 1 && rng.chance(0.3) { let r0 = rng.usize(0, rows - 1); m.e.retain(|&(r, _), _| r != r0); }
    if cols > 1 && rng.chance(0.3) { let c0 = rng.usize(0, cols - 1); m.e.retain(|&(_, c), _| c != c0); }
    let d = m.dense();
    let dt = d.transpose();
    // distinct primes (signed) so that a wrong pairing of component and entry changes the result
    let mut p: Vec<i64> = PRIMES.to_vec(); rng.shuffle(&mut p);
    let x: Vec<Rat> = (0..cols).map(|j| Rat::int(if rng.bool() { p[j % 12] } else { -p[j % 12] })).collect();
    rng.shuffle(&mut p);
    let y: Vec<Rat> = (0..rows).map(|i| Rat::int(if rng.bool() { p[i % 12] } else { -p[i % 12] })).collect();
    let mut t = m.triplets(); rng.shuffle(&mut t);
    let desc = || format!("T=Rat {}x{} entries={:?} x={:?} y={:?}", rows, cols, m.triplets(), x, y);
    let s = if rng.chance(0.3) { let (val, ri, cs) = m.csc(rng, true); catch(|| Sparse::<Rat>::from_vecs(rows, cols, val, ri, cs)) } else { catch(|| Sparse::<Rat>::from_triplets(rows, cols, &mut t)) };
    let mut s = match s { Outcome::Ok(s) => s, o => { st.violation("C07:construct:panic", format!("{}; {}", o.describe(), desc())); return; } };
    let (xv, yv) = (vec_to_ohsl(&x), vec_to_ohsl(&y));
    let mut expect = |st: &mut Stats, name: &str, out: Outcome<Vector<Rat>>, want: &Vec<Rat>, extra: &str| -> Option<Vec<Rat>> {
        st.eval();
        match out {
            Outcome::Overflow => { st.count("skipped:rat-overflow"); None }
            Outcome::Ok(v) => { if &v.vec != want { st.violation(&format!("C07:{}:Rat:wrong-value", name), format!("{} = {:?} expected {:?}; {}{}", name, v.vec, want, extra, desc())); } Some(v.vec) }
            o => { st.violation(&format!("C07:{}:Rat:panic", name), format!("{} {}; {}{}", name, o.describe(), extra, desc())); None }
        }
    };
    let ax = d.mulvec(&x);
    let aty = dt.mulvec(&y);
    let r1 = expect(st, "multiply", catch(|| s.multiply(&xv)), &ax, "");
    let r2 = expect(st, "transpose_multiply", catch(|| s.transpose_multiply(&yv)), &aty, "");
    let r3 = match catch(|| s.transpose()) { Outcome::Ok(tr) => expect(st, "transpose().multiply", catch(|| tr.multiply(&yv)), &aty, ""), o => { st.violation("C07:transpose:Rat:panic", format!("{}; {}", o.describe(), desc())); None } };
    if let (Some(a), Some(b)) = (&r2, &r3) { if a != b { st.violation("C07:transpose-vs-transpose_multiply:Rat:disagree", desc()); } }
    // adjoint identity through library results only
    if let (Some(a), Some(b)) = (&r1, &r2) {
        let lhs = y.iter().zip(a).fold(Rat::ZERO, |acc, (p, q)| acc + *p * *q);
        let rhs = b.iter().zip(&x).fold(Rat::ZERO, |acc, (p, q)| acc + *p * *q);
        st.eval();
        if lhs != rhs { st.violation("C07:adjoint-identity:Rat", format!("<y,Ax>={:?} <A^T y,x>={:?}; {}", lhs, rhs, desc())); }
    }
    // scaling scales every product
    let f = Rat::int(*rng.pick(&[-3, -1, 2, 5, 0]));
    if let Outcome::Ok(()) = catch(|| s.scale(&f)) {
        let sax: Vec<Rat> = ax.iter().map(|v| *v * f).collect();
        let saty: Vec<Rat> = aty.iter().map(|v| *v * f).collect();
        let e = format!("after scale({:?}) ", f);
        expect(st, "scale+multiply", catch(|| s.multiply(&xv)), &sax, &e);
        expect(st, "scale+transpose_multiply", catch(|| s.transpose_multiply(&yv)), &saty, &e);
    } else { st.violation("C07:scale:Rat:panic", desc()); }
    st.count(&format!("shape:{}x{}", rows, cols));
    st.set_insert("nnz-seen", format!("{}", m.e.len()));
    if rows * cols >= 2 { let mut h = hash_str("rat") ^ (rows * 16 + cols) as u64; for (k, v) in &m.e { h = hmix(hmix(h, (k.0 * 16 + k.1) as u64), v.n as u64 ^ ((v.d as u64) << 20)); } st.nontrivial(hmix(h, x.iter().fold(0, |a, v| hmix(a, v.n as u64)))); }
    st.sample(|| desc());
}

fn float_case(st: &mut Stats, rng: &mut Rng, rows: usize, cols: usize) {
    st.next_case();
    let integer = rng.bool();
    let dens = *rng.pick(&[0.1, 0.4, 0.9]); let m: SM = gen_sm(rng, rows, cols, dens, false);
    let vals: Vec<((usize, usize), f64)> = m.e.keys().map(|&k| (k, if integer { rng.int(-20, 20) as f64 } else { rng.sym() * rng.logpos(1e-3, 1e3) })).collect();
    let x: Vec<f64> = (0..cols).map(|_| if integer { rng.int(-20, 20) as f64 } else { rng.sym() * rng.logpos(1e-3, 1e3) }).collect();
    let y: Vec<f64> = (0..rows).map(|_| if integer { rng.int(-20, 20) as f64 } else { rng.sym() }).collect();
    let mut t: Vec<(usize, usize, f64)> = vals.iter().map(|&((r, c), v)| (r, c, v)).collect();
    rng.shuffle(&mut t);
    let desc = || format!("T=f64 {}x{} entries={:?} x={:?} y={:?}", rows, cols, vals, x, y);
    let s = match catch(|| Sparse::<f64>::from_triplets(rows, cols, &mut t)) { Outcome::Ok(s) => s, o => { st.violation("C07:construct:panic", format!("{}; {}", o.describe(), desc())); return; } };
    let nnz = vals.len().max(1) as f64;
    let mut judge = |st: &mut Stats, name: &str, got: Outcome<Vector<f64>>, transposed: bool| {
        st.eval();
        let n_out = if transposed { cols } else { rows };
        match got {
            Outcome::Ok(v) => {
                if v.vec.len() != n_out { st.violation(&format!("C07:{}:f64:length", name), desc()); return; }
                for i in 0..n_out {
                    let mut sdd = fl::DD::ZERO; let mut mag = 0.0;
                    for &((r, c), a) in &vals { let (oi, ii) = if transposed { (c, r) } else { (r, c) }; if oi == i { let xv = if transposed { y[ii] } else { x[ii] }; sdd = sdd + fl::DD::prod(a, xv); mag += (a * xv).abs(); } }
                    let err = (fl::DD::from(v.vec[i]) - sdd).f().abs();
                    let tol = if integer { 0.0 } else { 4.0 * nnz * U * mag };
                    if !integer && mag > 0.0 { st.max("f64:err_over_tol", err / tol); }
                    if !(err <= tol) { st.violation(&format!("C07:{}:f64:wrong-value", name), format!("{}[{}] = {:e} expected {:e} (tol {:e}); {}", name, i, v.vec[i], sdd.f(), tol, desc())); return; }
                }
            }
            o => st.violation(&format!("C07:{}:f64:panic", name), format!("{}; {}", o.describe(), desc())),
        }
    };
    let (xv, yv) = (Vector::create(x.clone()), Vector::create(y.clone()));
    judge(st, "multiply", catch(|| s.multiply(&xv)), false);
    judge(st, "transpose_multiply", catch(|| s.transpose_multiply(&yv)), true);
    judge(st, "transpose().multiply", catch(|| s.transpose().multiply(&yv)), true);
    st.count(if integer { "cases:f64-integer" } else { "cases:f64-general" });
    if rows * cols >= 2 { st.nontrivial(hmix(hash_str("f64"), vals.iter().fold((rows * 16 + cols) as u64, |h, (_, v)| hmix(h, v.to_bits())))); }
}

/// products of one live sparse matrix after each step of an edit history (insert new / overwrite / scale / transpose):
/// every product must equal the dense product of the model at that moment
/// Near-twins: matrices of the same shape, entry count and column starts that differ from a base matrix in the row index of
/// ONE or TWO stored entries (every pair of positions, every admissible replacement row). base.transpose() is called right
/// before twin.transpose() on the same thread; the twin's transpose must be the twin's, whatever the library remembers of
/// the previous call (memoisation keyed on too little shows on minimal perturbations, not on random pairs).
fn near_twins(st: &mut Stats, rng: &mut Rng) {
    st.next_case();
    let (rows, cols) = (rng.usize(3, 8), rng.usize(2, 6));
    let dens = *rng.pick(&[0.5, 0.7, 0.9]);
    let m = gen_sm(rng, rows, cols, dens, false);
    let (val, ri, cs) = m.csc(rng, false);
    let nnz = val.len();
    if nnz < 2 || nnz > 30 { return; }
    let base = match catch(|| Sparse::<Rat>::from_vecs(rows, cols, val.clone(), ri.clone(), cs.clone())) { Outcome::Ok(b) => b, _ => return };
    let col_of: Vec<usize> = (0..nnz).map(|k| (0..cols).find(|&c| cs[c] <= k && k < cs[c + 1]).unwrap()).collect();
    let y: Vec<Rat> = (0..rows).map(|i| Rat::int(PRIMES[i % 12] * if i % 2 == 0 { 1 } else { -1 })).collect();
    let admissible = |ri: &Vec<usize>, k: usize, r: usize| -> bool { r != ri[k] && !(cs[col_of[k]]..cs[col_of[k] + 1]).any(|q| q != k && ri[q] == r) };
    let mut check = |st: &mut Stats, ri2: &Vec<usize>, what: String| -> bool {
        let twin = match catch(|| Sparse::<Rat>::from_vecs(rows, cols, val.clone(), ri2.clone(), cs.clone())) { Outcome::Ok(t) => t, _ => return true };
        let _ = catch(|| base.transpose());
        st.eval();
        let want: Vec<Rat> = (0..cols).map(|c| (cs[c]..cs[c + 1]).fold(Rat::ZERO, |a, k| a + val[k] * y[ri2[k]])).collect();
        match catch(|| twin.transpose().multiply(&vec_to_ohsl(&y)).vec) {
            Outcome::Ok(got) => if got != want { st.violation("C07:near-twins:transpose().multiply:Rat:wrong-value", format!("{}: base.transpose() then twin.transpose().multiply(y) = {:?}, expected A^T y = {:?}; {}x{} val={:?} row_index(base)={:?} row_index(twin)={:?} col_start={:?}", what, got, want, rows, cols, val, ri, ri2, cs)); return false; },
            Outcome::Overflow => {}
            o => { st.violation("C07:near-twins:transpose:panic", format!("{}: {}; row_index(base)={:?} row_index(twin)={:?} col_start={:?}", what, o.describe(), ri, ri2, cs)); return false; }
        }
        true
    };
    let mut n = 0u64;
    'outer: for p0 in 0..nnz {
        for r0 in 0..rows {
            if !admissible(&ri, p0, r0) { continue; }
            let mut r1v = ri.clone(); r1v[p0] = r0;
            n += 1; if !check(st, &r1v, format!("one entry moved (position {} -> row {})", p0, r0)) { break 'outer; }
            for q0 in p0 + 1..nnz {
                for r1 in 0..rows {
                    if !admissible(&r1v, q0, r1) { continue; }
                    let mut r2v = r1v.clone(); r2v[q0] = r1;
                    n += 1; if !check(st, &r2v, format!("two entries moved (positions {},{} -> rows {},{})", p0, q0, r0, r1)) { break 'outer; }
                }
            }
        }
    }
    st.add("near-twins:pairs-checked", n);
    st.nontrivial(hmix(hash_str("near-twins"), rng.u64()));
}

fn history_case(st: &mut Stats, rng: &mut Rng, rows: usize, cols: usize) {
    if rows == 0 || cols == 0 { return; }
    st.next_case();
    if rng.chance(0.2) { crate::mon::c06::rejected_calls(st, rng); }
    let dens = *rng.pick(&[0.1, 0.3, 0.3, 0.6, 1.0]);
    let zeros = rng.chance(0.3);
    let mut m = gen_sm(rng, rows, cols, dens, zeros);
    let hot = rng.usize(0, 10);
    let mut t = m.triplets(); rng.shuffle(&mut t);
    let mut s = match catch(|| Sparse::<Rat>::from_triplets(rows, cols, &mut t)) { Outcome::Ok(s) => s, _ => return };
    let mut log: Vec<String> = vec![format!("start {}x{} {:?}", rows, cols, m.triplets())];
    for _ in 0..rng.usize(2, 14) {
        match rng.below(4) {
            0 | 1 => { let (r, c) = (rng.usize(0, m.rows - 1), if rng.bool() { hot % m.cols } else { rng.usize(0, m.cols - 1) }); let v = Rat::int(rng.int(-9, 9)); log.push(format!("insert({},{},{:?})", r, c, v)); m.e.insert((r, c), v); if !catch(|| s.insert(r, c, v)).is_ok() { st.violation("C07:history:insert:panic", format!("{:?}", log)); return; } }
            2 => { let f = Rat::int(*rng.pick(&[-2, 3, 0, -1])); log.push(format!("scale({:?})", f)); for v in m.e.values_mut() { *v = *v * f; } if !catch(|| s.scale(&f)).is_ok() { st.violation("C07:history:scale:panic", format!("{:?}", log)); return; } }
            _ => { log.push("transpose()".into()); m = m.transpose(); match catch(|| s.transpose()) { Outcome::Ok(x) => s = x, _ => { st.violation("C07:history:transpose:panic", format!("{:?}", log)); return; } } }
        }
        let d = m.dense();
        let x: Vec<Rat> = (0..m.cols).map(|j| Rat::int(PRIMES[j % 12] * if rng.bool() { 1 } else { -1 })).collect();
        let y: Vec<Rat> = (0..m.rows).map(|i| Rat::int(PRIMES[(i + 5) % 12])).collect();
        st.eval();
        match (catch(|| s.multiply(&vec_to_ohsl(&x))), catch(|| s.transpose_multiply(&vec_to_ohsl(&y)))) {
            (Outcome::Ok(p), Outcome::Ok(q)) => if p.vec != d.mulvec(&x) || q.vec != d.transpose().mulvec(&y) { st.violation("C07:history:products-differ-from-dense", format!("A x = {:?} (dense {:?}), A^T y = {:?} (dense {:?}) after {:?}", p.vec, d.mulvec(&x), q.vec, d.transpose().mulvec(&y), log)); return; },
            (Outcome::Overflow, _) | (_, Outcome::Overflow) => return,
            (a, b) => { st.violation("C07:history:product:panic", format!("{} / {} after {:?}", a.describe(), b.describe(), log)); return; }
        }
    }
    st.count("histories");
}

pub fn run(ctx: &Ctx) -> Report {
    let nshape = 121u64; // [0,10]^2
    let reps = ctx.vol(10_000, 600_000);
    // plus long shapes (11..48 rows/columns, drawn per unit): "every rectangular shape" does not stop at 10
    let nlong = 48u64;
    let stats = par_run(ctx, TAG, nshape + nlong, |u, rng, st| {
        if u >= nshape {
            let (r, c) = (rng.usize(11, 48), rng.usize(11, 48));
            for _ in 0..(reps / 16).max(50) { exact_case(st, rng, r, c); float_case(st, rng, r, c); history_case(st, rng, r, c); }
            st.count("long-shape-units(11..48)");
            return;
        }
        let (r, c) = ((u / 11) as usize, (u % 11) as usize);
        for _ in 0..reps { exact_case(st, rng, r, c); float_case(st, rng, r, c); history_case(st, rng, r, c); }
        near_twins(st, rng);
        if u == 0 { for gap in [253usize, 254, 255, 256, 257, 65532, 65533, 65534, 65535, 65536, 65537] { crate::mon::c06::epoch_probe(st, rng, gap); } }
    });
    let mut rep = Report::new(stats,
        "[round 6: plus 48 units of long shapes, rows and cols drawn from 11..48, same three case kinds] for every shape (rows,cols) in [0,10]^2: random duplicate-free patterns (densities 0..1, forced empty rows/columns, explicit zeros, triplets shuffled or raw CSC with scrambled rows); vectors of distinct signed primes; multiply, transpose_multiply, transpose().multiply, adjoint identity <y,Ax>=<A^T y,x>, and all products again after scale(f) — exact over Rat; f64: integer data exact, general data within 4*nnz*u*sum|a||x| of a double-double reference. Plus edit histories on one live matrix (insert/overwrite/scale/transpose) with both products checked against the dense model after every step. Non-trivial: at least 2 cells; distinct = distinct (shape, entries, x) hashes");
    rep.assumptions = vec!["dense reference = model built from the same entry map".into()];
    rep.min_nontrivial = 1000;
    rep.extra.set("exhaustive_parts", crate::json::J::Arr(vec![crate::json::J::s("shapes [0,10]^2")]));
    rep
}
