//! C16 — threaded dot product equals the sequential one for every length and CPU count.
//! Native part: CPU-affinity sweep (worker count 1..K), exhaustive lengths, hook H3 partition /
//! completion-order monitor, injected per-worker delays, background load. (Miri/TSan stages: stages.py)
use crate::fl::U;
use crate::json::J;
use crate::mon::common::*;
use crate::rng::Rng;
use crate::run::{catch, par_run, Ctx, Outcome, Report, Stats};
use ohsl::verif::{self, Event};
use ohsl::Vector;
use std::cell::RefCell;
use std::rc::Rc;
use std::sync::atomic::{AtomicBool, Ordering};
use std::sync::Arc;

const TAG: u64 = 0xC16;

pub fn allowed_cpus() -> Vec<usize> {
    unsafe {
        let mut set: libc::cpu_set_t = std::mem::zeroed();
        if libc::sched_getaffinity(0, std::mem::size_of::<libc::cpu_set_t>(), &mut set) != 0 { return vec![]; }
        (0..libc::CPU_SETSIZE as usize).filter(|&c| libc::CPU_ISSET(c, &set)).collect()
    }
}
pub fn pin_to(cpus: &[usize]) -> bool {
    unsafe {
        let mut set: libc::cpu_set_t = std::mem::zeroed();
        for &c in cpus { libc::CPU_SET(c, &mut set); }
        libc::sched_setaffinity(0, std::mem::size_of::<libc::cpu_set_t>(), &set) == 0
    }
}

#[derive(Default, Clone)]
struct DotObs { begin: Option<(usize, usize)>, chunks: Vec<(usize, usize, usize)>, done: Vec<(usize, usize)>, ended: bool }

fn observed_dot(a: &Vector<f64>, b: &Vector<f64>) -> (Outcome<f64>, DotObs) {
    let obs = Rc::new(RefCell::new(DotObs::default()));
    let o2 = obs.clone();
    verif::set_sink(Box::new(move |ev| {
        let mut o = o2.borrow_mut();
        match ev {
            Event::DotBegin { len, workers } => o.begin = Some((len, workers)),
            Event::DotChunk { worker, start, end } => o.chunks.push((worker, start, end)),
            Event::DotDone { worker, ticket } => o.done.push((worker, ticket)),
            Event::DotEnd => o.ended = true,
            _ => {}
        }
    }));
    let r = catch(|| a.dot_f64(b));
    verif::clear_sink();
    let o = obs.borrow().clone();
    (r, o)
}

/// conservation monitor over the hook events of one call: the chunks partition [0,len) exactly once, in order
fn check_partition(o: &DotObs, len: usize, k: usize) -> Result<String, String> {
    let (l, w) = o.begin.ok_or("no DotBegin event")?;
    if l != len { return Err(format!("DotBegin len {} != {}", l, len)); }
    // (the worker count need not equal the CPU count: using fewer workers for short vectors would be legitimate;
    //  it is reported as evidence by the caller, not judged)
    let _ = k;
    if o.chunks.len() != w { return Err(format!("{} chunks for {} workers", o.chunks.len(), w)); }
    let mut c = o.chunks.clone();
    c.sort();
    let mut pos = 0;
    for (i, &(wk, s, e)) in c.iter().enumerate() {
        if wk != i { return Err(format!("chunk worker ids not 0..w: {:?}", c)); }
        if s != pos || e < s { return Err(format!("chunks do not tile [0,{}): {:?}", len, c)); }
        pos = e;
    }
    if pos != len { return Err(format!("chunks end at {} not {}: {:?}", pos, len, c)); }
    if o.done.len() != w || !o.ended { return Err(format!("{} completion events for {} workers (ended={})", o.done.len(), w, o.ended)); }
    let mut d = o.done.clone();
    d.sort_by_key(|x| x.1);
    if d.iter().enumerate().any(|(i, x)| x.1 != i) { return Err(format!("tickets not a permutation: {:?}", d)); }
    let mut ws: Vec<usize> = d.iter().map(|x| x.0).collect();
    let order = ws.iter().map(|x| x.to_string()).collect::<Vec<_>>().join(",");
    ws.sort();
    if ws.iter().enumerate().any(|(i, x)| *x != i) { return Err(format!("completion workers not a permutation: {:?}", d)); }
    Ok(order)
}

fn exact_int_dot(a: &[f64], b: &[f64]) -> i128 { a.iter().zip(b).map(|(x, y)| (*x as i128) * (*y as i128)).sum() }

fn datasets(rng: &mut Rng, len: usize) -> Vec<(&'static str, Vec<f64>, Vec<f64>)> {
    let big = len > 4000;
    // (i) integer data, all products distinct, all partial sums exact (< 2^53)
    let a1: Vec<f64> = (0..len).map(|i| (i + 1) as f64).collect();
    let b1: Vec<f64> = (0..len).map(|i| if big { 1.0 } else { (2 * i + 1) as f64 }).collect();
    // (ii) signed integers with cancellation
    let a2: Vec<f64> = (0..len).map(|i| ((i % 97) as f64 + 1.0) * if i % 2 == 0 { 1.0 } else { -1.0 }).collect();
    let b2: Vec<f64> = (0..len).map(|i| ((i * 7) % 89) as f64 + 1.0).collect();
    // (iii) general floats
    let a3: Vec<f64> = (0..len).map(|_| rng.sym() * rng.logpos(1e-3, 1e3)).collect();
    let b3: Vec<f64> = (0..len).map(|_| rng.sym()).collect();
    // (iv) exact data of extreme dynamic range: a_i = 2^e_i, b_i = s_i * 2^-e_i with e_i in [-600, 600] and small integers s_i:
    //      every product is the integer s_i, every partial sum is exact, whatever the partition
    let es: Vec<i32> = (0..len).map(|_| rng.int(-600, 600) as i32).collect();
    let a4: Vec<f64> = es.iter().map(|e| 2f64.powi(*e)).collect();
    let b4: Vec<f64> = es.iter().map(|e| rng.int(-9, 9) as f64 * 2f64.powi(-*e)).collect();
    vec![("distinct-integer-products", a1, b1), ("signed-integers", a2, b2), ("general-floats", a3, b3), ("wide-range-exact", a4, b4)]
}

fn one_config(st: &mut Stats, rng: &mut Rng, k: usize, len: usize, delays: bool, only: Option<usize>) {
    for (di, (name, a, b)) in datasets(rng, len).into_iter().enumerate() {
        if let Some(o) = only { if o != di { continue; } }
        st.next_case();
        let (va, vb) = (Vector::create(a.clone()), Vector::create(b.clone()));
        let desc = || format!("workers={} len={} data={} delays={}", k, len, name, delays);
        let seq = match catch(|| va.dot(&vb)) { Outcome::Ok(x) => x, o => { st.violation("C16:dot:panic", format!("{}; {}", o.describe(), desc())); continue; } };
        let reps = if len >= (1 << 22) { 4 } else { 2 };
        let mut first: Option<u64> = None;
        for r in 0..reps {
            if delays { verif::set_dot_delays((0..k).map(|_| if rng.chance(0.5) { rng.below(120) } else { 0 }).collect()); } else { verif::set_dot_delays(vec![]); }
            let (out, obs) = observed_dot(&va, &vb);
            st.eval();
            let v = match out { Outcome::Ok(v) => v, o => { st.violation("C16:dot_f64:panic", format!("{}; {}", o.describe(), desc())); break; } };
            // hook monitor
            match check_partition(&obs, len, k) {
                Ok(order) => { st.set_insert(&format!("completion-orders:w{}", k), order); st.count("hook:partitions-checked"); if obs.begin.map(|b| b.1) != Some(k) { st.count("hook:worker-count-differs-from-cpu-count"); } }
                Err(e) => { if obs.begin.is_none() { st.count("hook:silent"); } else { st.violation("C16:dot_f64:partition", format!("{}; {}", e, desc())); } }
            }
            // value oracles
            if name == "wide-range-exact" {
                let ex: f64 = a.iter().zip(&b).map(|(x, y)| x * y).sum(); // integers below 2^53: exact in any order
                if v.to_bits() != seq.to_bits() || v != ex { st.violation("C16:dot_f64:wrong-value-exact-data", format!("dot_f64 = {:e}, dot = {:e}, exact = {:e} (products are small integers, factors 2^+-600); {}", v, seq, ex, desc())); }
            } else if name != "general-floats" {
                let ex = exact_int_dot(&a, &b);
                if v.to_bits() != seq.to_bits() || v != ex as f64 || (ex as f64) as i128 != ex {
                    st.violation("C16:dot_f64:wrong-value-exact-data", format!("dot_f64 = {:e}, dot = {:e}, exact integer = {}; {}", v, seq, ex, desc()));
                }
            } else {
                let mag: f64 = a.iter().zip(&b).map(|(x, y)| (x * y).abs()).sum();
                let tol = 2.0 * len as f64 * U * mag;
                if mag > 0.0 { st.max("general:diff_over_tol", (v - seq).abs() / tol); }
                if !((v - seq).abs() <= tol) { st.violation("C16:dot_f64:wrong-value-general-data", format!("dot_f64 = {:e}, dot = {:e}, tol {:e}; {}", v, seq, tol, desc())); }
            }
            match first { None => first = Some(v.to_bits()), Some(f) => if f != v.to_bits() { st.violation("C16:dot_f64:schedule-dependent", format!("call {} returned {:e}, first call {:e}; {}", r, v, f64::from_bits(f), desc())); } }
        }
        verif::set_dot_delays(vec![]);
        st.sample(|| format!("{} dot_f64 bits {:x?} a[..4]={:?} b[..4]={:?}", desc(), first, &a[..a.len().min(4)], &b[..b.len().min(4)]));
        st.count(&format!("configs:w{}", k));
        st.set_insert("lengths-mod-workers", format!("w{}:{}", k, if len < k { "len<w".to_string() } else if len % k == 0 { "divisible".to_string() } else { "remainder".to_string() }));
        st.nontrivial(hmix(hmix(hash_str(name), (k * 1_000_000 + len) as u64), delays as u64));
    }
}

/// Concurrent callers: several user threads, each pinned to its own pair of CPUs (2 workers per call), call dot_f64
/// on their own exact-integer data at the same time. Covers state shared between calls (static scratch areas, caches)
/// and narrow publication windows inside one call; bounded by a call count, not by time.
fn concurrent_callers(ctx: &Ctx, cpus: &[usize]) -> Stats {
    let pairs: Vec<Vec<usize>> = cpus.chunks(2).filter(|c| c.len() == 2).take(8).map(|c| c.to_vec()).collect();
    let calls = ctx.vol(30_000, 400_000);
    let total = std::sync::Mutex::new(Stats::default());
    if pairs.len() < 2 { let mut st = Stats::default(); st.count("skipped:concurrent-callers-need-4-cpus"); return st; }
    let nthreads = pairs.len();
    let pairs_ref = &pairs;
    std::thread::scope(|s| {
        for t in 0..nthreads {
            let total = &total;
            let pair: &Vec<usize> = &pairs_ref[t];
            s.spawn(move || {
                let mut st = Stats::default();
                st.unit = 1_000_000 + t as u64;
                if !pin_to(pair) { st.count("skipped:affinity-not-effective"); total.lock().unwrap().merge(st); return; }
                let mut rng = Rng::new(crate::rng::mix(ctx.seed, 0xC16_57 + t as u64));
                // a few data sets per thread, all different between threads
                let lens: Vec<usize> = (0..6).map(|i| if i < 4 { rng.usize(150, 199) } else { rng.usize(2000, 40_000) }).collect();
                let sets: Vec<(Vector<f64>, Vector<f64>, f64)> = lens.iter().map(|&len| {
                    let a: Vec<f64> = (0..len).map(|i| ((i % 1000) + 1 + t) as f64).collect();
                    let b: Vec<f64> = (0..len).map(|i| (((i * 7 + t) % 13) as f64 + 1.0) * if (i + t) % 3 == 0 { -1.0 } else { 1.0 }).collect();
                    let ex = exact_int_dot(&a, &b) as f64;
                    (Vector::create(a), Vector::create(b), ex)
                }).collect();
                for c in 0..calls {
                    let (a, b, ex) = &sets[(c % 6) as usize];
                    st.case = c;
                    st.eval();
                    match catch(|| a.dot_f64(b)) {
                        Outcome::Ok(v) => if v.to_bits() != ex.to_bits() {
                            st.violation("C16:dot_f64:concurrent-callers:wrong-value", format!("caller thread {} (CPUs {:?}), call {}, len {}: dot_f64 = {:e}, exact = {:e} while {} other threads call dot_f64 on their own data", t, pair, c, a.size(), v, ex, nthreads - 1));
                            if st.nviol > 5 { break; }
                        },
                        o => { st.violation("C16:dot_f64:concurrent-callers:panic", o.describe()); break; }
                    }
                }
                st.add("concurrent-callers:calls", st.evals);
                st.nontrivial(hmix(hash_str("concurrent-callers"), t as u64));
                total.lock().unwrap().merge(st);
            });
        }
    });
    let mut st = total.into_inner().unwrap();
    st.add("concurrent-callers:threads", pairs.len() as u64);
    st
}

/// More callers than CPUs: 3k caller threads share one window of k CPUs (so every call uses k workers) and call dot_f64
/// on GENERAL floating-point data. The partition, hence the rounding, may depend on k only: every result must be
/// bit-identical to what a single caller obtained under the same affinity before the crowd started.
fn oversubscribed_callers(ctx: &Ctx, cpus: &[usize]) -> Stats {
    let mut out = Stats::default();
    out.unit = 2_000_000;
    let k = cpus.len().min(4);
    if k < 2 { out.count("skipped:oversubscribed-callers-need-2-cpus"); return out; }
    let window: Vec<usize> = cpus[..k].to_vec();
    let mut rng = Rng::new(crate::rng::mix(ctx.seed, 0xC16_0E));
    let lens = [200usize, 199, 163, 1000, 4099, rng.usize(150, 199), rng.usize(201, 3000)];
    let sets: Vec<(Vector<f64>, Vector<f64>)> = lens.iter().map(|&len| (Vector::create((0..len).map(|_| rng.sym() * rng.logpos(1e-3, 1e3)).collect()), Vector::create((0..len).map(|_| rng.sym()).collect()))).collect();
    // single-caller reference under the same affinity
    let w2 = window.clone();
    let sets_ref = &sets;
    let refs: Option<Vec<u64>> = std::thread::scope(|s| s.spawn(move || { if !pin_to(&w2) { return None; } Some(sets_ref.iter().map(|(a, b)| a.dot_f64(b).to_bits()).collect()) }).join().ok().flatten());
    let refs = match refs { Some(r) => r, None => { out.count("skipped:affinity-not-effective"); return out; } };
    let nthreads = 3 * k;
    let calls = ctx.vol(150, 4000);
    let total = std::sync::Mutex::new(out);
    std::thread::scope(|s| {
        for t in 0..nthreads {
            let (total, window, refs) = (&total, &window, &refs);
            s.spawn(move || {
                let mut st = Stats::default();
                st.unit = 2_000_000 + t as u64;
                if !pin_to(window) { st.count("skipped:affinity-not-effective"); total.lock().unwrap().merge(st); return; }
                for c in 0..calls {
                    let i = ((c + t as u64) % sets_ref.len() as u64) as usize;
                    let (a, b) = &sets_ref[i];
                    st.case = c;
                    st.eval();
                    match catch(|| a.dot_f64(b)) {
                        Outcome::Ok(v) => if v.to_bits() != refs[i] {
                            st.violation("C16:dot_f64:oversubscribed-callers:load-dependent", format!("caller {} of {} sharing CPUs {:?}, call {}, len {}: dot_f64 = {:?} ({:x}), a single caller under the same affinity got {:?} ({:x})", t, nthreads, window, c, a.size(), v, v.to_bits(), f64::from_bits(refs[i]), refs[i]));
                            if st.nviol > 5 { break; }
                        },
                        o => { st.violation("C16:dot_f64:oversubscribed-callers:panic", o.describe()); break; }
                    }
                }
                st.add("oversubscribed-callers:calls", st.evals);
                st.nontrivial(hmix(hash_str("oversubscribed-callers"), t as u64));
                total.lock().unwrap().merge(st);
            });
        }
    });
    let mut st = total.into_inner().unwrap();
    st.add("oversubscribed-callers:threads", nthreads as u64);
    st.add("oversubscribed-callers:cpus", k as u64);
    st
}

pub fn run(ctx: &Ctx) -> Report {
    let cpus = allowed_cpus();
    let kmax = cpus.len().min(16);
    // hook liveness
    let (_, obs) = observed_dot(&Vector::create(vec![1.0, 2.0, 3.0]), &Vector::create(vec![1.0, 1.0, 1.0]));
    let hook_live = obs.begin.is_some() && obs.ended;
    // background load for the second half of the run (different OS scheduling pressure)
    let stop = Arc::new(AtomicBool::new(false));
    let mut spinners = vec![];
    let block = 8usize; // lengths per unit
    let nblocks = (201 + block - 1) / block;
    let exhaustive_units = (kmax * nblocks * 2) as u64; // x2: without / with injected delays
    let random_units = ctx.vol(24, 2000);
    // very long vectors (2^22 .. 2^23 elements: dynamic load balancing / work stealing is only worth it there), two worker counts
    let long_lens: Vec<(usize, usize)> = { let mut v = vec![]; for k in [2usize, kmax.max(2)] { for len in [1usize << 22, (1 << 22) + 1, (1 << 23) - 1] { v.push((k.min(kmax.max(1)), len)); } } if ctx.quick() { v.truncate(4); } v };
    let long_units = if kmax >= 2 { long_lens.len() as u64 } else { 0 };
    let affinity_fail = std::sync::atomic::AtomicUsize::new(0);
    let mut ctx2 = ctx.clone();
    ctx2.threads = ctx.threads.min(8); // each monitor thread spawns up to 16 workers per call
    // two background threads alternating ~1 ms of spinning with ~1 ms of sleep (unpinned): OS-level scheduling pressure
    for _ in 0..2 { let s = stop.clone(); spinners.push(std::thread::spawn(move || { let mut x = 0u64; while !s.load(Ordering::Relaxed) { let t = std::time::Instant::now(); while t.elapsed().as_micros() < 1000 { for _ in 0..1000 { x = x.wrapping_mul(6364136223846793005).wrapping_add(1); } } if x == 42 { std::thread::yield_now(); } std::thread::sleep(std::time::Duration::from_millis(1)); } })); }
    let stats = par_run(&ctx2, TAG, exhaustive_units + random_units + long_units, |u, rng, st| {
        if u >= exhaustive_units + random_units {
            let (k, len) = long_lens[(u - exhaustive_units - random_units) as usize];
            let window: Vec<usize> = (0..k).map(|i| cpus[i % cpus.len()]).collect();
            if !pin_to(&window) || num_cpus_now() != k { st.count("skipped:affinity-not-effective"); return; }
            one_config(st, rng, k, len, false, Some(2)); // general floats, three calls compared bit for bit
            one_config(st, rng, k, len, false, Some(0)); // exact integer products
            st.count("very-long-vector-configs");
            return;
        }
        let (k, lens, delays): (usize, Vec<usize>, bool) = if u < exhaustive_units {
            let v = u as usize;
            let delays = v % 2 == 1;
            let k = (v / 2) % kmax + 1;
            let blk = v / 2 / kmax;
            (k, (blk * block..((blk + 1) * block).min(201)).collect(), delays)
        } else {
            let k = rng.usize(1, kmax);
            // (plus a length at a power-of-two block boundary per worker, B*k*j + {-1,0,1}, B in {4096, 65536}: blocked inner loops)
            let blk = *rng.pick(&[4096usize, 65536]) * k * rng.usize(1, 2);
            (k, vec![rng.usize(201, 3000), if ctx.quick() { rng.usize(3000, 40_000) } else { rng.usize(3000, 200_000) }, k * rng.usize(1, 50), k * rng.usize(1, 50) + rng.usize(1, k), blk + rng.usize(0, 2) - 1], rng.bool())
        };
        // a rotating window of k CPUs (spreads the monitor threads over the machine)
        let off = (u as usize * 5) % cpus.len();
        let window: Vec<usize> = (0..k).map(|i| cpus[(off + i) % cpus.len()]).collect();
        if !pin_to(&window) || num_cpus_now() != k { affinity_fail.fetch_add(1, Ordering::SeqCst); st.count("skipped:affinity-not-effective"); return; }
        // quick: every (k, len) with one data set (rotating) and delays on alternate lengths (thread creation costs
        // ~10 ms per 16-worker call in this VM); thorough: all three data sets in both delay modes
        for len in lens {
            if ctx.quick() && u < exhaustive_units { if delays { continue; } one_config(st, rng, k, len, (len + k) % 2 == 1, Some((len + k) % 4)); }
            else { one_config(st, rng, k, len, delays, None); }
        }
    });
    stop.store(true, Ordering::Relaxed);
    for s in spinners { let _ = s.join(); }
    let mut stats = stats;
    if ctx.only_unit.is_none() || ctx.only_unit.map_or(false, |u| u >= 1_000_000) { stats.merge(concurrent_callers(ctx, &cpus)); stats.merge(oversubscribed_callers(ctx, &cpus)); }
    let mut rep = Report::new(stats,
        "for every worker count k=1..K (K = CPUs in the initial affinity mask, 16 here; the monitor thread pins itself to k CPUs and confirms num_cpus::get()==k) and every length 0..200 (exhaustive) plus random longer lengths (multiples of k, multiples plus remainder, up to 4e4 quick / 2e5 thorough): four data sets (distinct integer products with exact partial sums, signed integers, general floats, exact data of extreme dynamic range a_i=2^e_i, b_i=s_i*2^-e_i with |e_i|<=600; quick tier: one data set per (k,len), rotating), each call made twice, half of the configurations with pseudo-random per-worker delays injected through hook H3, two duty-cycled background spinner threads throughout. Judged: bit-equality with dot() and the exact i128 dot product on exact data, |diff|<=2*len*u*sum|ab| on general data, bit-identical repeats; hook events: chunks tile [0,len) exactly once in order, chunk count == worker count (its relation to the CPU count is recorded, not judged), completion tickets form a permutation (distinct completion orders are reported per worker count). Plus a concurrent-callers phase: 8 user threads pinned to disjoint CPU pairs call dot_f64 on their own exact data simultaneously (30k calls each quick, 400k thorough), every result bit-equal to the exact integer dot product. Plus an oversubscribed phase: 3k caller threads share one window of k=4 CPUs and call dot_f64 on general floating-point data (150 calls each quick, 4000 thorough); every result must be bit-identical to the value a single caller obtained under the same affinity. Non-trivial: every (k,len,data,delay) configuration; distinct = that tuple");
    rep.assumptions = vec!["worker count is set through sched_setaffinity on the calling thread (what num_cpus::get() reads)".into(), "Miri/TSan stages are run by the check wrapper (see sanitizer_stages in the evidence)".into()];
    rep.min_nontrivial = if ctx.quick() { 2000 } else { 15_000 };
    let mut ex = J::obj();
    ex.set("max_workers", J::UInt(kmax as u64));
    ex.set("exhaustive_parts", J::Arr(vec![J::s(&format!("worker counts 1..{} x lengths 0..200 x {{no delays, injected delays}}", kmax))]));
    rep.extra = ex;
    if !hook_live { rep.inconclusive.push("hook-H3-dot-silent".into()); }
    if kmax < 2 { rep.inconclusive.push("fewer-than-2-cpus-available".into()); }
    if affinity_fail.load(Ordering::SeqCst) > 0 { rep.inconclusive.push("affinity-not-effective".into()); }
    rep
}

fn num_cpus_now() -> usize {
    // same source as num_cpus::get() on Linux: the calling thread's affinity mask
    allowed_cpus().len()
}
