pub mod common;
pub mod c01;
pub mod c02;
pub mod c03;
pub mod c04;
pub mod c05;
pub mod c06;
pub mod c07;
pub mod c08;
pub mod c09;
pub mod c10;
pub mod c11;
pub mod c12;
pub mod c13;
pub mod c14;
pub mod c15;
pub mod c16;
pub mod c17;
pub mod c18;
pub mod c19;
pub mod c20;

use crate::run::{Ctx, Report};
pub type MonFn = fn(&Ctx) -> Report;

pub fn registry() -> Vec<(&'static str, MonFn)> {
    vec![
        ("C01", c01::run as MonFn),
        ("C02", c02::run as MonFn),
        ("C03", c03::run as MonFn),
        ("C04", c04::run as MonFn),
        ("C05", c05::run as MonFn),
        ("C06", c06::run as MonFn),
        ("C07", c07::run as MonFn),
        ("C08", c08::run as MonFn),
        ("C09", c09::run as MonFn),
        ("C10", c10::run as MonFn),
        ("C11", c11::run as MonFn),
        ("C12", c12::run as MonFn),
        ("C13", c13::run as MonFn),
        ("C14", c14::run as MonFn),
        ("C15", c15::run as MonFn),
        ("C16", c16::run as MonFn),
        ("C17", c17::run as MonFn),
        ("C18", c18::run as MonFn),
        ("C19", c19::run as MonFn),
        ("C20", c20::run as MonFn),
    ]
}
