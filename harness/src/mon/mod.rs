pub mod common;
pub mod c01;

use crate::run::{Ctx, Report};
pub type MonFn = fn(&Ctx) -> Report;

pub fn registry() -> Vec<(&'static str, MonFn)> {
    vec![
        ("C01", c01::run as MonFn),
    ]
}
