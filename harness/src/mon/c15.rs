//! C15 — Vector arithmetic, reductions, norms, edits match their definitions under any history.
//!
//! Oracle: every library value is mapped to an exact complex rational (`CRat`) and compared with
//! textbook definitions coded here on plain `Vec`s. The real generic code is instantiated at
//! `Rat`, `CRat` (Copy exact complex), `ohsl::Complex<Rat>` (Clone-only impls, conj/real), `i64`
//! (histories), and at `f64` / `Complex<f64>` on exactly representable (small dyadic) data where a
//! certificate computed by the generator guarantees that every intermediate is exact in binary64.
//! Inherently numerical parts (2-/p-norms, complex modulus, linspace/powspace) are judged against
//! double-double oracles with the fixed tolerances below.
use crate::fl::{hexf, DD, U};
use crate::json::J;
use crate::mon::common::{hash_str, hmix};
use crate::rat::{CRat, Rat};
use crate::rng::Rng;
use crate::run::{catch, par_run, Ctx, Outcome, Report, Stats};
use ohsl::{Cmplx, Complex, Number, Signed, Vector};
use std::cmp::Ordering;
use std::fmt::Debug;
use std::ops::Neg;

const TAG: u64 = 0xC15;

// ---------------------------------------------------------------- fixed tolerances
/// relative tolerance of a p-norm of n terms whose true value is N: NORM_K*(n+8+|ln N|)*u
/// (n: summation, 8: pow/sqrt/root roundings, |ln N|: rounding of the exponent 1/p in powf(S,1/p)).
const NORM_K: f64 = 128.0;
/// complex modulus |z| (sqrt of an f64 sum of squares) and max-modulus norm: relative MOD_TOL
const MOD_TOL: f64 = 256.0 * U;
/// linspace/powspace elements: SPACE_K*(4u|b-a| + u*max(|a|,|b|)) absolute
const SPACE_K: f64 = 128.0;
/// strict monotonicity of a generated sequence is demanded when the true increment is at least
/// STRICT_K*u*max(|a|,|b|) (weak monotonicity is demanded always)
const STRICT_K: f64 = 32.0;
/// exact-in-binary64 certificate: all intermediates are integers*2^-s below 2^EXACT_BITS
const EXACT_BITS: f64 = 50.0;
const MAXLEN: usize = 64;

fn norm_rtol(n: usize, true_norm: f64) -> f64 {
    let l = if true_norm > 0.0 { true_norm.ln().abs() } else { 0.0 };
    NORM_K * (n as f64 + 8.0 + l) * U
}

// ---------------------------------------------------------------- element abstraction
type CxR = Complex<Rat>;

/// Element types the real ohsl code is instantiated at. `to_m` is the exact value.
trait El: Clone + PartialEq + Debug + 'static {
    const NAME: &'static str;
    const FLOAT: bool;
    const CAN_SORT: bool = false;
    const CAN_RESIZE: bool = false;
    const CAN_ASSIGN: bool = false;
    /// exact value; None when not finite / outside the exact type's range
    fn to_m(&self) -> Option<CRat>;
    /// Some(x) iff the exact value is representable in the type
    fn from_m(m: &CRat) -> Option<Self>;
    /// identity (bit pattern) for lock-step comparison of pure data movement
    fn id(&self) -> [u128; 4];
    fn gen(rng: &mut Rng, flavour: u32) -> Self;
    /// the type's own ordering (total on generated data)
    fn pcmp(a: &Self, b: &Self) -> Ordering;
    /// definition of the element absolute value used by abs()/norm_1() (None: numerical, judged elsewhere)
    fn abs_m(_m: &CRat) -> Option<CRat> { None }
    /// sort_by with comparator mode 0 (type's own order), 1 (reversed), 2 (by 1-norm magnitude: ties between distinct elements)
    fn lib_sort_by(v: &mut Vector<Self>, mode: u8);
    fn lib_sort(_v: &mut Vector<Self>) { unreachable!() }
    fn lib_resize(_v: &mut Vector<Self>, _n: usize) { unreachable!() }
    fn lib_assign(_v: &mut Vector<Self>, _x: &Self) { unreachable!() }
    fn default_m() -> CRat { CRat::default() }
}

fn r2c(r: Rat) -> CRat { CRat::new(r, Rat::ZERO) }
fn rid(r: &Rat) -> (u128, u128) { (r.n as u128, r.d as u128) }
fn f64_to_rat(x: f64) -> Option<Rat> {
    if !x.is_finite() { return None; }
    catch(|| Rat::from_f64(x)).ok()
}

/// flavours: 0 small (many duplicates), 1 product friendly, 2 wider, 3 tiny integers (histories)
fn small_rat(rng: &mut Rng, flavour: u32, dyadic: bool) -> Rat {
    match flavour {
        0 => {
            if dyadic { Rat::new(rng.int(-12, 12) as i128, 1i128 << *rng.pick(&[0u32, 0, 0, 1, 2, 3])) }
            else { Rat::new(rng.int(-12, 12) as i128, *rng.pick(&[1i128, 1, 1, 2, 3, 4, 6])) }
        }
        1 => {
            if rng.chance(0.02) { return Rat::ZERO; }
            let c: [(i128, i128); 10] = [(1, 1), (-1, 1), (2, 1), (-2, 1), (1, 2), (-1, 2), (3, 1), (-3, 2), (1, 1), (-1, 1)];
            let (n, d) = *rng.pick(&c);
            if !dyadic && rng.chance(0.1) { Rat::new(n, 3) } else { Rat::new(n, d) }
        }
        2 => {
            if dyadic { Rat::new(rng.int(-1000, 1000) as i128, 1i128 << rng.int(0, 6)) }
            else { Rat::new(rng.int(-1000, 1000) as i128, rng.int(1, 12) as i128) }
        }
        _ => {
            if rng.chance(0.1) { Rat::new(rng.int(-3, 3) as i128, 2) } else { Rat::int(rng.int(-3, 3)) }
        }
    }
}
fn small_int(rng: &mut Rng, flavour: u32) -> i64 {
    match flavour { 0 => rng.int(-9, 9), 1 => *rng.pick(&[1i64, -1, 2, -2, 3, 1, -1, 0]), 2 => rng.int(-1000, 1000), _ => rng.int(-3, 3) }
}
fn lex(a: &CRat, b: &CRat) -> Ordering { if a.re != b.re { a.re.cmp(&b.re) } else { a.im.cmp(&b.im) } }

macro_rules! sort_by_impl { () => {
    fn lib_sort_by(v: &mut Vector<Self>, mode: u8) {
        match mode { 0 => v.sort_by(|a, b| Self::pcmp(a, b)), 1 => v.sort_by(|a, b| Self::pcmp(b, a)), _ => v.sort_by(|a, b| sort_cmp(2, a, b)) }
    }
} }
impl El for Rat {
    const NAME: &'static str = "Rat";
    const FLOAT: bool = false;
    const CAN_SORT: bool = true;
    const CAN_RESIZE: bool = true;
    const CAN_ASSIGN: bool = true;
    fn to_m(&self) -> Option<CRat> { Some(r2c(*self)) }
    fn from_m(m: &CRat) -> Option<Rat> { if m.im.is_zero() { Some(m.re) } else { None } }
    fn id(&self) -> [u128; 4] { let (a, b) = rid(self); [a, b, 0, 0] }
    fn gen(rng: &mut Rng, f: u32) -> Rat { small_rat(rng, f, false) }
    fn pcmp(a: &Rat, b: &Rat) -> Ordering { a.cmp(b) }
    sort_by_impl!();
    fn abs_m(m: &CRat) -> Option<CRat> { Some(r2c(m.re.abs_r())) }
    fn lib_sort(v: &mut Vector<Rat>) { v.sort() }
    fn lib_resize(v: &mut Vector<Rat>, n: usize) { v.resize(n) }
    fn lib_assign(v: &mut Vector<Rat>, x: &Rat) { v.assign(*x) }
}
impl El for i64 {
    const NAME: &'static str = "i64";
    const FLOAT: bool = false;
    const CAN_SORT: bool = true;
    const CAN_RESIZE: bool = true;
    const CAN_ASSIGN: bool = true;
    fn to_m(&self) -> Option<CRat> { Some(r2c(Rat::int(*self))) }
    fn from_m(m: &CRat) -> Option<i64> { if m.im.is_zero() && m.re.d == 1 { i64::try_from(m.re.n).ok() } else { None } }
    fn id(&self) -> [u128; 4] { [*self as u128, 0, 0, 0] }
    fn gen(rng: &mut Rng, f: u32) -> i64 { small_int(rng, f) }
    fn pcmp(a: &i64, b: &i64) -> Ordering { a.cmp(b) }
    sort_by_impl!();
    fn abs_m(m: &CRat) -> Option<CRat> { Some(r2c(m.re.abs_r())) }
    fn lib_sort(v: &mut Vector<i64>) { v.sort() }
    fn lib_resize(v: &mut Vector<i64>, n: usize) { v.resize(n) }
    fn lib_assign(v: &mut Vector<i64>, x: &i64) { v.assign(*x) }
}
impl El for f64 {
    const NAME: &'static str = "f64";
    const FLOAT: bool = true;
    const CAN_RESIZE: bool = true;
    const CAN_ASSIGN: bool = true;
    fn to_m(&self) -> Option<CRat> { f64_to_rat(*self).map(r2c) }
    fn from_m(m: &CRat) -> Option<f64> { if m.im.is_zero() { m.re.as_exact_f64() } else { None } }
    fn id(&self) -> [u128; 4] { [self.to_bits() as u128, 0, 0, 0] }
    fn gen(rng: &mut Rng, f: u32) -> f64 { small_rat(rng, f, true).to_f64() }
    fn pcmp(a: &f64, b: &f64) -> Ordering { a.partial_cmp(b).unwrap_or(Ordering::Equal) }
    sort_by_impl!();
    fn abs_m(m: &CRat) -> Option<CRat> { Some(r2c(m.re.abs_r())) }
    fn lib_resize(v: &mut Vector<f64>, n: usize) { v.resize(n) }
    fn lib_assign(v: &mut Vector<f64>, x: &f64) { v.assign(*x) }
}
impl El for CRat {
    const NAME: &'static str = "CRat";
    const FLOAT: bool = false;
    const CAN_RESIZE: bool = true;
    const CAN_ASSIGN: bool = true;
    fn to_m(&self) -> Option<CRat> { Some(*self) }
    fn from_m(m: &CRat) -> Option<CRat> { Some(*m) }
    fn id(&self) -> [u128; 4] { let (a, b) = rid(&self.re); let (c, d) = rid(&self.im); [a, b, c, d] }
    fn gen(rng: &mut Rng, f: u32) -> CRat { CRat::new(small_rat(rng, f, false), small_rat(rng, f, false)) }
    fn pcmp(a: &CRat, b: &CRat) -> Ordering { a.partial_cmp(b).unwrap_or(Ordering::Equal) }
    sort_by_impl!();
    /// `Signed::abs` of the harness type CRat is by its definition (rat.rs) the 1-norm magnitude
    fn abs_m(m: &CRat) -> Option<CRat> { Some(r2c(m.re.abs_r() + m.im.abs_r())) }
    fn lib_resize(v: &mut Vector<CRat>, n: usize) { v.resize(n) }
    fn lib_assign(v: &mut Vector<CRat>, x: &CRat) { v.assign(*x) }
}
impl El for CxR {
    const NAME: &'static str = "Complex<Rat>";
    const FLOAT: bool = false;
    fn to_m(&self) -> Option<CRat> { Some(CRat::new(self.real, self.imag)) }
    fn from_m(m: &CRat) -> Option<CxR> { Some(Complex::new(m.re, m.im)) }
    fn id(&self) -> [u128; 4] { let (a, b) = rid(&self.real); let (c, d) = rid(&self.imag); [a, b, c, d] }
    fn gen(rng: &mut Rng, f: u32) -> CxR { Complex::new(small_rat(rng, f, false), small_rat(rng, f, false)) }
    fn pcmp(a: &CxR, b: &CxR) -> Ordering { a.partial_cmp(b).unwrap_or(Ordering::Equal) }
    sort_by_impl!();
}
impl El for Cmplx {
    const NAME: &'static str = "Complex<f64>";
    const FLOAT: bool = true;
    const CAN_ASSIGN: bool = true;
    fn to_m(&self) -> Option<CRat> { Some(CRat::new(f64_to_rat(self.real)?, f64_to_rat(self.imag)?)) }
    fn from_m(m: &CRat) -> Option<Cmplx> { Some(Cmplx::new(m.re.as_exact_f64()?, m.im.as_exact_f64()?)) }
    fn id(&self) -> [u128; 4] { [self.real.to_bits() as u128, self.imag.to_bits() as u128, 0, 0] }
    fn gen(rng: &mut Rng, f: u32) -> Cmplx { Cmplx::new(small_rat(rng, f, true).to_f64(), small_rat(rng, f, true).to_f64()) }
    fn pcmp(a: &Cmplx, b: &Cmplx) -> Ordering { a.partial_cmp(b).unwrap_or(Ordering::Equal) }
    sort_by_impl!();
    fn lib_assign(v: &mut Vector<Cmplx>, x: &Cmplx) { v.assign(*x) }
}

fn gen_vec<T: El>(rng: &mut Rng, n: usize, flavour: u32) -> Vec<T> { (0..n).map(|_| T::gen(rng, flavour)).collect() }
/// exact values of harness-generated data (always representable)
fn ms<T: El>(a: &[T]) -> Vec<CRat> { a.iter().map(|x| x.to_m().unwrap_or_default()).collect() }
fn mk<T: Clone>(a: &[T]) -> Vector<T> { Vector::create(a.to_vec()) }
fn hash_ids<T: El>(mut h: u64, a: &[T]) -> u64 {
    for x in a { for w in x.id() { h = hmix(h, w as u64 ^ ((w >> 64) as u64).rotate_left(17)); } }
    hmix(h, a.len() as u64)
}
fn same_ids<T: El>(a: &[T], b: &[T]) -> bool { a.len() == b.len() && a.iter().zip(b).all(|(x, y)| x.id() == y.id()) }

// ---------------------------------------------------------------- exactness certificates (float types)
fn mag1(m: &CRat) -> f64 { m.re.to_f64().abs() + m.im.to_f64().abs() }
/// log2 of the (power-of-two) denominator, None if the denominator is not a power of two
fn denlog(m: &CRat) -> Option<f64> {
    let mut best = 0f64;
    for d in [m.re.d, m.im.d] {
        if d <= 0 || (d & (d - 1)) != 0 { return None; }
        best = best.max(d.trailing_zeros() as f64);
    }
    Some(best)
}
/// every sum of any subset of the terms (in any order) is exact in binary64
fn cert_sum(terms: &[CRat]) -> bool {
    let mut b = 0.0;
    let mut s = 0f64;
    for t in terms { match denlog(t) { Some(d) => s = s.max(d), None => return false } b += mag1(t); }
    b == 0.0 || b.log2() + s < EXACT_BITS
}
/// every product of a contiguous run of the factors is exact in binary64 (components are integer
/// multiples of 2^-S bounded by prod |g_i|_1)
fn cert_prod(factors: &[CRat]) -> bool {
    let mut bits = 0.0;
    for t in factors {
        let d = match denlog(t) { Some(d) => d, None => return false };
        let m = mag1(t);
        if m > 0.0 { bits += (m.log2() + d).max(0.0); }
    }
    bits < EXACT_BITS
}

// ---------------------------------------------------------------- judged cases (exact)
/// Evaluate the model under `catch` (Rat overflow => None, the case is skipped).
fn model<R>(st: &mut Stats, f: impl FnOnce() -> R) -> Option<R> {
    match catch(f) { Outcome::Ok(r) => Some(r), _ => { st.count("skipped:rat-overflow-in-model"); None } }
}

/// A library call that must return the vector `exp` (exact values).
fn case_vec_o<T: El>(st: &mut Stats, site: &str, exp: Option<Vec<CRat>>, lib: impl FnOnce() -> Vec<T>, desc: &dyn Fn() -> String) {
    let exp = match exp { Some(e) => e, None => return };
    if T::FLOAT && !exp.iter().all(|m| T::from_m(m).is_some()) { st.count("skipped:inexact-in-binary64"); return; }
    st.eval();
    st.count(&format!("evals:{}:{}", site, T::NAME));
    match catch(lib) {
        Outcome::Ok(got) => {
            let ok = got.len() == exp.len() && got.iter().zip(&exp).all(|(g, e)| g.to_m().as_ref() == Some(e));
            if !ok {
                st.violation(&format!("C15:{}:{}:wrong-value", site, T::NAME),
                    format!("{} returned {:?} but the definition gives {:?}; {}", site, got, exp, desc()));
            }
        }
        Outcome::Overflow => st.count("skipped:rat-overflow-in-library"),
        other => st.violation(&format!("C15:{}:{}:refused", site, T::NAME),
            format!("{} {} but the definition gives {:?}; {}", site, other.describe(), exp, desc())),
    }
}

/// A library call that must return the scalar `exp`.
fn case_scalar_o<T: El>(st: &mut Stats, site: &str, exp: Option<CRat>, lib: impl FnOnce() -> T, desc: &dyn Fn() -> String) {
    let exp = match exp { Some(e) => e, None => return };
    if T::FLOAT && T::from_m(&exp).is_none() { st.count("skipped:inexact-in-binary64"); return; }
    st.eval();
    st.count(&format!("evals:{}:{}", site, T::NAME));
    match catch(lib) {
        Outcome::Ok(got) => {
            if got.to_m() != Some(exp) {
                st.violation(&format!("C15:{}:{}:wrong-value", site, T::NAME),
                    format!("{} returned {:?} but the definition gives {:?}; {}", site, got, exp, desc()));
            }
        }
        Outcome::Overflow => st.count("skipped:rat-overflow-in-library"),
        other => st.violation(&format!("C15:{}:{}:refused", site, T::NAME),
            format!("{} {} but the definition gives {:?}; {}", site, other.describe(), exp, desc())),
    }
}


fn case_vec<T: El>(st: &mut Stats, site: &str, exp: impl FnOnce() -> Vec<CRat>, lib: impl FnOnce() -> Vec<T>, desc: &dyn Fn() -> String) {
    let e = model(st, exp);
    case_vec_o::<T>(st, site, e, lib, desc)
}
fn case_scalar<T: El>(st: &mut Stats, site: &str, exp: impl FnOnce() -> CRat, lib: impl FnOnce() -> T, desc: &dyn Fn() -> String) {
    let e = model(st, exp);
    case_scalar_o::<T>(st, site, e, lib, desc)
}

/// A library call that must be rejected (any panic is a rejection).
fn case_reject<R: Debug>(st: &mut Stats, site: &str, tname: &str, lib: impl FnOnce() -> R, desc: &dyn Fn() -> String) {
    st.eval();
    st.count(&format!("evals:{}:{}", site, tname));
    match catch(lib) {
        Outcome::Ok(r) => st.violation(&format!("C15:{}:{}:accepted-invalid", site, tname),
            format!("{} returned {:?} where rejection is required; {}", site, r, desc())),
        Outcome::Overflow => st.count("skipped:rat-overflow-in-library"),
        _ => st.count(&format!("rejections:{}", site)),
    }
}

// textbook definitions on exact values
fn d_zip(a: &[CRat], b: &[CRat], f: impl Fn(CRat, CRat) -> CRat) -> Vec<CRat> { (0..a.len()).map(|i| f(a[i], b[i])).collect() }
fn d_map(a: &[CRat], f: impl Fn(CRat) -> CRat) -> Vec<CRat> { a.iter().map(|x| f(*x)).collect() }
fn d_dot(a: &[CRat], b: &[CRat]) -> CRat { let mut s = CRat::default(); for i in 0..a.len() { s = s + a[i] * b[i]; } s }
fn d_sum(a: &[CRat], lo: usize, hi: usize) -> CRat { let mut s = CRat::default(); for k in lo..=hi { s = s + a[k]; } s }
fn d_total(a: &[CRat]) -> CRat { let mut s = CRat::default(); for x in a { s = s + *x; } s }
fn d_prod(a: &[CRat], lo: usize, hi: usize) -> CRat { let mut s = CRat::new(Rat::ONE, Rat::ZERO); for k in lo..=hi { s = s * a[k]; } s }

/// a vector of the other length for size-mismatch checks
fn other_len(rng: &mut Rng, n: usize) -> usize { loop { let k = rng.usize(0, MAXLEN); if k != n { return k; } } }

/// impls needing only Clone + Number: v*s, v/s, v+=w, v-=w, v+=s, v-=s, v*=s, v/=s
fn arith_clone<T: El + Number>(st: &mut Stats, rng: &mut Rng, n: usize, fl: u32) {
    st.next_case();
    let a: Vec<T> = gen_vec(rng, n, fl);
    let b: Vec<T> = gen_vec(rng, n, fl);
    let s: T = T::gen(rng, fl);
    let (ma, mb, msc) = (ms(&a), ms(&b), s.to_m().unwrap_or_default());
    let desc = || format!("T={} a={:?} b={:?} s={:?}", T::NAME, a, b, s);
    case_vec::<T>(st, "mul-scalar", || d_map(&ma, |x| x * msc), || (mk(&a) * s.clone()).vec, &desc);
    case_vec::<T>(st, "add-assign-vec", || d_zip(&ma, &mb, |x, y| x + y), || { let mut v = mk(&a); v += mk(&b); v.vec }, &desc);
    case_vec::<T>(st, "sub-assign-vec", || d_zip(&ma, &mb, |x, y| x - y), || { let mut v = mk(&a); v -= mk(&b); v.vec }, &desc);
    case_vec::<T>(st, "add-assign-scalar", || d_map(&ma, |x| x + msc), || { let mut v = mk(&a); v += s.clone(); v.vec }, &desc);
    case_vec::<T>(st, "sub-assign-scalar", || d_map(&ma, |x| x - msc), || { let mut v = mk(&a); v -= s.clone(); v.vec }, &desc);
    case_vec::<T>(st, "mul-assign-scalar", || d_map(&ma, |x| x * msc), || { let mut v = mk(&a); v *= s.clone(); v.vec }, &desc);
    // division: a = q (.) d built in the model so that the quotient is exactly q
    let q: Vec<T> = gen_vec(rng, n, fl);
    let mq = ms(&q);
    let d: T = loop { let d = T::gen(rng, if fl == 2 { 0 } else { fl }); if d.to_m().map(|m| !m.is_zero()).unwrap_or(false) { break d; } };
    let md = d.to_m().unwrap_or_default();
    if let Some(prod) = model(st, || d_map(&mq, |x| x * md)) {
        let num: Option<Vec<T>> = prod.iter().map(|m| T::from_m(m)).collect();
        if let Some(num) = num {
            let desc = || format!("T={} a={:?} divisor={:?}", T::NAME, num, d);
            case_vec_o::<T>(st, "div-scalar", Some(mq.clone()), || (mk(&num) / d.clone()).vec, &desc);
            case_vec_o::<T>(st, "div-assign-scalar", Some(mq.clone()), || { let mut v = mk(&num); v /= d.clone(); v.vec }, &desc);
        } else { st.count("skipped:inexact-in-binary64"); }
    }
    // size mismatch must be rejected and must leave the left operand untouched
    let nc = other_len(rng, n);
    let c: Vec<T> = gen_vec(rng, nc, fl);
    let desc = || format!("T={} a={:?} (len {}) c={:?} (len {})", T::NAME, a, a.len(), c, c.len());
    for (site, plus) in [("add-assign-vec-mismatch", true), ("sub-assign-vec-mismatch", false)] {
        let mut v = mk(&a);
        case_reject(st, site, T::NAME, || { if plus { v += mk(&c) } else { v -= mk(&c) } }, &desc);
        if !same_ids(&v.vec, &a) {
            st.violation(&format!("C15:{}:{}:operand-modified", site, T::NAME), format!("left operand became {:?}; {}", v.vec, desc()));
        }
    }
    if n >= 2 { st.nontrivial(hash_ids(hash_ids(hash_str("arith-clone") ^ hash_str(T::NAME), &a), &b)); }
    st.sample(|| desc());
}

fn arith_neg<T: El + Neg<Output = T>>(st: &mut Stats, rng: &mut Rng, n: usize, fl: u32) {
    st.next_case();
    let a: Vec<T> = gen_vec(rng, n, fl);
    let ma = ms(&a);
    let desc = || format!("T={} a={:?}", T::NAME, a);
    case_vec::<T>(st, "neg", || d_map(&ma, |x| -x), || (-mk(&a)).vec, &desc);
    if n >= 2 { st.nontrivial(hash_ids(hash_str("neg") ^ hash_str(T::NAME), &a)); }
}

/// impls needing Copy: the six +/- forms and dot (with size checks)
fn arith_copy<T: El + Number + Copy>(st: &mut Stats, rng: &mut Rng, n: usize, fl: u32) {
    st.next_case();
    let a: Vec<T> = gen_vec(rng, n, fl);
    let b: Vec<T> = gen_vec(rng, n, fl);
    let (ma, mb) = (ms(&a), ms(&b));
    let desc = || format!("T={} a={:?} b={:?}", T::NAME, a, b);
    let sum = model(st, || d_zip(&ma, &mb, |x, y| x + y));
    let dif = model(st, || d_zip(&ma, &mb, |x, y| x - y));
    case_vec_o::<T>(st, "add-ref-ref", sum.clone(), || (&mk(&a) + &mk(&b)).vec, &desc);
    case_vec_o::<T>(st, "add-val-ref", sum.clone(), || (mk(&a) + &mk(&b)).vec, &desc);
    case_vec_o::<T>(st, "add-val-val", sum, || (mk(&a) + mk(&b)).vec, &desc);
    case_vec_o::<T>(st, "sub-ref-ref", dif.clone(), || (&mk(&a) - &mk(&b)).vec, &desc);
    case_vec_o::<T>(st, "sub-val-ref", dif.clone(), || (mk(&a) - &mk(&b)).vec, &desc);
    case_vec_o::<T>(st, "sub-val-val", dif, || (mk(&a) - mk(&b)).vec, &desc);
    // dot: bilinear sum a_i*b_i (the generic routine does not conjugate)
    let terms = model(st, || d_zip(&ma, &mb, |x, y| CRat::new(x.re.abs_r() + x.im.abs_r(), Rat::ZERO) * CRat::new(y.re.abs_r() + y.im.abs_r(), Rat::ZERO)));
    let exact_ok = !T::FLOAT || terms.map(|t| cert_sum(&t)).unwrap_or(false);
    if exact_ok { case_scalar::<T>(st, "dot", || d_dot(&ma, &mb), || mk(&a).dot(&mk(&b)), &desc); }
    else { st.count("skipped:inexact-in-binary64"); }
    let nc = other_len(rng, n);
    let c: Vec<T> = gen_vec(rng, nc, fl);
    let desc = || format!("T={} a={:?} (len {}) c={:?} (len {})", T::NAME, a, a.len(), c, c.len());
    case_reject(st, "add-mismatch", T::NAME, || (&mk(&a) + &mk(&c)).vec, &desc);
    case_reject(st, "add-mismatch", T::NAME, || (mk(&c) + mk(&a)).vec, &desc);
    case_reject(st, "sub-mismatch", T::NAME, || (&mk(&a) - &mk(&c)).vec, &desc);
    case_reject(st, "sub-mismatch", T::NAME, || (mk(&c) - &mk(&a)).vec, &desc);
    case_reject(st, "dot-mismatch", T::NAME, || mk(&a).dot(&mk(&c)), &desc);
    case_reject(st, "dot-mismatch", T::NAME, || mk(&c).dot(&mk(&a)), &desc);
    if n >= 2 { st.nontrivial(hash_ids(hash_ids(hash_str("arith-copy") ^ hash_str(T::NAME), &a), &b)); }
}

/// abs() and norm_1() with the element absolute value defined by `El::abs_m`
fn arith_signed<T: El + Number + Signed>(st: &mut Stats, rng: &mut Rng, n: usize, fl: u32) {
    st.next_case();
    let a: Vec<T> = gen_vec(rng, n, fl);
    let ma = ms(&a);
    let desc = || format!("T={} a={:?}", T::NAME, a);
    let absd = model(st, || d_map(&ma, |x| T::abs_m(&x).unwrap_or_default()));
    case_vec_o::<T>(st, "abs", absd.clone(), || mk(&a).abs().vec, &desc);
    if let Some(ab) = absd {
        if !T::FLOAT || cert_sum(&ab) { case_scalar::<T>(st, "norm_1", || d_total(&ab), || mk(&a).norm_1(), &desc); }
        else { st.count("skipped:inexact-in-binary64"); }
    }
    if n >= 2 { st.nontrivial(hash_ids(hash_str("signed") ^ hash_str(T::NAME), &a)); }
}

// ---------------------------------------------------------------- range reductions
/// sum_slice / product_slice / sum / product. `full`: every (start,end) in 0..=n+1 squared
/// (valid and invalid), else `nr` random pairs biased to the boundaries.
fn reductions<T: El + Number + Copy>(st: &mut Stats, rng: &mut Rng, n: usize, full: bool, fl: u32) {
    st.next_case();
    let a: Vec<T> = gen_vec(rng, n, fl);
    let ma = ms(&a);
    let v = mk(&a);
    let desc0 = || format!("T={} a={:?} (len {})", T::NAME, a, n);
    let sum_exact = !T::FLOAT || cert_sum(&ma);
    let mut pairs: Vec<(usize, usize)> = vec![];
    if full { for s in 0..=n + 1 { for e in 0..=n + 1 { pairs.push((s, e)); } } }
    else {
        for _ in 0..40 {
            let pick = |rng: &mut Rng| -> usize { match rng.below(8) { 0 => 0, 1 => n.saturating_sub(1), 2 => n, 3 => n + rng.usize(1, 3), _ => rng.usize(0, n) } };
            let (s, e) = (pick(rng), pick(rng));
            pairs.push(if rng.chance(0.7) { (s.min(e), s.max(e)) } else { (s, e) });
        }
        pairs.push((0, usize::MAX)); pairs.push((usize::MAX, usize::MAX)); pairs.push((usize::MAX, 0));
    }
    for &(s, e) in &pairs {
        let desc = || format!("start={} end={} {}", s, e, desc0());
        if s > e || e >= n {
            case_reject(st, "sum_slice-bad-range", T::NAME, || v.sum_slice(s, e), &desc);
            case_reject(st, "product_slice-bad-range", T::NAME, || v.product_slice(s, e), &desc);
            continue;
        }
        if sum_exact { case_scalar::<T>(st, "sum_slice", || d_sum(&ma, s, e), || v.sum_slice(s, e), &desc); }
        else { st.count("skipped:inexact-in-binary64"); }
        if !T::FLOAT || cert_prod(&ma[s..=e]) { case_scalar::<T>(st, "product_slice", || d_prod(&ma, s, e), || v.product_slice(s, e), &desc); }
        else { st.count("skipped:inexact-in-binary64"); }
    }
    if n > 0 {
        if sum_exact { case_scalar::<T>(st, "sum", || d_total(&ma), || v.sum(), &desc0); }
        if !T::FLOAT || cert_prod(&ma) { case_scalar::<T>(st, "product", || d_prod(&ma, 0, n - 1), || v.product(), &desc0); }
    } else {
        // undefined by the property: a panic or the conventional empty value (0 / 1) is accepted
        for (site, conv) in [("sum-empty", CRat::default()), ("product-empty", CRat::new(Rat::ONE, Rat::ZERO))] {
            st.eval();
            match catch(|| if site == "sum-empty" { v.sum() } else { v.product() }) {
                Outcome::Ok(x) => {
                    if x.to_m() != Some(conv) {
                        st.violation(&format!("C15:{}:{}:unconventional-value", site, T::NAME), format!("{} on an empty vector returned {:?}", site, x));
                    } else { st.count("undefined:empty-reduction-conventional-value"); }
                }
                _ => st.count("undefined:empty-reduction-panicked"),
            }
        }
    }
    st.count(&format!("reduction-vectors:{}:{}", T::NAME, if full { "all-ranges" } else { "random-ranges" }));
    if n >= 2 { st.nontrivial(hash_ids(hash_str("reductions") ^ hash_str(T::NAME) ^ full as u64, &a)); }
    st.sample(|| desc0());
}

// ---------------------------------------------------------------- complex-only methods, f64 left multiplication
fn conj_real_exact(st: &mut Stats, rng: &mut Rng, n: usize, fl: u32) {
    st.next_case();
    let a: Vec<CxR> = gen_vec(rng, n, fl);
    let ma = ms(&a);
    let desc = || format!("T=Complex<Rat> a={:?}", a);
    case_vec_o::<CxR>(st, "conj", Some(d_map(&ma, |z| CRat::new(z.re, -z.im))), || mk(&a).conj().vec, &desc);
    case_vec_o::<Rat>(st, "real", Some(d_map(&ma, |z| r2c(z.re))), || mk(&a).real().vec, &desc);
    if n >= 2 { st.nontrivial(hash_ids(hash_str("conj-real-exact"), &a)); }
}

fn conj_real_abs_cmplx(st: &mut Stats, rng: &mut Rng, n: usize, fl: u32) {
    st.next_case();
    let a: Vec<Cmplx> = gen_vec(rng, n, fl);
    let ma = ms(&a);
    let desc = || format!("T=Complex<f64> a={:?}", a);
    case_vec_o::<Cmplx>(st, "conj", Some(d_map(&ma, |z| CRat::new(z.re, -z.im))), || mk(&a).conj().vec, &desc);
    case_vec_o::<f64>(st, "real", Some(d_map(&ma, |z| r2c(z.re))), || mk(&a).real().vec, &desc);
    // abs(): elementwise modulus (|z|, 0); re^2+im^2 is exact here, so only the square root rounds
    st.eval();
    match catch(|| mk(&a).abs().vec) {
        Outcome::Ok(g) => {
            let mut bad = g.len() != n;
            let mut worst = 0f64;
            if !bad {
                for i in 0..n {
                    let t = (DD::prod(a[i].real, a[i].real) + DD::prod(a[i].imag, a[i].imag)).sqrt().f();
                    let err = (g[i].real - t).abs();
                    if g[i].imag != 0.0 || !(err <= MOD_TOL * t) { bad = true; }
                    if t > 0.0 { worst = worst.max(err / (MOD_TOL * t)); }
                }
            }
            st.max("ratio:cmplx-abs-exact-data:err/tol", worst);
            if bad { st.violation("C15:abs:Complex<f64>:wrong-value", format!("abs returned {:?}; {}", g, desc())); }
        }
        other => st.violation("C15:abs:Complex<f64>:refused", format!("abs {}; {}", other.describe(), desc())),
    }
    if n >= 2 { st.nontrivial(hash_ids(hash_str("conj-real-abs-cmplx"), &a)); }
}

fn left_mul_f64(st: &mut Stats, rng: &mut Rng, n: usize, fl: u32) {
    st.next_case();
    let a: Vec<f64> = gen_vec(rng, n, fl);
    let s = f64::gen(rng, fl);
    let (ma, msc) = (ms(&a), s.to_m().unwrap_or_default());
    let desc = || format!("T=f64 s={:?} a={:?}", s, a);
    case_vec::<f64>(st, "scalar-mul-left", || d_map(&ma, |x| msc * x), || (s * mk(&a)).vec, &desc);
    if n >= 2 { st.nontrivial(hmix(hash_ids(hash_str("left-mul"), &a), s.to_bits())); }
}

// ---------------------------------------------------------------- edit histories in lock step with a plain list
#[derive(Clone, Debug)]
enum Op<T> {
    Push(T), PushFront(T), Insert(usize, T), Pop, Swap(usize, usize), Resize(usize), Assign(T), Clear,
    Sort, SortBy(u8), Find(T), SetIdx(usize, T), GetIdx(usize), CloneEq,
}
fn op_name<T>(op: &Op<T>) -> &'static str {
    match op {
        Op::Push(_) => "push", Op::PushFront(_) => "push_front", Op::Insert(..) => "insert", Op::Pop => "pop", Op::Swap(..) => "swap",
        Op::Resize(_) => "resize", Op::Assign(_) => "assign", Op::Clear => "clear", Op::Sort => "sort", Op::SortBy(_) => "sort_by",
        Op::Find(_) => "find", Op::SetIdx(..) => "index-write", Op::GetIdx(_) => "index-read", Op::CloneEq => "clone",
    }
}
fn mkey<T: El>(x: &T) -> CRat { x.to_m().unwrap_or_default() }
fn sort_cmp<T: El>(mode: u8, a: &T, b: &T) -> Ordering {
    match mode {
        0 => lex(&mkey(a), &mkey(b)),
        1 => lex(&mkey(b), &mkey(a)),
        _ => { let (x, y) = (mkey(a), mkey(b)); (x.re.abs_r() + x.im.abs_r()).cmp(&(y.re.abs_r() + y.im.abs_r())) }
    }
}
/// stable insertion sort (the model's own sorting routine)
fn insertion_sort<T: Clone>(a: &mut Vec<T>, cmp: impl Fn(&T, &T) -> Ordering) {
    for i in 1..a.len() {
        let mut j = i;
        while j > 0 && cmp(&a[j - 1], &a[j]) == Ordering::Greater { a.swap(j - 1, j); j -= 1; }
    }
}

/// Apply one operation to the library vector and to the model; false => stop this history.
fn step<T: El>(st: &mut Stats, v: &mut Vector<T>, m: &mut Vec<T>, op: &Op<T>, trace: &dyn Fn() -> String) -> bool {
    let name = op_name(op);
    let before = m.clone();
    st.eval();
    st.count(&format!("hist-ops:{}:{}", T::NAME, name));
    let sig = |mode: &str| format!("C15:hist-{}:{}:{}", name, T::NAME, mode);
    // (returned ok?, return value mismatch description)
    let mut ret_bad: Option<String> = None;
    let out: Outcome<()> = match op {
        Op::Push(x) => { m.push(x.clone()); catch(|| v.push(x.clone())) }
        Op::PushFront(x) => { m.insert(0, x.clone()); catch(|| v.push_front(x.clone())) }
        Op::Insert(p, x) => { m.insert(*p, x.clone()); catch(|| v.insert(*p, x.clone())) }
        Op::Pop => {
            if m.is_empty() {
                // undefined by the property: panic (state must stay empty) or anything else accepted
                st.count("undefined:pop-on-empty");
                let _ = catch(|| v.pop());
                *m = v.vec.clone();
                Outcome::Ok(())
            } else {
                let e = m.pop().unwrap();
                catch(|| v.pop()).map_ok(|r| { if r.id() != e.id() { ret_bad = Some(format!("pop returned {:?}, expected {:?}", r, e)); } })
            }
        }
        Op::Swap(i, j) => { m.swap(*i, *j); catch(|| v.swap(*i, *j)) }
        Op::Resize(k) => {
            let d = T::from_m(&T::default_m());
            match d { Some(d) => { m.resize(*k, d); catch(|| T::lib_resize(v, *k)) } None => Outcome::Ok(()) }
        }
        Op::Assign(x) => { for y in m.iter_mut() { *y = x.clone(); } catch(|| T::lib_assign(v, x)) }
        Op::Clear => { m.clear(); catch(|| v.clear()) }
        Op::Sort => { insertion_sort(m, |a, b| sort_cmp(0, a, b)); catch(|| T::lib_sort(v)) }
        Op::SortBy(mode) => {
            let mode = *mode;
            let o = catch(|| T::lib_sort_by(v, mode));
            if o.is_ok() {
                // ordered w.r.t. the comparator and a permutation of the previous contents
                let ordered = v.vec.windows(2).all(|w| sort_cmp(mode, &w[0], &w[1]) != Ordering::Greater);
                let mut x: Vec<[u128; 4]> = v.vec.iter().map(|e| e.id()).collect();
                let mut y: Vec<[u128; 4]> = before.iter().map(|e| e.id()).collect();
                x.sort(); y.sort();
                if !ordered || x != y { ret_bad = Some(format!("result {:?} is not the sorted permutation of {:?} (mode {})", v.vec, before, mode)); }
                if mode < 2 { insertion_sort(m, |a, b| sort_cmp(mode, a, b)); } else if ret_bad.is_none() { *m = v.vec.clone(); }
            }
            o
        }
        Op::Find(x) => {
            if m.is_empty() { st.count("undefined:find-on-empty"); let _ = catch(|| v.find(x.clone())); Outcome::Ok(()) }
            else {
                let xm = x.to_m();
                let e = m.iter().position(|y| y.to_m() == xm).unwrap_or(m.len() - 1);
                st.count(if m.iter().any(|y| y.to_m() == xm) { "find:present" } else { "find:absent" });
                catch(|| v.find(x.clone())).map_ok(|r| { if r != e { ret_bad = Some(format!("find({:?}) returned {}, definition gives {}", x, r, e)); } })
            }
        }
        Op::SetIdx(i, x) => { m[*i] = x.clone(); catch(|| { v[*i] = x.clone(); }) }
        Op::GetIdx(i) => {
            let e = m[*i].clone();
            catch(|| v[*i].clone()).map_ok(|r| { if r.id() != e.id() { ret_bad = Some(format!("v[{}] read {:?}, expected {:?}", i, r, e)); } })
        }
        Op::CloneEq => {
            catch(|| { let c = v.clone(); (c.vec.clone(), c == *v, c.size()) })
                .map_ok(|(cv, eq, sz)| { if !same_ids(&cv, m) || !eq || sz != m.len() { ret_bad = Some(format!("clone gave {:?} (== original: {}, size {})", cv, eq, sz)); } })
        }
    };
    match out {
        Outcome::Ok(()) => {}
        Outcome::Overflow => { st.count("skipped:rat-overflow-in-library"); return false; }
        other => {
            st.violation(&sig("refused"), format!("{} on a valid {:?} applied to {:?}; {}", other.describe(), op, before, trace()));
            return false;
        }
    }
    if let Some(b) = ret_bad {
        st.violation(&sig("wrong-return"), format!("{}; state before {:?}; {}", b, before, trace()));
        return false;
    }
    let size = catch(|| v.size()).ok();
    if !same_ids(&v.vec, m) || size != Some(m.len()) {
        st.violation(&sig("state-mismatch"), format!("after {:?} on {:?}: vec={:?} size={:?} but the list model is {:?}; {}", op, before, v.vec, size, m, trace()));
        return false;
    }
    true
}

trait MapOk<R> { fn map_ok(self, f: impl FnOnce(R)) -> Outcome<()>; }
impl<R> MapOk<R> for Outcome<R> {
    fn map_ok(self, f: impl FnOnce(R)) -> Outcome<()> {
        match self {
            Outcome::Ok(r) => { f(r); Outcome::Ok(()) }
            Outcome::Panic { msg, loc } => Outcome::Panic { msg, loc },
            Outcome::Overflow => Outcome::Overflow,
            Outcome::Budget => Outcome::Budget,
        }
    }
}

fn random_op<T: El>(rng: &mut Rng, m: &[T]) -> Op<T> {
    let len = m.len();
    let val = |rng: &mut Rng| T::gen(rng, 3);
    loop {
        let k = rng.below(32);
        let op = match k {
            0..=4 if len < MAXLEN => Op::Push(val(rng)),
            5..=7 if len < MAXLEN => Op::PushFront(val(rng)),
            8..=11 if len < MAXLEN => Op::Insert(match rng.below(4) { 0 => 0, 1 => len, _ => rng.usize(0, len) }, val(rng)),
            12..=14 => Op::Pop,
            15..=17 if len > 0 => Op::Swap(rng.usize(0, len - 1), if rng.chance(0.2) { len - 1 } else { rng.usize(0, len - 1) }),
            18..=19 if T::CAN_RESIZE => Op::Resize(match rng.below(5) { 0 => 0, 1 => len, 2 => MAXLEN.min(len + rng.usize(1, 9)), 3 => len / 2, _ => rng.usize(0, MAXLEN) }),
            20 if T::CAN_ASSIGN => Op::Assign(val(rng)),
            21 if rng.chance(0.3) => Op::Clear,
            22..=23 if T::CAN_SORT => Op::Sort,
            24..=25 => Op::SortBy(rng.below(3) as u8),
            26..=28 => Op::Find(if len > 0 && rng.chance(0.6) { m[rng.usize(0, len - 1)].clone() } else { val(rng) }),
            29 if len > 0 => Op::SetIdx(rng.usize(0, len - 1), val(rng)),
            30 if len > 0 => Op::GetIdx(rng.usize(0, len - 1)),
            31 => Op::CloneEq,
            _ => continue,
        };
        return op;
    }
}

fn start_state<T: El + Number>(rng: &mut Rng) -> (Vector<T>, Vec<T>, String) {
    match rng.below(6) {
        0 => (Vector::<T>::empty(), vec![], "empty()".into()),
        1 => { let n = rng.usize(0, 12); let a: Vec<T> = gen_vec(rng, n, 3); (Vector::create(a.clone()), a.clone(), format!("create({:?})", a)) }
        2 => { let n = rng.usize(0, 8); let x = T::gen(rng, 3); (Vector::new(n, x.clone()), vec![x.clone(); n], format!("new({}, {:?})", n, x)) }
        3 => { let n = rng.usize(0, 8); (Vector::<T>::zeros(n), vec![T::zero(); n], format!("zeros({})", n)) }
        4 => { let n = rng.usize(0, 8); (Vector::<T>::ones(n), vec![T::one(); n], format!("ones({})", n)) }
        _ => { let n = rng.usize(40, MAXLEN); let a: Vec<T> = gen_vec(rng, n, 3); (Vector::create(a.clone()), a.clone(), format!("create({:?})", a)) }
    }
}

/// one random history of up to `steps` operations
fn history<T: El + Number>(st: &mut Stats, rng: &mut Rng, steps: usize) {
    st.next_case();
    let (mut v, mut m, start) = match catch(|| { let mut r = rng.clone(); let s = start_state::<T>(&mut r); (s, r) }) {
        Outcome::Ok((s, r)) => { *rng = r; s }
        other => { st.violation(&format!("C15:hist-construct:{}:refused", T::NAME), format!("constructor {}", other.describe())); return; }
    };
    if !same_ids(&v.vec, &m) {
        st.violation(&format!("C15:hist-construct:{}:state-mismatch", T::NAME), format!("{} gave {:?}, expected {:?}", start, v.vec, m));
        return;
    }
    let mut ops: Vec<Op<T>> = Vec::with_capacity(steps);
    let mut h = hash_ids(hash_str("history") ^ hash_str(T::NAME), &m);
    let (mut changes, mut maxlen) = (0usize, m.len());
    for _ in 0..steps {
        let op = random_op::<T>(rng, &m);
        ops.push(op.clone());
        let before_len = m.len();
        let trace = || format!("T={} start={} history={:?}", T::NAME, start, ops);
        if !step(st, &mut v, &mut m, &op, &trace) { return; }
        h = hmix(hash_ids(h, &m), hash_str(op_name(&op)));
        if !matches!(op, Op::Find(_) | Op::GetIdx(_) | Op::CloneEq) && (before_len > 0 || m.len() > 0) { changes += 1; }
        maxlen = maxlen.max(m.len());
    }
    st.max(&format!("hist-max-len:{}", T::NAME), maxlen as f64);
    // non-trivial: at least 3 editing steps and the vector reached length >= 2
    if changes >= 3 && maxlen >= 2 { st.nontrivial(h); }
    st.sample(|| format!("T={} start={} history={:?}", T::NAME, start, ops));
}

const SWEEP_OPS: u64 = 11;
const SWEEP_LEN: usize = 4;
/// deterministic operation `code` at step `k` on a list of length `len`
fn sweep_op(code: u64, k: usize, len: usize) -> Op<Rat> {
    let val = Rat::int([2, 1, 3, 1][k % 4]);
    match code {
        0 => Op::Push(val),
        1 => Op::PushFront(val),
        2 => Op::Insert(len / 2, val),
        3 => Op::Pop,
        4 => if len > 0 { Op::Swap(0, len - 1) } else { Op::CloneEq },
        5 => Op::Resize(len + 2),
        6 => Op::Resize(len / 2),
        7 => Op::Assign(val),
        8 => Op::Clear,
        9 => Op::Sort,
        _ => Op::Find(val),
    }
}
/// all SWEEP_OPS^SWEEP_LEN operation sequences whose first two codes are given by `unit`, from 3 start lists
fn sweep_unit(st: &mut Stats, unit: u64) {
    let (c0, c1) = (unit / SWEEP_OPS, unit % SWEEP_OPS);
    let starts: [Vec<Rat>; 3] = [vec![], vec![Rat::int(3)], vec![Rat::int(2), Rat::int(1), Rat::int(2)]];
    for start in &starts {
        for c2 in 0..SWEEP_OPS { for c3 in 0..SWEEP_OPS {
            st.next_case();
            let codes = [c0, c1, c2, c3];
            let mut v = Vector::create(start.clone());
            let mut m = start.clone();
            let mut ops: Vec<Op<Rat>> = vec![];
            let mut maxlen = m.len();
            let mut done = true;
            for k in 0..SWEEP_LEN {
                let op = sweep_op(codes[k], k, m.len());
                ops.push(op.clone());
                let trace = || format!("T=Rat start=create({:?}) history={:?}", start, ops);
                if !step(st, &mut v, &mut m, &op, &trace) { done = false; break; }
                maxlen = maxlen.max(m.len());
            }
            if done { st.count("sweep-histories-completed"); }
            if done && maxlen >= 2 { st.nontrivial(hmix(hmix(hash_str("sweep"), unit * 1000 + c2 * SWEEP_OPS + c3), start.len() as u64)); }
        } }
    }
}

// ---------------------------------------------------------------- numerical norms (f64, Complex<f64>)
/// data classes; all magnitudes are 0 or within [2^-108, 2^108] so that |x|^p (p<=8) and 64-term sums
/// stay inside the normal binary64 range (declared judged domain)
fn float_vec(rng: &mut Rng, n: usize, class: u64) -> Vec<f64> {
    let k = 2f64.powi(rng.int(-100, 100) as i32);
    let c = rng.sym();
    (0..n).map(|i| match class {
        0 => rng.sym(),
        1 => rng.logmag(2f64.powi(-100), 2f64.powi(100)),
        2 => rng.int(-9, 9) as f64,
        3 => if rng.chance(0.1) || i == n / 2 { rng.sym() * k } else { 0.0 },
        4 => if rng.bool() { c * k } else { -c * k },
        _ => rng.sym() * k,
    }).map(|x: f64| if x != 0.0 && x.abs() < DOM_LO { 0.0 } else { x }).collect()
}
/// judged magnitude domain of the numerical norms: entries are 0 or within [2^-118, 2^118]
const DOM_LO: f64 = 1.0 / DOM_HI;
const DOM_HI: f64 = 332306998946228968225951765070086144.0; // 2^118
fn in_domain(a: &[f64]) -> bool { a.iter().all(|x| *x == 0.0 || (x.abs() >= DOM_LO && x.abs() <= DOM_HI)) }
/// elementwise binary64 operations are defined by IEEE-754: the library result must be bit-equal to `own`
fn same_bits(st: &mut Stats, site: &str, out: Outcome<Vec<f64>>, own: &[f64], desc: &dyn Fn() -> String) {
    st.eval();
    match out {
        Outcome::Ok(g) => {
            if g.len() != own.len() || g.iter().zip(own).any(|(x, y)| x.to_bits() != y.to_bits() && !(*x == 0.0 && *y == 0.0)) {
                st.violation(&format!("C15:{}:f64:wrong-value", site), format!("{} returned {:?}, elementwise IEEE result is {:?}; {}", site, g, own, desc()));
            }
        }
        other => st.violation(&format!("C15:{}:f64:refused", site), format!("{} {}; {}", site, other.describe(), desc())),
    }
}
const FLOAT_CLASSES: [&str; 6] = ["uniform", "graded-2^+-100", "small-integers", "sparse", "constant-modulus", "common-scale"];

struct RefNorms { n1: f64, n2: f64, ninf: f64 }
fn ref_norms(a: &[f64]) -> RefNorms {
    let mut s1 = DD::ZERO; let mut s2 = DD::ZERO; let mut mx = 0f64;
    for &x in a { s1 = s1 + DD::from(x.abs()); s2 = s2 + DD::prod(x, x); mx = mx.max(x.abs()); }
    RefNorms { n1: s1.f(), n2: s2.sqrt().f(), ninf: mx }
}
/// p-norm by the scaled formula m*(sum (|x|/m)^p)^(1/p), m an exact power of two near max|x|
fn ref_norm_p(a: &[f64], p: f64) -> f64 {
    let mx = a.iter().fold(0f64, |m, x| m.max(x.abs()));
    if mx == 0.0 { return 0.0; }
    let m = 2f64.powi(mx.log2().floor() as i32);
    let mut s = DD::ZERO;
    for &x in a { s = s + DD::from((x.abs() / m).powf(p)); }
    m * s.f().powf(1.0 / p)
}

/// value check of one norm against its reference; returns the library value when usable
fn judge_norm(st: &mut Stats, site: &str, ty: &str, n: usize, out: Outcome<f64>, truth: f64, rt: f64, desc: &dyn Fn() -> String) -> Option<f64> {
    st.eval();
    st.count(&format!("evals:{}:{}", site, ty));
    match out {
        Outcome::Ok(g) => {
            if !(g >= 0.0) || !g.is_finite() {
                st.violation(&format!("C15:{}:{}:negative-or-nonfinite", site, ty), format!("{} = {} (true value {}); {}", site, hexf(g), hexf(truth), desc()));
                return None;
            }
            let err = (g - truth).abs();
            if truth > 0.0 { st.max(&format!("ratio:{}:{}:err/tol", site, ty), err / (rt * truth)); }
            if !(err <= rt * truth) {
                st.violation(&format!("C15:{}:{}:wrong-value", site, ty),
                    format!("{} = {} but the definition gives {} (relative error {:e} > {:e}, n={}); {}", site, hexf(g), hexf(truth), err / truth, rt, n, desc()));
                return None;
            }
            Some(g)
        }
        other => { st.violation(&format!("C15:{}:{}:refused", site, ty), format!("{} {}; {}", site, other.describe(), desc())); None }
    }
}
/// law `lhs <= rhs` up to slack*scale
fn law_le(st: &mut Stats, law: &str, ty: &str, lhs: Option<f64>, rhs: Option<f64>, slack: f64, desc: &dyn Fn() -> String) {
    if let (Some(l), Some(r)) = (lhs, rhs) {
        st.count(&format!("laws:{}:{}", law, ty));
        if r > 0.0 { st.max(&format!("ratio:law-{}:{}:excess/slack", law, ty), (l - r) / (slack * r)); }
        if !(l <= r + slack * r) {
            st.violation(&format!("C15:law-{}:{}", law, ty), format!("{} violated: {} > {} (slack {:e} relative); {}", law, hexf(l), hexf(r), slack, desc()));
        }
    }
}
fn law_eq(st: &mut Stats, law: &str, ty: &str, lhs: Option<f64>, rhs: Option<f64>, slack: f64, desc: &dyn Fn() -> String) {
    if let (Some(l), Some(r)) = (lhs, rhs) {
        st.count(&format!("laws:{}:{}", law, ty));
        if r > 0.0 { st.max(&format!("ratio:law-{}:{}:excess/slack", law, ty), (l - r).abs() / (slack * r)); }
        if !((l - r).abs() <= slack * r) {
            st.violation(&format!("C15:law-{}:{}", law, ty), format!("{} violated: {} vs {} (slack {:e} relative); {}", law, hexf(l), hexf(r), slack, desc()));
        }
    }
}

struct F64Norms { n1: Option<f64>, n2: Option<f64>, ninf: Option<f64>, np: Vec<Option<f64>> }
/// all norms of one f64 vector, each value-checked; ps ascending
fn norms_of(st: &mut Stats, a: &[f64], ps: &[f64], tag: &str) -> F64Norms {
    let n = a.len();
    let v = mk(a);
    let r = ref_norms(a);
    let desc = || format!("{} v={:?}", tag, a);
    let n1 = judge_norm(st, "norm_1", "f64", n, catch(|| v.norm_1()), r.n1, norm_rtol(n, r.n1), &desc);
    let n2 = judge_norm(st, "norm_2", "f64", n, catch(|| v.norm_2()), r.n2, norm_rtol(n, r.n2), &desc);
    let ninf = if n > 0 { judge_norm(st, "norm_inf", "f64", n, catch(|| v.norm_inf()), r.ninf, 0.0, &desc) } else {
        // undefined: panic or the conventional 0 accepted
        st.eval();
        match catch(|| v.norm_inf()) {
            Outcome::Ok(x) if x != 0.0 => { st.violation("C15:norm_inf-empty:f64:unconventional-value", format!("norm_inf of an empty vector returned {}", hexf(x))); }
            Outcome::Ok(_) => st.count("undefined:empty-norm_inf-conventional-value"),
            _ => st.count("undefined:empty-norm_inf-panicked"),
        }
        None
    };
    let mut np = vec![];
    for &p in ps {
        let t = ref_norm_p(a, p);
        let d2 = || format!("p={:?} {}", p, desc());
        np.push(judge_norm(st, "norm_p", "f64", n, catch(|| v.norm_p(p)), t, norm_rtol(n, t), &d2));
    }
    F64Norms { n1, n2, ninf, np }
}

fn pick_ps(rng: &mut Rng) -> Vec<f64> {
    let mut ps = vec![1.0, 2.0, rng.int(3, 8) as f64, rng.range(1.0, 8.0), rng.range(1.0, 2.0), 8.0];
    ps.sort_by(|a, b| a.partial_cmp(b).unwrap_or(Ordering::Equal));
    ps
}

fn norms_f64(st: &mut Stats, rng: &mut Rng) {
    st.next_case();
    let n = match rng.below(8) { 0 => 0, 1 => 1, 2 => 2, 3 => MAXLEN, _ => rng.usize(0, MAXLEN) };
    let class = rng.below(6);
    let cname = FLOAT_CLASSES[class as usize];
    let a = float_vec(rng, n, class);
    let ps = pick_ps(rng);
    let tag = format!("T=f64 class={} n={}", cname, n);
    let na = norms_of(st, &a, &ps, &tag);
    let ra = ref_norms(&a);
    let slack = 3.0 * norm_rtol(n, ra.n1.max(ra.ninf));
    let desc = || format!("{} ps={:?} v={:?}", tag, ps, a);
    // ordering laws
    law_le(st, "inf<=2", "f64", na.ninf, na.n2, slack, &desc);
    law_le(st, "2<=1", "f64", na.n2, na.n1, slack, &desc);
    for (i, p) in ps.iter().enumerate() {
        law_le(st, "inf<=p", "f64", na.ninf, na.np[i], slack, &desc);
        law_le(st, "p<=1", "f64", na.np[i], na.n1, slack, &desc);
        if i + 1 < ps.len() && ps[i + 1] > *p { law_le(st, "q>p=>normq<=normp", "f64", na.np[i + 1], na.np[i], slack, &desc); }
        if *p == 1.0 { law_eq(st, "p=1-is-norm_1", "f64", na.np[i], na.n1, slack, &desc); }
        if *p == 2.0 { law_eq(st, "p=2-is-norm_2", "f64", na.np[i], na.n2, slack, &desc); }
    }
    // homogeneity: ||alpha v|| = |alpha| ||v||, alpha*v formed by the library
    let alpha = match rng.below(5) { 0 => 2f64.powi(rng.int(-8, 8) as i32), 1 => -2f64.powi(rng.int(-8, 8) as i32), 2 => 0.0, 3 => -1.0, _ => rng.logmag(2f64.powi(-8), 8.0) };
    {
        let av: Vec<f64> = a.iter().map(|x| x * alpha).collect();
        same_bits(st, "mul-scalar", catch(|| (mk(&a) * alpha).vec), &av, &|| format!("alpha={:?} {}", alpha, desc()));
        if in_domain(&av) {
            let tag2 = format!("{} alpha={:?} (alpha*v of v={:?})", tag, alpha, a);
            let nb = norms_of(st, &av, &ps, &tag2);
            let d = || format!("{} ps={:?}", tag2, ps);
            let sc = |x: Option<f64>| x.map(|x| x * alpha.abs());
            law_eq(st, "homogeneity-1", "f64", nb.n1, sc(na.n1), slack, &d);
            law_eq(st, "homogeneity-2", "f64", nb.n2, sc(na.n2), slack, &d);
            law_eq(st, "homogeneity-inf", "f64", nb.ninf, sc(na.ninf), slack, &d);
            for i in 0..ps.len() { law_eq(st, "homogeneity-p", "f64", nb.np[i], sc(na.np[i]), slack, &d); }
        } else { st.count("skipped:outside-magnitude-domain"); }
    }
    // triangle inequality: w independent / parallel (tight) / opposite / zero
    let wk = rng.below(4);
    let w: Vec<f64> = match wk {
        0 => float_vec(rng, n, class),
        1 => { let c = 2f64.powi(rng.int(-3, 3) as i32); a.iter().map(|x| x * c).collect() }
        2 => a.iter().map(|x| -x).collect(),
        _ => { let c2 = rng.below(6); float_vec(rng, n, c2) }
    };
    let tagw = format!("{} (w, kind {})", tag, wk);
    let nw = norms_of(st, &w, &ps, &tagw);
    {
        let sv: Vec<f64> = (0..n).map(|i| a[i] + w[i]).collect();
        same_bits(st, "add-ref-ref", catch(|| (&mk(&a) + &mk(&w)).vec), &sv, &|| format!("v={:?} w={:?}", a, w));
        if in_domain(&sv) {
            let tags = format!("{} (v+w) v={:?} w={:?}", tag, a, w);
            let nsum = norms_of(st, &sv, &ps, &tags);
            let rw = ref_norms(&w);
            let sl = 3.0 * norm_rtol(n, (ra.n1 + rw.n1).max(ra.ninf + rw.ninf));
            let d = || format!("{} ps={:?}", tags, ps);
            let add = |x: Option<f64>, y: Option<f64>| match (x, y) { (Some(x), Some(y)) => Some(x + y), _ => None };
            law_le(st, "triangle-1", "f64", nsum.n1, add(na.n1, nw.n1), sl, &d);
            law_le(st, "triangle-2", "f64", nsum.n2, add(na.n2, nw.n2), sl, &d);
            law_le(st, "triangle-inf", "f64", nsum.ninf, add(na.ninf, nw.ninf), sl, &d);
            for i in 0..ps.len() { law_le(st, "triangle-p", "f64", nsum.np[i], add(na.np[i], nw.np[i]), sl, &d); }
        } else { st.count("skipped:outside-magnitude-domain"); }
    }
    st.set_insert("float-classes:f64", cname.to_string());
    if n >= 2 { let mut h = hash_str("norms-f64"); for x in &a { h = hmix(h, x.to_bits()); } st.nontrivial(h); }
    // extreme magnitudes (|x| ~ 2^+-600): the property's "inf-norm <= 2-norm <= 1-norm for all data" also covers
    // data whose squares / p-th powers are not representable although every norm is
    if n > 0 && rng.chance(0.25) {
        // common scale 2^ex with ex anywhere in the normal range: also the middle ranges where squares are
        // representable but 8th powers are not
        // half of the cases sit at the over/underflow thresholds of x^p (2^(+-1024/p), 2^(-1074/p)) for the p values in
        // use, where a mis-sized "no scaling needed" window shows first; the rest anywhere in the normal range
        let ex = if rng.bool() { rng.int(-900, 900) as i32 } else {
            let pp = *rng.pick(&[2.0f64, 2.5, 3.0, 5.0, 8.0]);
            let base = *rng.pick(&[1024.0f64, 1022.0, -1022.0, -1074.0, 1000.0, -1000.0]) / pp;
            (base.round() as i32 + rng.int(-3, 1) as i32).clamp(-1000, 1000)
        };
        let big = ex > 0;
        let e: Vec<f64> = a.iter().map(|x| (if x.signum() == 0.0 { 1.0 } else { x.signum() }) * 2f64.powi(ex) * (1.0 + x.abs().min(1.0))).collect();
        let ni = e.iter().fold(0f64, |m, x| m.max(x.abs()));
        let n1: f64 = e.iter().map(|x| x.abs()).sum();
        let p = *rng.pick(&[2.0, 3.0, 5.0, 8.0, 1.0, 2.5]);
        for (name, out) in [("norm_2", catch(|| mk(&e).norm_2())), ("norm_p", catch(|| mk(&e).norm_p(p)))] {
            st.eval();
            match out {
                Outcome::Ok(g) => {
                    if !g.is_finite() || !(g >= ni * (1.0 - 1e-12)) || !(g <= n1 * (1.0 + 1e-12)) {
                        st.violation(&format!("C15:{}:f64:range-{}", name, if big { "overflow" } else { "underflow" }), format!("{}{} = {:e} violates inf-norm {:e} <= norm <= 1-norm {:e}; v={:?}", name, if name == "norm_p" { format!("({})", p) } else { String::new() }, g, ni, n1, e));
                    } else { st.count("extreme-magnitude-norm-laws-held"); }
                }
                o => st.violation(&format!("C15:{}:f64:panic", name), format!("{}; v={:?}", o.describe(), e)),
            }
        }
    }
}

fn cmod_dd(z: &Cmplx) -> DD { (DD::prod(z.real, z.real) + DD::prod(z.imag, z.imag)).sqrt() }
fn ref_cnorms(a: &[Cmplx]) -> (f64, f64) {
    let mut s = DD::ZERO; let mut mx = 0f64;
    for z in a { let m = cmod_dd(z); s = s + m; mx = mx.max(m.f()); }
    (s.f(), mx)
}
/// norm_1 (generic, returned as a complex number with zero imaginary part) and norm_inf of a complex vector
fn cnorms_of(st: &mut Stats, a: &[Cmplx], tag: &str) -> (Option<f64>, Option<f64>) {
    let n = a.len();
    let v = mk(a);
    let (r1, rinf) = ref_cnorms(a);
    let desc = || format!("{} v={:?}", tag, a);
    let o1 = catch(|| v.norm_1());
    if let Outcome::Ok(z) = &o1 {
        if z.imag != 0.0 { st.violation("C15:norm_1:Complex<f64>:nonzero-imaginary-part", format!("norm_1 = {:?}; {}", z, desc())); }
    }
    let n1 = judge_norm(st, "norm_1", "Complex<f64>", n, o1.map_val(|z| z.real), r1, norm_rtol(n, r1) + MOD_TOL, &desc);
    let ninf = if n > 0 { judge_norm(st, "norm_inf", "Complex<f64>", n, catch(|| v.norm_inf()), rinf, MOD_TOL, &desc) } else {
        st.eval();
        match catch(|| v.norm_inf()) {
            Outcome::Ok(x) if x != 0.0 => { st.violation("C15:norm_inf-empty:Complex<f64>:unconventional-value", format!("norm_inf of an empty vector returned {}", hexf(x))); }
            Outcome::Ok(_) => st.count("undefined:empty-norm_inf-conventional-value"),
            _ => st.count("undefined:empty-norm_inf-panicked"),
        }
        None
    };
    (n1, ninf)
}
trait MapVal<R> { fn map_val<S>(self, f: impl FnOnce(R) -> S) -> Outcome<S>; }
impl<R> MapVal<R> for Outcome<R> {
    fn map_val<S>(self, f: impl FnOnce(R) -> S) -> Outcome<S> {
        match self {
            Outcome::Ok(r) => Outcome::Ok(f(r)),
            Outcome::Panic { msg, loc } => Outcome::Panic { msg, loc },
            Outcome::Overflow => Outcome::Overflow,
            Outcome::Budget => Outcome::Budget,
        }
    }
}

fn norms_cmplx(st: &mut Stats, rng: &mut Rng) {
    st.next_case();
    let n = match rng.below(8) { 0 => 0, 1 => 1, 2 => 2, 3 => MAXLEN, _ => rng.usize(0, MAXLEN) };
    let class = rng.below(6);
    let cname = FLOAT_CLASSES[class as usize];
    let cim = if rng.bool() { class } else { rng.below(6) };
    let (re, im) = (float_vec(rng, n, class), float_vec(rng, n, cim));
    let a: Vec<Cmplx> = (0..n).map(|i| Cmplx::new(re[i], im[i])).collect();
    let tag = format!("T=Complex<f64> class={} n={}", cname, n);
    let (r1, _rinf) = ref_cnorms(&a);
    let (n1, ninf) = cnorms_of(st, &a, &tag);
    let slack = 3.0 * (norm_rtol(n, r1) + MOD_TOL);
    let desc = || format!("{} v={:?}", tag, a);
    law_le(st, "inf<=1", "Complex<f64>", ninf, n1, slack, &desc);
    // homogeneity with a complex factor (|alpha| from the double-double modulus)
    let alpha = match rng.below(4) { 0 => Cmplx::new(0.0, 2f64.powi(rng.int(-8, 8) as i32)), 1 => Cmplx::new(-1.0, 0.0), 2 => Cmplx::new(0.0, 0.0), _ => Cmplx::new(rng.logmag(0.01, 8.0), rng.logmag(0.01, 8.0)) };
    let am = cmod_dd(&alpha).f();
    if let Outcome::Ok(av) = catch(|| (mk(&a) * alpha).vec) {
        let flat: Vec<f64> = av.iter().flat_map(|z| [z.real, z.imag]).collect();
        if av.len() == n && in_domain(&flat) {
            let tag2 = format!("{} alpha={:?} (alpha*v of v={:?})", tag, alpha, a);
            let (m1, minf) = cnorms_of(st, &av, &tag2);
            let d = || tag2.clone();
            law_eq(st, "homogeneity-1", "Complex<f64>", m1, n1.map(|x| x * am), slack, &d);
            law_eq(st, "homogeneity-inf", "Complex<f64>", minf, ninf.map(|x| x * am), slack, &d);
        } else { st.count("skipped:outside-magnitude-domain"); }
    }
    // triangle inequality
    let wk = rng.below(3);
    let w: Vec<Cmplx> = match wk {
        0 => { let (x, y) = (float_vec(rng, n, class), float_vec(rng, n, class)); (0..n).map(|i| Cmplx::new(x[i], y[i])).collect() }
        1 => { let c = 2f64.powi(rng.int(-3, 3) as i32); a.iter().map(|z| Cmplx::new(z.real * c, z.imag * c)).collect() }
        _ => a.iter().map(|z| Cmplx::new(-z.real, -z.imag)).collect(),
    };
    let (w1, winf) = cnorms_of(st, &w, &format!("{} (w, kind {})", tag, wk));
    let sv: Vec<Cmplx> = (0..n).map(|i| Cmplx::new(a[i].real + w[i].real, a[i].imag + w[i].imag)).collect();
    st.eval();
    match catch(|| (&mk(&a) + &mk(&w)).vec) {
        Outcome::Ok(g) if g.len() == n && g.iter().zip(&sv).all(|(x, y)| x.real == y.real && x.imag == y.imag) => {}
        other => st.violation("C15:add-ref-ref:Complex<f64>:wrong-value", format!("&v+&w gave {:?}, elementwise IEEE result is {:?}; v={:?} w={:?}", other.ok(), sv, a, w)),
    }
    let flat: Vec<f64> = sv.iter().flat_map(|z| [z.real, z.imag]).collect();
    if in_domain(&flat) {
        let tags = format!("{} (v+w) v={:?} w={:?}", tag, a, w);
        let (s1, sinf) = cnorms_of(st, &sv, &tags);
        let (rw1, _) = ref_cnorms(&w);
        let sl = 3.0 * (norm_rtol(n, r1 + rw1) + MOD_TOL);
        let d = || tags.clone();
        let add = |x: Option<f64>, y: Option<f64>| match (x, y) { (Some(x), Some(y)) => Some(x + y), _ => None };
        law_le(st, "triangle-1", "Complex<f64>", s1, add(n1, w1), sl, &d);
        law_le(st, "triangle-inf", "Complex<f64>", sinf, add(ninf, winf), sl, &d);
    } else { st.count("skipped:outside-magnitude-domain"); }
    st.set_insert("float-classes:Complex<f64>", cname.to_string());
    if n >= 2 { let mut h = hash_str("norms-cmplx"); for z in &a { h = hmix(hmix(h, z.real.to_bits()), z.imag.to_bits()); } st.nontrivial(h); }
}

// ---------------------------------------------------------------- linspace / powspace
fn space_case(st: &mut Stats, rng: &mut Rng) {
    st.next_case();
    let n = match rng.below(10) { 0 => 2, 1 => 3, 2 => MAXLEN, _ => rng.usize(2, MAXLEN) };
    let k = 2f64.powi(rng.int(-60, 60) as i32);
    let (a, b) = match rng.below(8) {
        0 => (rng.int(-9, 9) as f64, rng.int(-9, 9) as f64),
        // end points only a few ulps apart: the node spacing is comparable to the rounding of the end points
        7 => { let x = if rng.bool() { rng.sym() * k } else { rng.sym() }; let d = rng.int(1, 200); let y = f64::from_bits((x.to_bits() as i64 + d) as u64); if rng.bool() { (x, y) } else { (y, x) } }
        1 => (rng.sym(), rng.sym()),
        2 => (rng.sym() * k, rng.sym() * k),
        3 => { let x = rng.sym() * k; (x, x) }
        4 => (0.0, rng.logmag(1e-3, 1e3)),
        5 => { let x = rng.logmag(0.5, 2.0); (x, x * (1.0 + rng.sym() * 2f64.powi(-rng.int(1, 40) as i32))) }
        _ => (rng.logmag(1e-6, 1e6), rng.logmag(1e-6, 1e6)),
    };
    let pw = rng.bool();
    let p = if !pw { 1.0 } else { match rng.below(5) { 0 => 1.0, 1 => 2.0, 2 => 0.5, 3 => 3.0, _ => rng.range(0.25, 8.0) } };
    let site = if pw { "powspace" } else { "linspace" };
    let desc = || format!("{}(a={}, b={}, n={}{})", site, hexf(a), hexf(b), n, if pw { format!(", p={:?}", p) } else { String::new() });
    // undefined n < 2: call and ignore
    if rng.chance(0.03) {
        let m = rng.usize(0, 1);
        let _ = catch(|| if pw { Vector::<f64>::powspace(a, b, m, p).vec } else { Vector::<f64>::linspace(a, b, m).vec });
        st.count("undefined:space-n<2");
    }
    st.eval();
    st.count(&format!("evals:{}:f64", site));
    let g = match catch(|| if pw { Vector::<f64>::powspace(a, b, n, p).vec } else { Vector::<f64>::linspace(a, b, n).vec }) {
        Outcome::Ok(g) => g,
        other => { st.violation(&format!("C15:{}:f64:refused", site), format!("{} ; {}", other.describe(), desc())); return; }
    };
    if g.len() != n { st.violation(&format!("C15:{}:f64:wrong-length", site), format!("length {} ; {}", g.len(), desc())); return; }
    let mx = a.abs().max(b.abs());
    let tol = SPACE_K * (4.0 * U * (b - a).abs() + U * mx);
    if !(g[0] == a) { st.violation(&format!("C15:{}:f64:first-not-a", site), format!("first element {} ; {}", hexf(g[0]), desc())); }
    let elast = (g[n - 1] - b).abs();
    if tol > 0.0 { st.max(&format!("ratio:{}:last-minus-b/tol", site), elast / tol); }
    if !(elast <= tol) { st.violation(&format!("C15:{}:f64:last-not-b", site), format!("last element {} differs from b by {:e} > {:e}; {}", hexf(g[n - 1]), elast, tol, desc())); }
    // every element against the definition a + (b-a)*(i/(n-1))^p
    let up = b > a;
    let mut prev_true = DD::from(a);
    for i in 0..n {
        let t = DD::from(i as f64) / DD::from((n - 1) as f64);
        let tp = if !pw || p == 1.0 { t } else if p == 2.0 { t * t } else if p == 3.0 { t * t * t } else if p == 0.5 { t.sqrt() } else { DD::from(t.f().powf(p)) };
        let truth = DD::from(a) + (DD::from(b) - DD::from(a)) * tp;
        let err = (DD::from(g[i]) - truth).f().abs();
        if tol > 0.0 { st.max(&format!("ratio:{}:element-err/tol", site), err / tol); }
        if !(err <= tol) {
            st.violation(&format!("C15:{}:f64:wrong-element", site), format!("element {} = {} but the definition gives {} (error {:e} > {:e}); got {:?}; {}", i, hexf(g[i]), hexf(truth.f()), err, tol, g, desc()));
            break;
        }
        if i > 0 {
            let weak = if a == b { g[i] == g[i - 1] } else if up { g[i] >= g[i - 1] } else { g[i] <= g[i - 1] };
            let inc = (truth - prev_true).f().abs();
            let strict_due = inc >= STRICT_K * U * mx && a != b;
            let strict = if up { g[i] > g[i - 1] } else { g[i] < g[i - 1] };
            if !weak || (strict_due && !strict) {
                st.violation(&format!("C15:{}:f64:not-monotone", site), format!("elements {}..{}: {} then {} (true increment {:e}); got {:?}; {}", i - 1, i, hexf(g[i - 1]), hexf(g[i]), inc, g, desc()));
                break;
            }
            if strict_due { st.count("spaces:strict-steps-checked"); }
        }
        prev_true = truth;
    }
    st.nontrivial(hmix(hmix(hmix(hmix(hash_str(site), a.to_bits()), b.to_bits()), n as u64), p.to_bits()));
    st.sample(|| desc());
}

// ---------------------------------------------------------------- reductions on non-finite data
/// dot / sum / product are DEFINED by their left-to-right IEEE loops: with infinities, NaNs and signed zeros among the
/// entries the result must be what that loop gives (0 * inf is NaN; nothing may be skipped), and dot must commute.
fn nonfinite_reductions(st: &mut Stats, rng: &mut Rng) {
    st.next_case();
    let n = rng.usize(1, 8);
    let pick = |rng: &mut Rng| *rng.pick(&[0.0, -0.0, 1.0, -2.0, 0.5, f64::INFINITY, f64::NEG_INFINITY, f64::NAN, 1e308, -1e308, 5e-324]);
    let (a, b): (Vec<f64>, Vec<f64>) = ((0..n).map(|_| pick(rng)).collect(), (0..n).map(|_| pick(rng)).collect());
    let same = |x: f64, y: f64| (x.is_nan() && y.is_nan()) || x.to_bits() == y.to_bits() || (x == 0.0 && y == 0.0);
    let (va, vb) = (Vector::create(a.clone()), Vector::create(b.clone()));
    let mut d = 0.0f64; for i in 0..n { d += a[i] * b[i]; }
    let mut d2 = 0.0f64; for i in 0..n { d2 += b[i] * a[i]; }
    let mut sm = 0.0f64; for i in 0..n { sm += a[i]; }
    let mut pr = 1.0f64; for i in 0..n { pr *= a[i]; }
    st.eval();
    match (catch(|| va.dot(&vb)), catch(|| vb.dot(&va))) {
        (Outcome::Ok(g), Outcome::Ok(h)) => { if !same(g, d) || !same(h, d2) { st.violation("C15:dot:f64:non-finite-data", format!("a.dot(b) = {:?}, b.dot(a) = {:?}; the defining loops give {:?} and {:?}; a={:?} b={:?}", g, h, d, d2, a, b)); } }
        (o, _) if !o.is_ok() => st.violation("C15:dot:f64:panic", format!("{}; a={:?} b={:?}", o.describe(), a, b)),
        (_, o) => st.violation("C15:dot:f64:panic", format!("{}; a={:?} b={:?}", o.describe(), a, b)),
    }
    st.eval();
    if let (Outcome::Ok(g), Outcome::Ok(h)) = (catch(|| va.sum()), catch(|| va.product())) {
        if !same(g, sm) || !same(h, pr) { st.violation("C15:sum-product:f64:non-finite-data", format!("sum = {:?} (loop {:?}), product = {:?} (loop {:?}); a={:?}", g, sm, h, pr, a)); }
    }
    // complex: a zero entry against an infinite one
    let za: Vec<Cmplx> = a.iter().zip(&b).map(|(x, y)| Cmplx::new(*x, if y.is_finite() { *y } else { 0.0 })).collect();
    let zb: Vec<Cmplx> = b.iter().zip(&a).map(|(x, y)| Cmplx::new(*x, if y.is_finite() { 0.0 } else { 1.0 })).collect();
    let mut zd = Cmplx::new(0.0, 0.0); for i in 0..n { zd += za[i] * zb[i]; }
    st.eval();
    if let Outcome::Ok(g) = catch(|| Vector::create(za.clone()).dot(&Vector::create(zb.clone()))) {
        if !same(g.real, zd.real) || !same(g.imag, zd.imag) { st.violation("C15:dot:Cmplx:non-finite-data", format!("dot = {:?}, the defining loop gives {:?}; a={:?} b={:?}", g, zd, za, zb)); }
    }
    st.count("non-finite-reduction-cases");
}

// ---------------------------------------------------------------- driver
fn pick_len(rng: &mut Rng) -> usize { match rng.below(10) { 0 => 0, 1 => 1, 2 => 2, 3 => MAXLEN, _ => rng.usize(0, MAXLEN) } }
fn pick_fl(rng: &mut Rng) -> u32 { *rng.pick(&[0u32, 0, 1, 2, 2]) }

fn random_unit(st: &mut Stats, rng: &mut Rng, u: u64) {
    for _ in 0..4 { nonfinite_reductions(st, rng); }
    // histories, one per element type
    let steps = |rng: &mut Rng| if rng.chance(0.15) { rng.usize(60, 160) } else { rng.usize(1, 48) };
    let s = steps(rng); history::<Rat>(st, rng, s);
    let s = steps(rng); history::<i64>(st, rng, s);
    let s = steps(rng); history::<f64>(st, rng, s);
    let s = steps(rng); history::<Cmplx>(st, rng, s);
    let s = steps(rng); history::<CRat>(st, rng, s);
    let s = steps(rng); history::<CxR>(st, rng, s);
    // element-wise arithmetic, dot, abs, norm_1, conj, real
    let (n, fl) = (pick_len(rng), pick_fl(rng));
    arith_clone::<Rat>(st, rng, n, fl); arith_copy::<Rat>(st, rng, n, fl); arith_neg::<Rat>(st, rng, n, fl); arith_signed::<Rat>(st, rng, n, fl);
    let (n, fl) = (pick_len(rng), pick_fl(rng));
    arith_clone::<CRat>(st, rng, n, fl); arith_copy::<CRat>(st, rng, n, fl); arith_neg::<CRat>(st, rng, n, fl); arith_signed::<CRat>(st, rng, n, fl);
    let (n, fl) = (pick_len(rng), pick_fl(rng));
    arith_clone::<CxR>(st, rng, n, fl); arith_neg::<CxR>(st, rng, n, fl); conj_real_exact(st, rng, n, fl);
    let (n, fl) = (pick_len(rng), pick_fl(rng));
    arith_clone::<f64>(st, rng, n, fl); arith_copy::<f64>(st, rng, n, fl); arith_neg::<f64>(st, rng, n, fl); arith_signed::<f64>(st, rng, n, fl); left_mul_f64(st, rng, n, fl);
    let (n, fl) = (pick_len(rng), pick_fl(rng));
    arith_clone::<Cmplx>(st, rng, n, fl); arith_copy::<Cmplx>(st, rng, n, fl); arith_neg::<Cmplx>(st, rng, n, fl); conj_real_abs_cmplx(st, rng, n, fl);
    // range reductions: even units sweep every (start,end) of a short vector, odd units random ranges up to length 64
    let full = u % 2 == 0;
    let ty = (u / 2) % 4;
    let n = if full { rng.usize(0, 24) } else { pick_len(rng) };
    let fl = *rng.pick(&[0u32, 1, 1, 2]);
    match ty {
        0 => reductions::<Rat>(st, rng, n, full, fl),
        1 => reductions::<CRat>(st, rng, n, full, fl),
        2 => reductions::<f64>(st, rng, n, full, fl),
        _ => reductions::<Cmplx>(st, rng, n, full, fl),
    }
    // numerical norms and their laws, generated sequences
    norms_f64(st, rng);
    norms_cmplx(st, rng);
    space_case(st, rng);
    space_case(st, rng);
    exact_quotients(st, rng);
}

/// scalar division on exactly divisible data with a non-dyadic divisor: x = k*s exactly, so x/s == k exactly in IEEE
/// arithmetic (a reciprocal-multiply "optimisation" is 1 ulp off, e.g. 49*(1/49) != 1); `/` and `/=` must agree bit for bit
fn exact_quotients(st: &mut Stats, rng: &mut Rng) {
    st.next_case();
    let n = rng.usize(1, 24);
    let s = *rng.pick(&[3.0, 7.0, 49.0, 10.0, 5.0, 11.0, 6.0, -49.0, 1000.0, 98.0, 41.0]);
    let k: Vec<f64> = (0..n).map(|_| rng.int(-60, 60) as f64).collect();
    let x: Vec<f64> = k.iter().map(|v| v * s).collect();
    let bits = |v: &[f64]| v.iter().map(|t| t.to_bits()).collect::<Vec<_>>();
    let d = || format!("x={:?} s={}", x, s);
    st.eval();
    match catch(|| (mk(&x) / s).vec) { Outcome::Ok(q) => if bits(&q) != bits(&k) && q != k { st.violation("C15:div-scalar:f64:inexact-on-exact-data", format!("v / s = {:?} expected {:?}; {}", q, k, d())); }, o => st.violation("C15:div-scalar:f64:refused", format!("{}; {}", o.describe(), d())) }
    st.eval();
    match catch(|| { let mut v = mk(&x); v /= s; v.vec }) { Outcome::Ok(q) => if q != k { st.violation("C15:div-assign-scalar:f64:inexact-on-exact-data", format!("v /= s gives {:?} expected {:?}; {}", q, k, d())); }, o => st.violation("C15:div-assign-scalar:f64:refused", format!("{}; {}", o.describe(), d())) }
    // complex vector divided by a real-valued complex scalar and by a Gaussian integer w: (z*w)/w == z exactly on small integers
    let w = Cmplx::new(rng.int(1, 7) as f64, rng.int(-7, 7) as f64);
    let z: Vec<Cmplx> = (0..n).map(|_| Cmplx::new(rng.int(-9, 9) as f64, rng.int(-9, 9) as f64)).collect();
    let zw: Vec<Cmplx> = z.iter().map(|t| *t * w).collect();
    st.eval();
    match catch(|| (mk(&zw) / w).vec) { Outcome::Ok(q) => if q != z { st.violation("C15:div-scalar:Complex<f64>:inexact-on-exact-data", format!("(z*w)/w = {:?} expected {:?}; w={:?}", q, z, w)); }, o => st.violation("C15:div-scalar:Complex<f64>:refused", o.describe()) }
    st.eval();
    match catch(|| { let mut v = mk(&zw); v /= w; v.vec }) { Outcome::Ok(q) => if q != z { st.violation("C15:div-assign-scalar:Complex<f64>:inexact-on-exact-data", format!("v /= w gives {:?} expected {:?}; w={:?}", q, z, w)); }, o => st.violation("C15:div-assign-scalar:Complex<f64>:refused", o.describe()) }
    st.count("exact-quotient-cases");
    // aliasing: the same vector on both sides (exact over Rat)
    let r: Vec<Rat> = (0..n).map(|_| Rat::int(rng.int(-9, 9))).collect();
    let vr = mk(&r);
    st.eval();
    match catch(|| ((&vr + &vr).vec, (&vr - &vr).vec, vr.dot(&vr))) {
        Outcome::Ok((p, q, dd)) => {
            let dbl: Vec<Rat> = r.iter().map(|x| *x + *x).collect();
            let sq = r.iter().fold(Rat::ZERO, |a, x| a + *x * *x);
            if p != dbl || q != vec![Rat::ZERO; n] || dd != sq { st.violation("C15:aliased-operands:Rat:wrong-value", format!("v={:?}: v+v={:?} v-v={:?} v.v={:?}", r, p, q, dd)); }
        }
        Outcome::Overflow => {}
        o => st.violation("C15:aliased-operands:Rat:refused", format!("v={:?}: {}", r, o.describe())),
    }
}

pub fn run(ctx: &Ctx) -> Report {
    let nsweep = SWEEP_OPS * SWEEP_OPS;
    // all lengths 0..=24 once per type with every range (deterministic lengths, seeded data)
    let nlen = 25 * 4;
    let nrand = ctx.vol(30_000, 500_000);
    let stats = par_run(ctx, TAG, nsweep + nlen + nrand, |u, rng, st| {
        if u < nsweep { sweep_unit(st, u); }
        else if u < nsweep + nlen {
            let k = u - nsweep;
            let (n, ty) = ((k / 4) as usize, k % 4);
            for fl in [0u32, 1] {
                match ty {
                    0 => reductions::<Rat>(st, rng, n, true, fl),
                    1 => reductions::<CRat>(st, rng, n, true, fl),
                    2 => reductions::<f64>(st, rng, n, true, fl),
                    _ => reductions::<Cmplx>(st, rng, n, true, fl),
                }
            }
        } else { random_unit(st, rng, u - nsweep - nlen); }
    });
    let mut rep = Report::new(stats,
        "cases: (1) all 11^4 sequences of {push,push_front,insert(mid),pop,swap(first,last),resize(+2),resize(/2),assign,clear,sort,find} from 3 start lists over Rat, in lock step with a plain list; \
         (2) random histories (1..160 steps, length kept <= 64, tiny value domain so duplicates abound) of push/push_front/insert/pop/swap/resize/assign/clear/sort/sort_by(3 comparators)/find/index write/index read/clone from empty/create/new/zeros/ones, per type Rat,i64,f64,Complex<f64>,CRat,Complex<Rat> (each type only the operations its trait bounds admit); vec field, size() and return values compared after every step; \
         (3) the 16 arithmetic impls + f64*vector, dot, abs, norm_1, conj, real on random vectors of length 0..64 (boundary lengths 0,1,2,64 favoured) through Rat, CRat, Complex<Rat> (Clone-only impls), f64 and Complex<f64> on small dyadic data with an exactness certificate; size mismatches must be rejected; \
         (4) sum_slice/product_slice for every (start,end) in [0,len+1]^2 (valid: exact value; start>end or end>=len: must panic) for every len 0..24 and type Rat,CRat,f64,Complex<f64>, plus random ranges up to len 64, sum()/product(); \
         (5) norm_1/norm_2/norm_p(p in [1,8], 6 values per vector)/norm_inf of f64 and norm_1/norm_inf of Complex<f64> vectors (6 data classes incl. magnitudes graded over 2^+-100) against double-double references, with non-negativity, homogeneity, triangle inequality (independent/parallel/opposite w) and inf<=2<=1, inf<=p<=1, monotonicity in p; \
         (6) linspace/powspace with n in 2..64: first==a, last~b, every element against the definition, monotone. \
         non-trivial: vectors of length >= 2 (histories: >= 3 editing steps and a length >= 2 reached; sequences: every n >= 2 case); distinct = distinct hashes of (part, type, literal data / history states)");
    rep.assumptions = vec![
        "generic dot is the bilinear sum of a_i*b_i (no conjugation), as coded and documented in the source".into(),
        "find(x) = first index of an element equal to x, else len-1 (source comment); find/sum/product/norm_inf on an empty vector, pop on empty and linspace/powspace with n<2 are undefined: panic or conventional value (0, 1) accepted".into(),
        "f64 / Complex<f64> exact checks are made only on small dyadic data for which the generator certifies every intermediate exactly representable (integers*2^-s below 2^50, any evaluation order); otherwise the case is skipped and counted".into(),
        "numerical norms are judged for entries that are 0 or of magnitude within [2^-118, 2^118] (no overflow/underflow of |x|^8 or of 64-term sums) with fixed tolerances; for entries at a common scale 2^e, e in [-900,900], finiteness and inf-norm <= norm_2/norm_p <= 1-norm are judged".into(),
        "tolerances (fixed): norms NORM_K*(n+8+|ln N|)*u relative with NORM_K=128; complex modulus 256u; norm_inf(f64) exact; laws with 3x the value tolerance as slack; linspace/powspace elements 128*(4u|b-a|+u*max(|a|,|b|)); strict monotonicity demanded when the true step >= 32u*max(|a|,|b|)".into(),
        "abs()/norm_1() over the harness type CRat use its Signed::abs (|re|+|im|) by definition; Complex<f64> abs is the modulus sqrt(re^2+im^2)".into(),
        "Rat overflow in model or library => case skipped (counted), never judged".into(),
    ];
    rep.min_nontrivial = if ctx.quick() { 100_000 } else { 2_000_000 };
    let mut ex = J::obj();
    ex.set("exhaustive_parts", J::Arr(vec![
        J::s("all 11^4 = 14641 four-step edit sequences from each of 3 start lists (Rat)"),
        J::s("every (start,end) in [0,len+1]^2 for every len 0..24, types Rat/CRat/f64/Complex<f64>, sum_slice and product_slice"),
    ]));
    rep.extra = ex;
    rep
}
