//! C04 — a banded matrix behaves exactly like the dense matrix with the same band.
use crate::fl::{self, U};
use crate::model::{exact_det_rank_inv, vec_to_ohsl, DM};
use crate::mon::c01::{kappa_exact, mag_crat, mag_rat, KMAX};
use crate::mon::common::*;
use crate::rat::{CRat, Exact, Rat};
use crate::rng::Rng;
use crate::run::{catch, par_run, Ctx, Outcome, Report, Stats};
use ohsl::{Banded, Cmplx, Vector};

const TAG: u64 = 0xC04;
fn tau(n: usize) -> f64 { 4096.0 * n as f64 * U }
pub const CLASSES: [&str; 7] = ["positive", "mixed-sign", "negative-diagonal", "zero-diagonal", "tiny-subdiagonal", "zeros-in-band", "small-alphabet-dominant"];

fn inband(i: usize, j: usize, m1: usize, m2: usize) -> bool { j <= i + m2 && i <= j + m1 }

/// in-band integer/dyadic values (as Rat) of the given class; zeros elsewhere
pub fn gen_band(rng: &mut Rng, n: usize, m1: usize, m2: usize, class: usize) -> DM<Rat> {
    DM::from_fn(n, n, |i, j| {
        if !inband(i, j, m1, m2) { return Rat::ZERO; }
        match class {
            0 => Rat::int(rng.int(1, 9)),
            1 => Rat::int(rng.nzint(9)),
            2 => if i == j { Rat::int(-rng.int(1, 9)) } else { Rat::int(rng.int(-9, 9)) },
            3 => if i == j && m1 >= 1 { Rat::ZERO } else { Rat::int(rng.nzint(9)) },
            4 => if i == j { Rat::int(-rng.int(1, 4)) } else if i == j + 1 { Rat::new(rng.int(1, 3) as i128, 1 << 30) } else { Rat::int(rng.int(-4, 4)) },
            6 => if i == j { Rat::int(rng.int(6, 9)) } else { Rat::int(rng.int(0, 2)) }, // small alphabet: equal entries abound
            _ => if rng.chance(0.3) { Rat::ZERO } else { Rat::int(rng.nzint(9)) },
        }
    })
}

fn to_c(d: &DM<Rat>, rng: &mut Rng, m1: usize, m2: usize) -> DM<CRat> {
    DM::from_fn(d.r, d.c, |i, j| if inband(i, j, m1, m2) && !d.a[i][j].is_zero() { CRat::new(d.a[i][j], Rat::int(rng.int(-3, 3))) } else { CRat::default() })
}

fn build<E: Exact>(d: &DM<E>, m1: usize, m2: usize, pad: E) -> Banded<E> {
    let n = d.r;
    let mut b = Banded::<E>::new(n, m1, m2, pad);
    for i in 0..n { for j in 0..n { if inband(i, j, m1, m2) { b[(i, j)] = d.a[i][j]; } } }
    b
}

fn band_eq<E: Exact>(b: &Banded<E>, d: &DM<E>, m1: usize, m2: usize) -> bool {
    if b.size() != d.r || b.size_below() != m1 || b.size_above() != m2 { return false; }
    matches!(catch(|| { for i in 0..d.r { for j in 0..d.r { if inband(i, j, m1, m2) && b[(i, j)] != d.a[i][j] { return false; } } } true }), Outcome::Ok(true))
}

fn judge_exact<E: Exact>(st: &mut Stats, rng: &mut Rng, class: &str, d: &DM<E>, m1: usize, m2: usize, pads: (E, E), rv: impl Fn(&mut Rng) -> E) {
    let n = d.r;
    st.next_case();
    let desc = || format!("T={} n={} m1={} m2={} class={} pads=({:?},{:?}) dense={}", E::NAME, n, m1, m2, class, pads.0, pads.1, d.show());
    let b1 = build(d, m1, m2, pads.0);
    let b2 = build(d, m1, m2, pads.1);
    let t = format!("{}", E::NAME);
    // element access
    st.eval();
    for i in 0..n { for j in 0..n {
        let r = catch(|| b1[(i, j)]);
        if inband(i, j, m1, m2) {
            if !matches!(r, Outcome::Ok(v) if v == d.a[i][j]) { st.violation(&format!("C04:index:{}:wrong-value", t), format!("B[({},{})] {:?} expected {:?}; {}", i, j, r, d.a[i][j], desc())); }
        } else if !r.is_panic() { st.violation(&format!("C04:index:{}:out-of-band-accepted", t), format!("B[({},{})] returned {:?} for an out-of-band position; {}", i, j, r, desc())); }
    } }
    // product
    let v: Vec<E> = (0..n).map(|_| rv(rng)).collect();
    let want = d.mulvec(&v);
    let vv = vec_to_ohsl(&v);
    let mut prods = vec![];
    for (k, b) in [&b1, &b2].iter().enumerate() {
        st.eval();
        match catch(|| *b * &vv) {
            Outcome::Overflow => st.count("skipped:rat-overflow"),
            Outcome::Ok(p) => { if p.vec != want { st.violation(&format!("C04:mulvec:{}:wrong-value", t), format!("pad#{} B*v = {:?} expected {:?}; v={:?}; {}", k, p.vec, want, v, desc())); } prods.push(p.vec); }
            o => st.violation(&format!("C04:mulvec:{}:panic", t), format!("pad#{} B*v {}; {}", k, o.describe(), desc())),
        }
    }
    if prods.len() == 2 && prods[0] != prods[1] { st.violation(&format!("C04:mulvec:{}:padding-dependent", t), desc()); }
    st.eval();
    if let Outcome::Ok(p) = catch(|| b1.clone() * vv.clone()) { if p.vec != want { st.violation(&format!("C04:mulvec-owned:{}:wrong-value", t), desc()); } }
    // determinant and solve
    let (det, rank, inv) = match catch(|| exact_det_rank_inv(d)) { Outcome::Ok(x) => x, _ => { st.count("skipped:rat-overflow-in-model"); return; } };
    let mut dets = vec![];
    for (k, b) in [&b1, &b2].iter().enumerate() {
        st.eval();
        match catch(|| b.det()) {
            Outcome::Overflow => st.count("skipped:rat-overflow"),
            Outcome::Ok(x) => { if x != det { st.violation(&format!("C04:det:{}:{}", t, if rank < n { "singular-nonzero" } else { "wrong-value" }), format!("pad#{} det = {:?} exact {:?}; {}", k, x, det, desc())); } dets.push(x); }
            o => st.violation(&format!("C04:det:{}:{}", t, if rank < n { "singular-panic" } else { "nonsingular-panic" }), format!("pad#{} det {} (exact {:?}); {}", k, o.describe(), det, desc())),
        }
    }
    if dets.len() == 2 && dets[0] != dets[1] { st.violation(&format!("C04:det:{}:padding-dependent", t), desc()); }
    if let Some(inv) = inv {
        let rhs: Vec<E> = (0..n).map(|_| rv(rng)).collect();
        if let Outcome::Ok(xt) = catch(|| inv.mulvec(&rhs)) {
            let rr = vec_to_ohsl(&rhs);
            let mut sols = vec![];
            for (k, b) in [&b1, &b2].iter().enumerate() {
                st.eval();
                match catch(|| b.solve(&rr)) {
                    Outcome::Overflow => st.count("skipped:rat-overflow"),
                    Outcome::Ok(x) => { if x.vec != xt { st.violation(&format!("C04:solve:{}:wrong-solution", t), format!("pad#{} solve = {:?} exact {:?}; rhs={:?}; {}", k, x.vec, xt, rhs, desc())); } sols.push(x.vec); }
                    o => st.violation(&format!("C04:solve:{}:refused-nonsingular", t), format!("pad#{} solve {} (det {:?}); rhs={:?}; {}", k, o.describe(), det, rhs, desc())),
                }
            }
            if sols.len() == 2 && sols[0] != sols[1] { st.violation(&format!("C04:solve:{}:padding-dependent", t), desc()); }
            if !band_eq(&b1, d, m1, m2) { st.violation(&format!("C04:solve:{}:mutated-matrix", t), desc()); }
        }
    }
    // arithmetic (17 impls) judged on the in-band entries
    let o = DM::<E>::from_fn(n, n, |i, j| if inband(i, j, m1, m2) { rv(rng) } else { E::zero() });
    let ob = build(&o, m1, m2, pads.1);
    let s = { let x = rv(rng); if x.is_zero_e() { E::from_int(2) } else { x } };
    let map = |f: &dyn Fn(E, E) -> E| DM::<E>::from_fn(n, n, |i, j| if inband(i, j, m1, m2) { f(d.a[i][j], o.a[i][j]) } else { E::zero() });
    let mut chk = |st: &mut Stats, name: &str, out: Outcome<Banded<E>>, want: DM<E>| {
        st.eval();
        match out {
            Outcome::Overflow => st.count("skipped:rat-overflow"),
            Outcome::Ok(b) => if !band_eq(&b, &want, m1, m2) { st.violation(&format!("C04:{}:{}:wrong-result", name, t), format!("{} other={} s={:?}; {}", name, o.show(), s, desc())); },
            oo => st.violation(&format!("C04:{}:{}:panic", name, t), format!("{} {}; {}", name, oo.describe(), desc())),
        }
    };
    chk(st, "add(&B,&B):aliased", catch(|| &b1 + &b1), DM::<E>::from_fn(n, n, |i, j| if inband(i, j, m1, m2) { d.a[i][j] + d.a[i][j] } else { E::zero() }));
    chk(st, "sub(&B,&B):aliased", catch(|| &b1 - &b1), DM::<E>::from_fn(n, n, |_, _| E::zero()));
    chk(st, "neg(&B)", catch(|| -&b1), map(&|a, _| -a));
    chk(st, "neg(B)", catch(|| -b1.clone()), map(&|a, _| -a));
    chk(st, "add(&B,&B)", catch(|| &b1 + &ob), map(&|a, b| a + b));
    chk(st, "add(B,B)", catch(|| b1.clone() + ob.clone()), map(&|a, b| a + b));
    chk(st, "sub(&B,&B)", catch(|| &b1 - &ob), map(&|a, b| a - b));
    chk(st, "sub(B,B)", catch(|| b1.clone() - ob.clone()), map(&|a, b| a - b));
    chk(st, "mul(&B,s)", catch(|| &b1 * s), map(&|a, _| a * s));
    chk(st, "mul(B,s)", catch(|| b1.clone() * s), map(&|a, _| a * s));
    chk(st, "div(&B,s)", catch(|| &b1 / s), map(&|a, _| a / s));
    chk(st, "div(B,s)", catch(|| b1.clone() / s), map(&|a, _| a / s));
    chk(st, "add_assign(&B)", catch(|| { let mut x = b1.clone(); x += &ob; x }), map(&|a, b| a + b));
    chk(st, "add_assign(B)", catch(|| { let mut x = b1.clone(); x += ob.clone(); x }), map(&|a, b| a + b));
    chk(st, "sub_assign(&B)", catch(|| { let mut x = b1.clone(); x -= &ob; x }), map(&|a, b| a - b));
    chk(st, "sub_assign(B)", catch(|| { let mut x = b1.clone(); x -= ob.clone(); x }), map(&|a, b| a - b));
    chk(st, "mul_assign(s)", catch(|| { let mut x = b1.clone(); x *= s; x }), map(&|a, _| a * s));
    chk(st, "div_assign(s)", catch(|| { let mut x = b1.clone(); x /= s; x }), map(&|a, _| a / s));
    chk(st, "add_assign(c)", catch(|| { let mut x = b1.clone(); x += s; x }), map(&|a, _| a + s));
    chk(st, "sub_assign(c)", catch(|| { let mut x = b1.clone(); x -= s; x }), map(&|a, _| a - s));
    // fill_band for every band
    for band in -(m1 as isize)..=(m2 as isize) {
        let want = DM::<E>::from_fn(n, n, |i, j| if inband(i, j, m1, m2) { if j as isize - i as isize == band { s } else { d.a[i][j] } } else { E::zero() });
        chk(st, "fill_band", catch(|| { let mut x = b1.clone(); x.fill_band(band, s); x }), want);
    }
    st.count(&format!("cases:{}:{}", t, class));
    st.set_insert("triples", format!("{},{},{}", n, m1, m2));
    let mut h = hash_str(E::NAME) ^ hash_str(class) ^ ((n * 100 + m1 * 10 + m2) as u64);
    for row in &d.a { for x in row { h = hmix(h, x.hash_u64()); } }
    if n >= 2 { st.nontrivial(h); }
    st.sample(|| desc());
}

fn judge_f64(st: &mut Stats, rng: &mut Rng, class: &str, d: &DM<Rat>, m1: usize, m2: usize) {
    let n = d.r;
    st.next_case();
    let a: Vec<Vec<f64>> = match d.a.iter().map(|r| r.iter().map(|v| v.as_exact_f64()).collect::<Option<Vec<f64>>>()).collect() { Some(x) => x, None => return };
    let pads = (rng.int(-9, 9) as f64 * 1.5, if rng.chance(0.2) { 1e30 } else { rng.int(-99, 99) as f64 });
    let desc = || format!("T=f64 n={} m1={} m2={} class={} pads={:?} dense={:?}", n, m1, m2, class, pads, a);
    let mk = |pad: f64| { let mut b = Banded::<f64>::new(n, m1, m2, pad); for i in 0..n { for j in 0..n { if inband(i, j, m1, m2) { b[(i, j)] = a[i][j]; } } } b };
    let (b1, b2) = (mk(pads.0), mk(pads.1));
    // product: integer data => exact
    let v: Vec<f64> = (0..n).map(|_| rng.int(-9, 9) as f64).collect();
    let want: Vec<f64> = (0..n).map(|i| (0..n).map(|j| a[i][j] * v[j]).sum()).collect();
    let vv = Vector::create(v.clone());
    let exact_prod = class != "tiny-subdiagonal";
    let mut prods = vec![];
    for b in [&b1, &b2] {
        st.eval();
        match catch(|| b * &vv) {
            Outcome::Ok(p) => {
                let good = if exact_prod { p.vec == want } else { p.vec.iter().zip(&want).all(|(x, y)| (x - y).abs() <= 64.0 * U * (1.0 + y.abs()) * 100.0) };
                if !good { st.violation("C04:mulvec:f64:wrong-value", format!("B*v = {:?} expected {:?}; v={:?}; {}", p.vec, want, v, desc())); }
                prods.push(p.vec.iter().map(|x| x.to_bits()).collect::<Vec<_>>());
            }
            o => st.violation("C04:mulvec:f64:panic", format!("{}; {}", o.describe(), desc())),
        }
    }
    if prods.len() == 2 && prods[0] != prods[1] { st.violation("C04:mulvec:f64:padding-dependent", desc()); }
    let (det, rank, _inv) = match catch(|| exact_det_rank_inv(d)) { Outcome::Ok(x) => x, _ => { st.count("skipped:rat-overflow-in-model"); return; } };
    let mut dets = vec![];
    let kappa = if rank == n { kappa_exact(d, mag_rat) } else { None };
    for b in [&b1, &b2] {
        st.eval();
        match catch(|| b.det()) {
            Outcome::Ok(x) => {
                dets.push(x.to_bits());
                if rank < n {
                    let had: f64 = a.iter().map(|r| r.iter().map(|v| v * v).sum::<f64>().sqrt()).product();
                    let bound = n as f64 * tau(n) * had;
                    if !x.is_finite() { st.violation("C04:det:f64:singular-nonfinite", format!("det = {} on exactly singular matrix; {}", x, desc())); }
                    else if !(x.abs() <= bound) { st.violation("C04:det:f64:singular-large", format!("det = {:e} bound {:e}; {}", x, bound, desc())); }
                } else if let Some(k) = kappa { if k <= KMAX {
                    let dex = det.to_f64();
                    let bound = n as f64 * k * tau(n) * dex.abs();
                    st.max("f64:det_err_over_bound", (x - dex).abs() / bound);
                    if !((x - dex).abs() <= bound) { st.violation("C04:det:f64:inaccurate", format!("det = {:e} exact {:e} bound {:e}; {}", x, dex, bound, desc())); }
                } }
            }
            o => st.violation("C04:det:f64:panic", format!("{}; {}", o.describe(), desc())),
        }
    }
    if dets.len() == 2 && dets[0] != dets[1] { st.violation("C04:det:f64:padding-dependent", format!("det bits {:x?}; {}", dets, desc())); }
    if let Some(k) = kappa { if k <= KMAX {
        let rhs: Vec<f64> = (0..n).map(|_| rng.int(-9, 9) as f64).collect();
        let rr = Vector::create(rhs.clone());
        let mut sols = vec![];
        for b in [&b1, &b2] {
            st.eval();
            match catch(|| b.solve(&rr)) {
                Outcome::Ok(x) => {
                    let x = x.vec;
                    if x.len() != n || !fl::all_finite(&x) { st.violation("C04:solve:f64:nonfinite-or-length", format!("solve = {:?}; rhs={:?}; {}", x, rhs, desc())); continue; }
                    let (r, an, xn, bn) = fl::residual_real(&a, &x, &rhs);
                    let eta = fl::backward_error(r, an, xn, bn);
                    st.max("f64:max_eta_over_tau", eta / tau(n));
                    if !(eta <= tau(n)) { st.violation("C04:solve:f64:backward-error", format!("backward error {:e} > {:e}; x={:?} rhs={:?}; {}", eta, tau(n), x, rhs, desc())); }
                    sols.push(x.iter().map(|v| v.to_bits()).collect::<Vec<_>>());
                }
                o => st.violation("C04:solve:f64:refused-nonsingular", format!("{}; rhs={:?}; {}", o.describe(), rhs, desc())),
            }
        }
        if sols.len() == 2 && sols[0] != sols[1] { st.violation("C04:solve:f64:padding-dependent", desc()); }
        // the same system with every in-band entry and the right-hand side scaled by 2^-1030 (entries k*2^-1030 are still
        // exactly representable, pivots are subnormal): the solution is mathematically unchanged; demanded: finite and
        // within the accuracy that 44-bit subnormal arithmetic allows (a reciprocal of a subnormal pivot overflows)
        if rng.chance(0.1) && class != "tiny-subdiagonal" {
            let tiny = |v: f64| v * 2f64.powi(-515) * 2f64.powi(-515);
            let mut bs = Banded::<f64>::new(n, m1, m2, 0.0);
            for i in 0..n { for j in 0..n { if inband(i, j, m1, m2) { bs[(i, j)] = tiny(a[i][j]); } } }
            let rs = Vector::create(rhs.iter().map(|v| tiny(*v)).collect::<Vec<f64>>());
            st.eval();
            if let (Outcome::Ok(x0), o) = (catch(|| b1.solve(&rr)), catch(|| bs.solve(&rs))) {
                match o {
                    Outcome::Ok(xs) => {
                        let xn = x0.vec.iter().fold(0.0f64, |m, v| m.max(v.abs()));
                        let dmax = x0.vec.iter().zip(&xs.vec).fold(0.0f64, |m, (p, q)| m.max((p - q).abs()));
                        if !fl::all_finite(&xs.vec) || !(dmax <= 1e-2 * (1.0 + xn)) { st.violation("C04:solve:f64:subnormal-scale", format!("system scaled by 2^-1030: solve = {:?}, unscaled solution {:?}; {}", xs.vec, x0.vec, desc())); }
                    }
                    oo => st.violation("C04:solve:f64:subnormal-scale", format!("system scaled by 2^-1030: {}; {}", oo.describe(), desc())),
                }
            }
            st.count("cases:f64:subnormal-scale");
        }
        st.count(&format!("cases:f64:{}:solved", class));
    } else { st.count("skipped:float-kappa-too-large"); } }
    st.count(&format!("cases:f64:{}", class));
    let mut h = hash_str("f64") ^ hash_str(class) ^ ((n * 100 + m1 * 10 + m2) as u64);
    for row in &d.a { for x in row { h = hmix(h, x.hash_u64()); } }
    if n >= 2 { st.nontrivial(h); }
}

fn judge_cmplx(st: &mut Stats, rng: &mut Rng, class: &str, d: &DM<CRat>, m1: usize, m2: usize) {
    let n = d.r;
    st.next_case();
    let a: Vec<Vec<Cmplx>> = match d.a.iter().map(|r| r.iter().map(|v| Some(Cmplx::new(v.re.as_exact_f64()?, v.im.as_exact_f64()?))).collect::<Option<Vec<Cmplx>>>()).collect() { Some(x) => x, None => return };
    let pads = (Cmplx::new(rng.int(-9, 9) as f64, rng.int(-9, 9) as f64), Cmplx::new(rng.int(-99, 99) as f64, 1e20));
    let desc = || format!("T=Cmplx n={} m1={} m2={} class={} pads={:?} dense={:?}", n, m1, m2, class, pads, a);
    let mk = |pad: Cmplx| { let mut b = Banded::<Cmplx>::new(n, m1, m2, pad); for i in 0..n { for j in 0..n { if inband(i, j, m1, m2) { b[(i, j)] = a[i][j]; } } } b };
    let (b1, b2) = (mk(pads.0), mk(pads.1));
    let (det, rank, _) = match catch(|| exact_det_rank_inv(d)) { Outcome::Ok(x) => x, _ => { st.count("skipped:rat-overflow-in-model"); return; } };
    let kappa = if rank == n { kappa_exact(d, mag_crat) } else { None };
    let bits = |v: &[Cmplx]| v.iter().map(|z| (z.real.to_bits(), z.imag.to_bits())).collect::<Vec<_>>();
    let mut dets = vec![];
    for b in [&b1, &b2] {
        st.eval();
        match catch(|| b.det()) {
            Outcome::Ok(x) => {
                dets.push((x.real.to_bits(), x.imag.to_bits()));
                if rank < n { if !(x.real.is_finite() && x.imag.is_finite()) { st.violation("C04:det:Cmplx:singular-nonfinite", format!("det = {:?}; {}", x, desc())); } }
                else if let Some(k) = kappa { if k <= KMAX {
                    let dex = Cmplx::new(det.re.to_f64(), det.im.to_f64());
                    let bound = n as f64 * k * tau(n) * fl::cabs(dex);
                    st.max("Cmplx:det_err_over_bound", fl::cabs(x - dex) / bound);
                    if !(fl::cabs(x - dex) <= bound) { st.violation("C04:det:Cmplx:inaccurate", format!("det = {:?} exact {:?}; {}", x, dex, desc())); }
                } }
            }
            o => st.violation("C04:det:Cmplx:panic", format!("{}; {}", o.describe(), desc())),
        }
    }
    if dets.len() == 2 && dets[0] != dets[1] { st.violation("C04:det:Cmplx:padding-dependent", desc()); }
    if let Some(k) = kappa { if k <= KMAX {
        let rhs: Vec<Cmplx> = (0..n).map(|_| Cmplx::new(rng.int(-9, 9) as f64, rng.int(-9, 9) as f64)).collect();
        let rr = Vector::create(rhs.clone());
        let mut sols = vec![];
        for b in [&b1, &b2] {
            st.eval();
            match catch(|| b.solve(&rr)) {
                Outcome::Ok(x) => {
                    let x = x.vec;
                    if x.len() != n || !fl::all_finite_c(&x) { st.violation("C04:solve:Cmplx:nonfinite-or-length", format!("solve = {:?}; rhs={:?}; {}", x, rhs, desc())); continue; }
                    let (r, an, xn, bn) = fl::residual_cmplx(&a, &x, &rhs);
                    let eta = fl::backward_error(r, an, xn, bn);
                    st.max("Cmplx:max_eta_over_tau", eta / tau(n));
                    if !(eta <= tau(n)) { st.violation("C04:solve:Cmplx:backward-error", format!("backward error {:e} > {:e}; x={:?} rhs={:?}; {}", eta, tau(n), x, rhs, desc())); }
                    sols.push(bits(&x));
                }
                o => st.violation("C04:solve:Cmplx:refused-nonsingular", format!("{}; rhs={:?}; {}", o.describe(), rhs, desc())),
            }
        }
        if sols.len() == 2 && sols[0] != sols[1] { st.violation("C04:solve:Cmplx:padding-dependent", desc()); }
        // product (Gaussian-integer data: exact)
        let v: Vec<Cmplx> = (0..n).map(|_| Cmplx::new(rng.int(-5, 5) as f64, rng.int(-5, 5) as f64)).collect();
        if class != "tiny-subdiagonal" {
            let want: Vec<Cmplx> = (0..n).map(|i| { let mut s = Cmplx::new(0.0, 0.0); for j in 0..n { s += a[i][j] * v[j]; } s }).collect();
            st.eval();
            match catch(|| &b1 * &Vector::create(v.clone())) { Outcome::Ok(p) => if bits(&p.vec) != bits(&want) && p.vec != want { st.violation("C04:mulvec:Cmplx:wrong-value", format!("B*v={:?} expected {:?}; v={:?}; {}", p.vec, want, v, desc())); }, o => st.violation("C04:mulvec:Cmplx:panic", format!("{}; {}", o.describe(), desc())) }
        }
    } else { st.count("skipped:float-kappa-too-large"); } }
    st.count(&format!("cases:Cmplx:{}", class));
    let mut h = hash_str("Cmplx") ^ hash_str(class) ^ ((n * 100 + m1 * 10 + m2) as u64);
    for row in &d.a { for x in row { h = hmix(h, x.hash_u64()); } }
    if n >= 2 { st.nontrivial(h); }
}

/// One live Banded<Rat> object put through a random sequence of queries (det, solve, product, element reads) and
/// in-place mutators (index writes, every compound assignment, fill_band), compared with a dense model after each step:
/// state carried from one call to the next (cached factorisations, stale buffers) must never show.
/// (a) growth traps: in every column the diagonal candidate is the smallest, the first sub-diagonal is larger, the rows further
///     down larger still (by factors 1.5..7.9): choosing anything but the LARGEST candidate gives multipliers above one and element
///     growth 9^(n-1) in the last column; with the largest the backward error stays at a few units of u (limit here 64 n u).
/// (b) units of the unknowns: the columns scaled by 2^(c_j), |c_j| <= 200. Column scaling leaves every pivot choice and every
///     multiplier unchanged, so solve must return x_j * 2^(-c_j) bit for bit and det the exact multiple - although the pivots now
///     span hundreds of binades (none of them is "negligible").
fn growth_and_units(st: &mut Stats, rng: &mut Rng) {
    st.next_case();
    let n = rng.usize(3, 10);
    let trap = rng.bool();
    // (half of the traps are of Wilkinson's kind: consistent signs below the diagonal and a full last column, so that the
    //  growth of a wrong pivot choice accumulates instead of cancelling)
    let wilk = trap && rng.bool();
    let (m1, m2) = if wilk { (rng.usize(2.min(n - 1), n - 1), n - 1) } else { (rng.usize(2.min(n - 1), n - 1), rng.usize(0, n - 1)) };
    let cw = rng.range(6.0, 7.9);
    let wstyle = rng.bool(); // first row full and zero diagonal below it, or 0.5 on the whole diagonal
    let mut a = vec![vec![0.0f64; n]; n];
    for i in 0..n { for j in 0..n { if inband(i, j, m1, m2) {
        a[i][j] = if !trap { rng.int(-9, 9) as f64 }
                  else if wilk { if j == n - 1 { 1.0 } else if i == 0 { if wstyle { 0.5 } else if j == 0 { 0.5 } else { 0.0 } } else if i == j { if wstyle { 0.0 } else { 0.5 } } else if i == j + 1 { 1.0 } else if i > j + 1 { -cw + 0.01 * i as f64 + 0.003 * j as f64 } else { 0.0 } }
                  else if i == j { *rng.pick(&[0.5, 0.25, -0.5, 0.75]) }
                  else if i == j + 1 { if rng.bool() { 1.0 } else { -1.0 } }
                  else if i > j + 1 { rng.range(1.5, 7.9) * if rng.bool() { 1.0 } else { -1.0 } }
                  else if j == (i + m2).min(n - 1) { 1.0 }
                  else { rng.int(-2, 2) as f64 * 0.25 };
    } } }
    let rhs: Vec<f64> = (0..n).map(|i| if trap { 1.0 / (1.0 + i as f64) } else { rng.int(-9, 9) as f64 }).collect();
    let mk = |a: &Vec<Vec<f64>>| { let mut b = Banded::<f64>::new(n, m1, m2, 0.0); for i in 0..n { for j in 0..n { if inband(i, j, m1, m2) { b[(i, j)] = a[i][j]; } } } b };
    let b0 = mk(&a);
    let desc = || format!("T=f64 n={} m1={} m2={} class={} dense={:?} rhs={:?}", n, m1, m2, if trap { "growth-trap" } else { "random-integers" }, a, rhs);
    let x0 = match catch(|| (b0.solve(&Vector::create(rhs.clone())).vec, b0.det())) { Outcome::Ok(t) => t, _ => { st.count("skipped:growth-and-units:singular-or-refused"); return; } };
    let (x0, d0) = x0;
    if !fl::all_finite(&x0) || !d0.is_finite() || d0 == 0.0 { st.count("skipped:growth-and-units:singular-or-refused"); return; }
    st.eval();
    if trap {
        let (r, an, xn, bn) = fl::residual_real(&a, &x0, &rhs);
        let eta = fl::backward_error(r, an, xn, bn);
        let lim = 64.0 * n as f64 * U;
        st.max("f64:growth-trap:eta_over_64nu", eta / lim);
        if !(eta <= lim) { st.violation("C04:solve:f64:backward-error", format!("growth trap: backward error {:e} > 64 n u = {:e} (pivoting by magnitude keeps every multiplier <= 1 here); x={:?}; {}", eta, lim, x0, desc())); return; }
    }
    // units
    let cs: Vec<i32> = (0..n).map(|_| rng.int(-200, 200) as i32).collect();
    let tot: i32 = cs.iter().sum();
    let asc: Vec<Vec<f64>> = a.iter().map(|r| r.iter().enumerate().map(|(j, v)| v * 2f64.powi(cs[j])).collect()).collect();
    let b1 = mk(&asc);
    let inr = |v: f64| v == 0.0 || (v.abs() > 1e-280 && v.abs() < 1e280);
    let want: Vec<f64> = x0.iter().enumerate().map(|(j, v)| v * 2f64.powi(-cs[j])).collect();
    let dwant = d0 * 2f64.powi(tot / 2) * 2f64.powi(tot - tot / 2);
    if !want.iter().all(|v| inr(*v)) || !inr(dwant) || !x0.iter().all(|v| inr(*v)) { return; }
    st.eval();
    match catch(|| (b1.solve(&Vector::create(rhs.clone())).vec, b1.det())) {
        Outcome::Ok((x1, d1)) => {
            if x1.iter().zip(&want).any(|(p, q)| p.to_bits() != q.to_bits() && !(*p == 0.0 && *q == 0.0)) { st.violation("C04:solve:f64:unit-dependent", format!("columns scaled by 2^{:?}: solve = {:?}, expected the unscaled solution with x_j * 2^-c_j = {:?}; {}", cs, x1, want, desc())); }
            // (the determinant is a running product of pivots: its partial products must be representable as well)
            let (pos, neg): (i32, i32) = (cs.iter().filter(|c| **c > 0).sum(), cs.iter().filter(|c| **c < 0).sum());
            if pos < 850 && neg > -850 && d1.to_bits() != dwant.to_bits() && d1 != dwant { st.violation("C04:det:f64:unit-dependent", format!("columns scaled by 2^{:?}: det = {:e}, expected {:e}; {}", cs, d1, dwant, desc())); }
        }
        o => st.violation("C04:solve:f64:unit-dependent", format!("columns scaled by 2^{:?}: {} although the unscaled system was solved; {}", cs, o.describe(), desc())),
    }
    st.count("growth-and-units-cases");
    st.nontrivial(hmix(hash_str("growth-units"), rng.u64()));
}

fn history_case(st: &mut Stats, rng: &mut Rng) {
    st.next_case();
    let n = rng.usize(1, 7);
    let (mut m1, mut m2) = (rng.usize(0, n - 1), rng.usize(0, n - 1));
    let cls = rng.usize(0, 1);
    let mut d = gen_band(rng, n, m1, m2, cls);
    let mut b = build(&d, m1, m2, Rat::int(rng.int(-9, 9)));
    let mut log: Vec<String> = vec![format!("start n={} m1={} m2={} dense={}", n, m1, m2, d.show())];
    let steps = rng.usize(3, 14);
    // a clone taken at a random moment lives on next to the original: both are queried (det / solve) after later
    // mutations and factorisations of the other one, each against its own model
    let clone_at = rng.usize(0, steps);
    let mut twin: Option<(Banded<Rat>, DM<Rat>)> = None;
    for stepno in 0..steps {
        if stepno == clone_at { twin = Some((b.clone(), d.clone())); log.push("twin = clone()".into()); }
        if let Some((tb, td)) = &twin {
            if rng.chance(0.4) {
                if let Outcome::Ok((det, _, inv)) = catch(|| exact_det_rank_inv(td)) {
                    st.eval();
                    match catch(|| tb.det()) { Outcome::Ok(x) => if x != det { st.violation("C04:history:clone-not-independent", format!("twin.det() = {:?} expected {:?} (twin model {}) after {:?}", x, det, td.show(), log)); return; }, _ => {} }
                    if let Some(inv) = inv { let rhs: Vec<Rat> = (0..n).map(|_| Rat::int(rng.int(-9, 9))).collect(); if let (Outcome::Ok(xt), Outcome::Ok(x)) = (catch(|| inv.mulvec(&rhs)), catch(|| tb.solve(&vec_to_ohsl(&rhs)))) { if x.vec != xt { st.violation("C04:history:clone-not-independent", format!("twin.solve = {:?} expected {:?} after {:?}", x.vec, xt, log)); return; } } }
                }
                if !band_eq(tb, td, m1, m2) { st.violation("C04:history:clone-not-independent", format!("twin entries changed after {:?}", log)); return; }
            }
        }
        let op = rng.below(14);
        let c = Rat::int(rng.nzint(5));
        let name: String;
        let upd = |d: &mut DM<Rat>, f: &dyn Fn(Rat) -> Rat| { for i in 0..n { for j in 0..n { if inband(i, j, m1, m2) { d.a[i][j] = f(d.a[i][j]); } } } };
        match op {
            0 | 1 => { // det
                name = "det()".into();
                if let Outcome::Ok((det, _, _)) = catch(|| exact_det_rank_inv(&d)) {
                    st.eval();
                    match catch(|| b.det()) { Outcome::Ok(x) => if x != det { st.violation("C04:history:det:stale-or-wrong", format!("det = {:?} expected {:?} after {:?}", x, det, log)); return; }, Outcome::Overflow => return, o => { st.violation("C04:history:det:panic", format!("{} after {:?}", o.describe(), log)); return; } }
                }
            }
            2 | 3 => { // solve
                name = "solve(rhs)".into();
                if let Outcome::Ok((det, _, Some(inv))) = catch(|| exact_det_rank_inv(&d)) {
                    let rhs: Vec<Rat> = (0..n).map(|_| Rat::int(rng.int(-9, 9))).collect();
                    if let Outcome::Ok(xt) = catch(|| inv.mulvec(&rhs)) {
                        st.eval();
                        match catch(|| b.solve(&vec_to_ohsl(&rhs))) { Outcome::Ok(x) => if x.vec != xt { st.violation("C04:history:solve:stale-or-wrong", format!("solve = {:?} expected {:?} (det {:?}) rhs={:?} after {:?}", x.vec, xt, det, rhs, log)); return; }, Outcome::Overflow => return, o => { st.violation("C04:history:solve:panic", format!("{} after {:?}", o.describe(), log)); return; } }
                    }
                }
            }
            4 => { name = "mulvec".into(); let v: Vec<Rat> = (0..n).map(|_| Rat::int(rng.int(-9, 9))).collect(); st.eval(); match catch(|| &b * &vec_to_ohsl(&v)) { Outcome::Ok(p) => if p.vec != d.mulvec(&v) { st.violation("C04:history:mulvec:wrong", format!("after {:?}", log)); return; }, Outcome::Overflow => return, o => { st.violation("C04:history:mulvec:panic", format!("{} after {:?}", o.describe(), log)); return; } } }
            5 => { let (i, j) = loop { let (i, j) = (rng.usize(0, n - 1), rng.usize(0, n - 1)); if inband(i, j, m1, m2) { break (i, j); } }; name = format!("[({},{})] = {:?}", i, j, c); d.a[i][j] = c; if !catch(|| b[(i, j)] = c).is_ok() { st.violation("C04:history:index_mut:panic", format!("{} after {:?}", name, log)); return; } }
            6 => { name = format!("+= {:?}", c); upd(&mut d, &|x| x + c); if !catch(|| b += c).is_ok() { return; } }
            7 => { name = format!("-= {:?}", c); upd(&mut d, &|x| x - c); if !catch(|| b -= c).is_ok() { return; } }
            8 => { name = format!("*= {:?}", c); upd(&mut d, &|x| x * c); if !catch(|| b *= c).is_ok() { return; } }
            9 => { name = format!("/= {:?}", c); upd(&mut d, &|x| x / c); if !catch(|| b /= c).is_ok() { return; } }
            13 => {
                // resize through the object's own API to the SAME order and total bandwidth but another split (or, now and then, to
                // any other geometry), then rewrite every in-band entry through the index operator: from here on the object must
                // behave as a banded matrix of the NEW geometry. (What resize keeps of the old contents is unspecified.)
                let (nm1, nm2) = if rng.chance(0.7) && m1 + m2 > 0 { let a = rng.usize(0, (m1 + m2).min(n - 1)); (a, m1 + m2 - a) } else { (rng.usize(0, n - 1), rng.usize(0, n - 1)) };
                if nm2 > n - 1 || nm1 > n - 1 { continue; }
                name = format!("resize({},{},{}) + refill", n, nm1, nm2);
                if !catch(|| b.resize(n, nm1, nm2)).is_ok() { st.violation("C04:history:resize:panic", format!("{} after {:?}", name, log)); return; }
                m1 = nm1; m2 = nm2;
                d = gen_band(rng, n, m1, m2, 1);
                let mut ok = true;
                for i in 0..n { for j in 0..n { if inband(i, j, m1, m2) { let v = d.a[i][j]; if !catch(|| b[(i, j)] = v).is_ok() { ok = false; } } } }
                if !ok || b.size_below() != m1 || b.size_above() != m2 || b.size() != n { st.violation("C04:history:resize:geometry", format!("after {} the object reports n={} m1={} m2={} (in-band writes accepted: {}); history {:?}", name, b.size(), b.size_below(), b.size_above(), ok, log)); return; }
                twin = None;
            }
            12 => { name = format!("fill({:?})", c); upd(&mut d, &|_| c); if !catch(|| b.fill(c)).is_ok() { st.violation("C04:history:fill:panic", format!("after {:?}", log)); return; } }
            10 => { let o = gen_band(rng, n, m1, m2, 1); let ob = build(&o, m1, m2, Rat::int(3)); let plus = rng.bool(); name = format!("{} {}", if plus { "+= &B" } else { "-= &B" }, o.show());
                for i in 0..n { for j in 0..n { if inband(i, j, m1, m2) { d.a[i][j] = if plus { d.a[i][j] + o.a[i][j] } else { d.a[i][j] - o.a[i][j] }; } } }
                if !catch(|| if plus { b += &ob } else { b -= &ob }).is_ok() { return; } }
            _ => { let band = rng.int(-(m1 as i64), m2 as i64) as isize; name = format!("fill_band({},{:?})", band, c); for i in 0..n { for j in 0..n { if j as isize - i as isize == band { d.a[i][j] = c; } } } if !catch(|| b.fill_band(band, c)).is_ok() { st.violation("C04:history:fill_band:panic", format!("{} after {:?}", name, log)); return; } }
        }
        log.push(name);
        st.eval();
        if !band_eq(&b, &d, m1, m2) { st.violation("C04:history:entries-differ-from-model", format!("after {:?}", log)); return; }
    }
    st.count("histories");
    st.nontrivial(hmix(hash_str("c04-history"), rng.u64()));
    if log.len() > 6 { st.sample(|| format!("history {:?}", log)); }
}

pub fn triples() -> Vec<(usize, usize, usize)> {
    let mut t = vec![];
    for n in 1..=10usize { for m1 in 0..n { for m2 in 0..n { t.push((n, m1, m2)); } } }
    t
}

pub fn run(ctx: &Ctx) -> Report {
    let tr = triples();
    let reps = ctx.vol(3, 120);
    let units = tr.len() as u64 * 7;
    let stats = par_run(ctx, TAG, units, |u, rng, st| {
        let (n, m1, m2) = tr[(u / 7) as usize];
        let class = if u % 7 == 6 { 6 } else { (u % 7) as usize };
        for _ in 0..reps {
            let mut d = gen_band(rng, n, m1, m2, class);
            let mut pads = (Rat::int(rng.int(-9, 9)), Rat::new(rng.int(-99, 99) as i128, 7));
            if class == 6 {
                // mostly mirrored (symmetric where both positions are in band) with a few asymmetric entries; zero padding in one build
                for i in 0..n { for j in 0..i { if inband(i, j, m1, m2) && inband(j, i, m1, m2) && rng.chance(0.8) { d.a[i][j] = d.a[j][i]; } } }
                pads.0 = Rat::ZERO;
            }
            judge_exact::<Rat>(st, rng, CLASSES[class], &d, m1, m2, pads, |r| Rat::int(r.int(-9, 9)));
            let dc = to_c(&d, rng, m1, m2);
            let padc = (CRat::new(pads.0, Rat::int(3)), CRat::new(pads.1, Rat::int(-5)));
            judge_exact::<CRat>(st, rng, CLASSES[class], &dc, m1, m2, padc, |r| CRat::new(Rat::int(r.int(-5, 5)), Rat::int(r.int(-5, 5))));
            judge_f64(st, rng, CLASSES[class], &d, m1, m2);
            judge_cmplx(st, rng, CLASSES[class], &dc, m1, m2);
            history_case(st, rng); for _ in 0..6 { growth_and_units(st, rng); }
            history_case(st, rng);
        }
    });
    let mut rep = Report::new(stats,
        "all 385 triples (n,m1,m2), 1<=n<=10, 0<=m1,m2<n x 7 value classes (small-alphabet nearly symmetric dominant with zero padding, positive, mixed sign, negative diagonal, zero diagonal with nonzero sub-diagonal, tiny 2^-30 sub-diagonal under O(1) negative diagonal, zeros inside the band) x {Rat, CRat, f64, Complex<f64>} x two different padding fills, 3 (quick)/120 (thorough) random draws each; per case: every (i,j) access, B*v, det, solve, 18 arithmetic forms, fill_band for every band. Plus random histories on one live object: det/solve/product queries interleaved with index writes, every compound assignment and fill_band, compared with the dense model after every step. Non-trivial: n>=2; distinct = distinct (type,class,triple,values) hashes");
    rep.assumptions = vec![
        "float data are integers/dyadics, so exact determinant, nonsingularity and kappa_inf come from the Rat/CRat model; solve/det demands only when kappa_inf <= 1e8".into(),
        "solve on exactly singular matrices is unconstrained".into(),
        "backward-error threshold 4096*n*u".into(),
    ];
    rep.min_nontrivial = 2000;
    rep.extra.set("exhaustive_parts", crate::json::J::Arr(vec![crate::json::J::s("(n,m1,m2) triples with 1<=n<=10, 0<=m1,m2<n: all 385"), crate::json::J::s("every (i,j) in the n x n square per case"), crate::json::J::s("every band offset for fill_band")]));
    rep
}
