//! ohsl-monitor: runtime monitors for the 20 properties of anthonyoneill/ohsl.
//! usage: ohsl-monitor <Cxx> --tier quick|thorough --seed S --out FILE [--unit U] [--scale F] [--profile NAME]
//! The binary never reports on stdout (the library prints there); verdict data goes to --out.

mod fl;
mod json;
mod model;
mod mon;
mod rat;
mod rng;
mod run;

use json::J;
use run::{Ctx, Report, Tier};

fn main() {
    let args: Vec<String> = std::env::args().collect();
    if args.len() < 2 {
        eprintln!("usage: ohsl-monitor <Cxx|list> [--tier T] [--seed S] [--out FILE] [--unit U] [--scale F] [--threads N] [--profile NAME]");
        std::process::exit(2);
    }
    let id = args[1].clone();
    if id == "list" {
        for (k, _) in mon::registry() { eprintln!("{}", k); }
        return;
    }
    let mut ctx = Ctx {
        tier: Tier::Quick,
        seed: 1,
        threads: std::thread::available_parallelism().map(|n| n.get()).unwrap_or(4),
        scale: 1.0,
        only_unit: None,
        profile: "release".to_string(),
        workdir: "/verif/.work".to_string(),
    };
    let mut out: Option<String> = None;
    let mut i = 2;
    while i < args.len() {
        let a = args[i].as_str();
        let v = args.get(i + 1).cloned().unwrap_or_default();
        match a {
            "--tier" => { ctx.tier = if v == "thorough" { Tier::Thorough } else { Tier::Quick }; i += 1; }
            "--seed" => { ctx.seed = v.parse().unwrap_or(1); i += 1; }
            "--out" => { out = Some(v); i += 1; }
            "--unit" => { ctx.only_unit = v.parse().ok(); i += 1; }
            "--scale" => { ctx.scale = v.parse().unwrap_or(1.0); i += 1; }
            "--threads" => { ctx.threads = v.parse().unwrap_or(4); i += 1; }
            "--profile" => { ctx.profile = v; i += 1; }
            "--workdir" => { ctx.workdir = v; i += 1; }
            _ => { eprintln!("unknown argument {}", a); std::process::exit(2); }
        }
        i += 1;
    }
    run::install_panic_hook();
    let f = match mon::registry().into_iter().find(|(k, _)| *k == id) {
        Some((_, f)) => f,
        None => { eprintln!("unknown property {}", id); std::process::exit(2); }
    };
    let t0 = std::time::Instant::now();
    let rep: Report = f(&ctx);
    let wall = t0.elapsed().as_secs_f64();

    let mut o = J::obj();
    o.set("property", J::s(&id));
    o.set("tier", J::s(if ctx.quick() { "quick" } else { "thorough" }));
    o.set("seed", J::UInt(ctx.seed));
    o.set("profile", J::s(&ctx.profile));
    o.set("wall_s", J::Num(wall));
    o.set("rule", J::s(&rep.rule));
    o.set("assumptions", J::Arr(rep.assumptions.iter().map(|x| J::s(x)).collect()));
    o.set("min_nontrivial", J::UInt(rep.min_nontrivial));
    o.set("exhaustive", J::Bool(rep.exhaustive));
    o.set("inconclusive", J::Arr(rep.inconclusive.iter().map(|x| J::s(x)).collect()));
    o.set("stats", run::stats_to_json(&rep.stats));
    o.set("extra", rep.extra.clone());
    let text = o.render();
    match out {
        Some(p) => { std::fs::write(&p, text).expect("write --out"); }
        None => { eprintln!("{}", text); }
    }
    eprintln!(
        "[{} {} {}] evals={} distinct_nontrivial={} violations={} harness_errors={} wall={:.1}s",
        id, ctx.profile, if ctx.quick() { "quick" } else { "thorough" },
        rep.stats.evals, rep.stats.distinct.len(), rep.stats.nviol, rep.stats.harness_errors.len(), wall
    );
}
