#!/usr/bin/env python3
"""Mutation self-test: applies single-site edits to /repo one at a time, runs the named quick checks, restores /repo.
usage: mutants.py [name-substring ...]   (results appended to /verif/.work/mutants.jsonl)"""
import json, os, re, subprocess, sys, time
M = [
 # name, checks, file, old, new
 ("partial_pivot-no-rhs-swap", ["C01"], "src/matrix/solve.rs", "        x.swap( pivot, k );\n", ""),
 ("pivot-search-from-k+1", ["C01", "C02"], "src/matrix/solve.rs", "            for k in i..self.rows() {\n                let abs_a", "            for k in i+1..self.rows() {\n                let abs_a"),
 ("det-parity-flipped", ["C02"], "src/matrix/solve.rs", "if pivots % 2 == 0 { det } else { - det }", "if pivots % 2 == 1 { det } else { - det }"),
 ("transpose_in_place-loop-bounds", ["C03"], "src/matrix/operations.rs", "            for j in 0..self.cols {\n                for i in 0..self.rows {\n                    temp.push( self[(i,j)] );", "            for j in 0..self.rows {\n                for i in 0..self.cols {\n                    temp.push( self[(i,j)] );"),
 ("delete_row-range-le", ["C03", "C20"], "src/matrix/operations.rs", "if self.rows <= row { panic!( \"Matrix range error in delete_row\" ); }", "if self.rows < row { panic!( \"Matrix range error in delete_row\" ); }"),
 ("banded-index-m1-m2-swapped", ["C04"], "src/banded.rs", "        if j > i + self.m2 || i > j + self.m1 { panic!(\"Banded error: index not in a band.\"); }\n        //&self.compact[ i ][ self.m1 + j - i ]\n        &self.compact[ (i, self.m1 + j - i) ]", "        if j > i + self.m2 || i > j + self.m1 { panic!(\"Banded error: index not in a band.\"); }\n        //&self.compact[ i ][ self.m1 + j - i ]\n        &self.compact[ (i, self.m2 + j - i) ]"),
 ("banded-mul-loop-bound", ["C04"], "src/banded.rs", "let tmploop = std::cmp::min( m1 + m2 + 1, n - k );", "let tmploop = std::cmp::min( m1 + m2, n - k );"),
 ("tridiag-zero-pivot-check-removed", ["C05"], "src/tridiagonal.rs", "            if beta == T::zero() { panic!( \"Tridiagonal error: zero pivot.\" ); }\n", ""),
 ("tridiag-det-offdiag-index", ["C05"], "src/tridiagonal.rs", "- self.sub[ j - 2 ] * self.sup[ j - 2 ] * f[ j - 2 ];", "- self.sub[ j - 2 ] * self.sup[ j - 2 ] * f[ j - 1 ];"),
 ("sparse-transpose-count", ["C06", "C07"], "src/sparse.rs", "                at.val[ index ] = self.val[ j ];\n                count[ k ] += 1;", "                at.val[ index ] = self.val[ j ];\n                count[ k ] += if self.rows > 5 && k == 0 { 0 } else { 1 };"),
 ("sparse-insert-overwrite-wrong-slot", ["C06"], "src/sparse.rs", "                self.val[ k ] = value;\n                return;\n            }\n        }\n        let mut triplets = self.to_triplets();", "                self.val[ self.nonzero - 1 - k ] = value;\n                return;\n            }\n        }\n        let mut triplets = self.to_triplets();"),
 ("sparse-transpose_multiply-index", ["C07"], "src/sparse.rs", "result[ i ] += self.val[ k ] * x[ self.row_index[ k ] ];", "result[ i ] += self.val[ k ] * x[ self.row_index[ k ].min( self.cols - 1 ) ];"),
 ("cg-r-not-updated", ["C08", "C09"], "src/sparse.rs", "            *x += p.clone() * alpha;\n            r -= q.clone() * alpha;\n            resid = r.norm_2() / normb;", "            *x += p.clone() * alpha;\n            r -= q.clone() * ( alpha * 1.001 );\n            resid = r.norm_2() / normb;"),
 ("bicgstab-ok-early", ["C08"], "src/sparse.rs", "            resid = s.norm_2() / normb;\n            if resid <= tol {\n                *x += phat.clone() * alpha;", "            resid = s.norm_2() / normb;\n            if resid <= tol * 100.0 {\n                *x += phat.clone() * alpha;"),
 ("qmr-zero-budget-touches-x", ["C08"], "src/sparse.rs", "        r = b.clone() - self.multiply( x );\n        if normb == 0.0 { normb = 1.0; }\n        resid = r.norm_2() / normb;\n        if resid <= tol { return Ok( 0 ); }\n\n        v_tld", "        r = b.clone() - self.multiply( x );\n        if normb == 0.0 { normb = 1.0; }\n        resid = r.norm_2() / normb;\n        if resid <= tol { return Ok( 0 ); }\n        if max_iter == 0 { x[0] += 0.0 * resid + 1.0e-300; }\n\n        v_tld"),
 ("laguer-clamp-removed", ["C10"], "src/polynomial/mod.rs", "let dx = if dx.abs() > rho { dx * ( rho / dx.abs() ) } else { dx };", "let dx = if dx.abs() > rho * 1.0e12 { dx * ( rho / dx.abs() ) } else { dx };"),
 ("cubic-root-of-unity-sign", ["C10"], "src/polynomial/mod.rs", "let u = Cmplx::new( -0.5, (3.0_f64).sqrt() / 2.0 );", "let u = Cmplx::new( -0.5, (3.0_f64).sqrt() / 2.0 + 1.0e-9 );"),
 ("poly-mul-inner-bound", ["C11"], "src/polynomial/arithmetic.rs", "            for j in 0..=times.degree().unwrap() {\n                product", "            for j in 0..=times.degree().unwrap().min(6) {\n                product"),
 ("polydiv-pop-removed", ["C12"], "src/polynomial/arithmetic.rs", "            r.coeffs.pop();\n", ""),
 ("complex-mul_assign-sign", ["C13"], "src/complex/mod.rs", "        self.imag *= rhs.real;\n        self.imag += a * rhs.imag;\n    }\n}\n\nimpl<T: Clone + Number> DivAssign for Complex<T>", "        self.imag *= rhs.real;\n        self.imag -= a * rhs.imag;\n    }\n}\n\nimpl<T: Clone + Number> DivAssign for Complex<T>"),
 ("asin-I-sign", ["C14"], "src/complex/trigonometric.rs", "        - I * ((Cmplx::one() - squared).sqrt() + I * self.clone()).ln()\n", "        I * ((Cmplx::one() - squared).sqrt() - I * self.clone()).ln()\n"),
 ("sum_slice-off-by-one", ["C15"], "src/vector/functions.rs", "        for i in start..=end {\n            result += self.vec[i].clone();", "        for i in start..end {\n            result += self.vec[i].clone();"),
 ("dot_f64-last-chunk-remainder", ["C16"], "src/vector/vec_f64.rs", "let end = if i == num_threads - 1 { self.size() } else { (i + 1) * chunk_size };", "let end = (i + 1) * chunk_size;"),
 ("newton-f64-loop-plus-one", ["C17"], "src/newton.rs", "        let mut current: f64 = self.guess;\n        for _ in 0..self.max_iter {", "        let mut current: f64 = self.guess;\n        for _ in 0..self.max_iter + 1 {"),
 ("jacobian-no-restore", ["C18", "C17"], "src/matrix/functions.rs", "            let f_new = func( state.clone() ); \n            state[i] -= delta;\n            jac.set_col( i, ( f_new - f.clone() ) / delta );", "            let f_new = func( state.clone() ); \n            jac.set_col( i, ( f_new - f.clone() ) / delta );"),
 ("var_as_matrix-nx-ny", ["C19"], "src/mesh2d.rs", "                m[(i,j)] = self.vars[ i * self.ny + j ][ var ].clone();", "                m[(i,j)] = self.vars[ i * self.nx + j ][ var ].clone();"),
 ("set_col-original-defect", ["C03", "C18", "C20"], "src/matrix/operations.rs", "if self.cols <= col { panic!( \"Matrix range error in set_col\" ); }", "if self.rows <= col { panic!( \"Matrix range error in set_col\" ); }"),
 ("vector-sub_assign-check-after", ["C20", "C15"], "src/vector/arithmetic.rs", "        if self.size() != rhs.size() { panic!( \"Vector sizes do not agree (-=).\" ); }\n        for i in 0..self.size() {\n            self.vec[i] -= rhs.vec[i].clone();\n        }", "        for i in 0..self.size().min( rhs.size() ) {\n            self.vec[i] -= rhs.vec[i].clone();\n        }\n        if self.size() != rhs.size() { panic!( \"Vector sizes do not agree (-=).\" ); }"),
]
def sh(cmd, cwd=None):
    p = subprocess.run(cmd, cwd=cwd, stdout=subprocess.PIPE, stderr=subprocess.STDOUT, text=True)
    return p.returncode, p.stdout
def main():
    sel = sys.argv[1:]
    out = open("/verif/.work/mutants.jsonl", "a")
    for name, checks, f, old, new in M:
        if sel and not any(s in name for s in sel): continue
        rc, o = sh(["git", "-C", "/repo", "status", "--porcelain"]); assert o.strip() == "", o
        path = os.path.join("/repo", f); src = open(path).read()
        if src.count(old) != 1:
            print(f"{name}: SITE-NOT-FOUND ({src.count(old)})"); continue
        open(path, "w").write(src.replace(old, new))
        try:
            rc, o = sh(["cargo", "test", "--offline", "--test", "tests"], cwd="/repo")
            m = re.search(r"test result: \w+\. (\d+) passed; (\d+) failed", o)
            suite = m.group(0) if m else "build-failed"
            res = {}
            for c in checks:
                rc, o = sh(["/verif/check", c], cwd="/verif")
                res[c] = {"exit": rc, "sigs": sorted(set(re.findall(r"# (C\d+:[^ ]*?): ", o)))[:6]}
            rec = {"mutant": name, "suite": suite, "results": res}
            out.write(json.dumps(rec) + "\n"); out.flush()
            print(f"{name}: suite[{suite}] " + " ".join(f"{c}={'CAUGHT' if r['exit']==1 else 'exit'+str(r['exit'])}{r['sigs'][:2]}" for c, r in res.items()))
        finally:
            sh(["git", "-C", "/repo", "checkout", "--", "."])
if __name__ == "__main__":
    main()
