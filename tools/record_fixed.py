#!/usr/bin/env python3
"""usage: record_fixed.py <property[,property...]> "<what failed>" sig1 sig2 ...  (uses /repo HEAD as the fixing commit)"""
import json,subprocess,sys
props,what,sigs=sys.argv[1].split(','),sys.argv[2],sys.argv[3:]
c=subprocess.run(['git','-C','/repo','log','-1','--format=%H'],capture_output=True,text=True).stdout.strip()
k=json.load(open('/verif/known_findings.json'))
for p in props:
    k['findings'].append({"status":"fixed","property":p,"commit":c,"signatures":[s for s in sigs if s.startswith(p+':')],"what":"fixed: property=%s %s %s"%(p,c[:7],what)})
json.dump(k,open('/verif/known_findings.json','w'),indent=1)
print('recorded',props,c[:7])
