#!/usr/bin/env python3
"""Automatic mutation sweep (calibration experiment, see DESIGN section 12).

Generates single-token mutants of the library sources, and for each one that still COMPILES and PASSES the repository's own
236 tests, runs the native quick monitors of the properties anchored in the mutated file. Nothing here touches /repo: every
worker owns a scratch git worktree of /repo (under /tmp/mut) and a scratch copy of the harness crate whose path dependency
points at that worktree. Results: /verif/mutation/results.jsonl (one record per mutant), summarised by --summary.

usage: mutsweep.py --n 400 [--workers 6] [--seed 1] [--files sub1,sub2]     run a sweep
       mutsweep.py --summary                                                print the table
       mutsweep.py --cleanup                                                remove the scratch worktrees
"""
import argparse, json, os, random, re, shutil, subprocess, sys, threading, time

REPO, VERIF, BASE = "/repo", "/verif", "/tmp/mut"
REV = subprocess.run(["git", "-C", REPO, "rev-parse", "HEAD"], stdout=subprocess.PIPE, text=True).stdout.strip()
OUT = os.path.join(VERIF, "mutation", "results.jsonl")
# file -> monitors that are anchored in it (C16 native is slow: only for the threaded dot product's own file)
MAP = [
    ("src/matrix/solve.rs", ["C01", "C02", "C20", "C17"]),
    ("src/matrix/functions.rs", ["C03", "C18", "C17"]),
    ("src/matrix/", ["C03", "C20", "C01", "C02", "C18"]),
    ("src/banded.rs", ["C04", "C20"]),
    ("src/tridiagonal.rs", ["C05", "C20"]),
    ("src/sparse.rs", ["C06", "C07", "C08", "C09", "C20"]),
    ("src/polynomial/mod.rs", ["C10", "C11", "C12"]),
    ("src/polynomial/", ["C11", "C12", "C10", "C20"]),
    ("src/complex/", ["C13", "C14", "C10", "C15"]),
    ("src/vector/vec_f64.rs", ["C15", "C16", "C08", "C09", "C20", "C17"]),
    ("src/vector/", ["C15", "C20", "C03", "C08", "C17"]),
    ("src/newton.rs", ["C17"]),
    ("src/mesh1d.rs", ["C19", "C20"]),
    ("src/mesh2d.rs", ["C19", "C20"]),
    ("src/traits.rs", ["C13", "C15", "C11"]),
]
SKIP_FILES = ("src/verif.rs", "src/lib.rs", "src/constants.rs")
# formatting / plain-text dump routines that none of the 20 properties speaks about (Mesh1D::output/read ARE in C19)
OUT_OF_SCOPE_FNS = {("src/matrix/mod.rs", "fmt"), ("src/matrix/mod.rs", "output"), ("src/vector/mod.rs", "fmt"), ("src/vector/mod.rs", "output"),
                    ("src/mesh2d.rs", "output"), ("src/mesh2d.rs", "output_var"), ("src/polynomial/mod.rs", "fmt"),
                    ("src/polynomial/mod.rs", "format_leading_coeff"), ("src/complex/mod.rs", "fmt")}
SKIP_LINE = re.compile(r"^\s*(//|#\[|use |pub use |mod |pub mod )|println!|print!|write!|writeln!|panic!|verif::|cfg\(feature")

OPS = [
    ("rel", r"(?<![<>=!\-])<=(?![=>])", ["<"]), ("rel", r"(?<![<>=!\-&\w\)])\s<\s(?![=<])", [" <= "]),
    ("rel", r"(?<![<>=!\-])>=(?![=>])", [">"]), ("rel", r"(?<![<>=!\-])\s>\s(?![=>])", [" >= "]),
    ("rel", r"==", ["!="]), ("rel", r"!=", ["=="]),
    ("arith", r"(?<=[\w\)\]])\s\+\s(?=[\w\(\-])", [" - "]), ("arith", r"(?<=[\w\)\]])\s-\s(?=[\w\(])", [" + "]),
    ("arith", r"(?<=[\w\)\]])\s\*\s(?=[\w\(\-])", [" + "]), ("arith", r"(?<=[\w\)\]])\s/\s(?=[\w\(\-])", [" * "]),
    ("assign", r"\+=", ["-="]), ("assign", r"-=", ["+="]), ("assign", r"\*=", ["+="]),
    ("range", r"\.\.=", [".."]), ("range", r"(?<=\d)\.\.(?=[\w\(])", ["..="]),
    ("const", r"(?<=[\s\[\(])\+ 1\b", ["+ 2", "+ 0"]), ("const", r"(?<=[\s\[\(])- 1\b", ["- 2", "- 0"]),
    ("const", r"\b0\.\.", ["1.."]), ("const", r"\b1\.\.", ["0.."]),
    ("bool", r"&&", ["||"]), ("bool", r"\|\|(?!\s*\{)", ["&&"]), ("bool", r"\btrue\b", ["false"]), ("bool", r"\bfalse\b", ["true"]),
    ("neg", r"(?<=[=\(,]\s)-(?=[\w\(])", [""]),
    ("zero-one", r"T::zero\(\)", ["T::one()"]), ("zero-one", r"T::one\(\)", ["T::zero()"]),
    ("swap", r"\.real\b", [".imag"]), ("swap", r"\.imag\b", [".real"]),
    ("swap", r"\bself\.rows\b", ["self.cols"]), ("swap", r"\bself\.cols\b", ["self.rows"]), ("swap", r"\brows\(\)", ["cols()"]), ("swap", r"\bcols\(\)", ["rows()"]),
    ("swap", r"\bself\.m1\b", ["self.m2"]), ("swap", r"\bself\.m2\b", ["self.m1"]), ("swap", r"\bself\.sub\b", ["self.sup"]), ("swap", r"\bself\.sup\b", ["self.sub"]),
    ("swap", r"\bself\.nx\b", ["self.ny"]), ("swap", r"\bself\.ny\b", ["self.nx"]),
    ("swap", r"\(\s*i\s*,\s*j\s*\)", ["(j,i)"]), ("swap", r"\(\s*k\s*,\s*j\s*\)", ["(j,k)"]), ("swap", r"\(\s*i\s*,\s*k\s*\)", ["(k,i)"]),
    ("swap", r"\[\s*i\s*\]", ["[ j ]", "[ 0 ]"]), ("swap", r"\[\s*j\s*\]", ["[ i ]"]), ("swap", r"\[\s*k\s*\]", ["[ i ]"]),
    ("swap", r"\.min\(", [".max("]), ("swap", r"\.max\(", [".min("]), ("swap", r"\.abs\(\)", [""]), ("swap", r"\.conj\(\)", [""]),
    ("swap", r"\.clone\(\) \+ ", [".clone() - "]), ("swap", r"transpose_multiply\(", ["multiply("]),
    ("num", r"\b0\.5\b", ["0.25"]), ("num", r"\b2\.0\b", ["3.0"]), ("num", r"\b1\.0\b", ["2.0"]),
]


def sh(cmd, cwd=None, env=None, timeout=None):
    try:
        p = subprocess.run(cmd, cwd=cwd, env=env, stdout=subprocess.PIPE, stderr=subprocess.STDOUT, text=True, timeout=timeout)
        return p.returncode, p.stdout
    except subprocess.TimeoutExpired as e:
        return None, (e.stdout if isinstance(e.stdout, str) else "") or ""


def monitors_for(f):
    for pref, mons in MAP:
        if f.startswith(pref):
            return mons
    return []


def candidates(files_filter):
    rc, out = sh(["git", "-C", REPO, "ls-tree", "-r", "--name-only", REV, "src"])
    cands = []
    for f in out.split():
        if not f.endswith(".rs") or f in SKIP_FILES or not monitors_for(f):
            continue
        if files_filter and not any(s in f for s in files_filter):
            continue
        src = sh(["git", "-C", REPO, "show", f"{REV}:{f}"])[1].split("\n")
        in_comment, fn_name = False, ""
        for ln, line in enumerate(src):
            # block comments (the sources keep whole retired functions in /* ... */) and functions outside every property
            if in_comment:
                if "*/" in line:
                    in_comment = False
                continue
            if "/*" in line and "*/" not in line.split("/*", 1)[1]:
                in_comment = True
                line = line.split("/*", 1)[0]
            mfn = re.search(r"\bfn\s+(\w+)", line)
            if mfn:
                fn_name = mfn.group(1)
            if (f, fn_name) in OUT_OF_SCOPE_FNS:
                continue
            if SKIP_LINE.search(line):
                continue
            code = line.split("//")[0]
            if not code.strip() or '"' in code:
                continue
            for kind, pat, reps in OPS:
                for m in re.finditer(pat, code):
                    for r in reps:
                        cands.append({"file": f, "line": ln + 1, "kind": kind, "col": m.start(), "old": m.group(0), "new": r,
                                      "text": line.strip()[:160]})
            # statement deletion
            st = code.strip()
            if st.endswith(";") and not st.startswith(("let ", "return", "use ", "pub ", "const ", "static ", "type ")) and "=>" not in st and "{" not in st and "}" not in st:
                cands.append({"file": f, "line": ln + 1, "kind": "delete-stmt", "col": 0, "old": st, "new": "", "text": st[:160]})
    return cands


def apply(pristine, c):
    lines = pristine.split("\n")
    line = lines[c["line"] - 1]
    if c["kind"] == "delete-stmt":
        lines[c["line"] - 1] = ""
    else:
        lines[c["line"] - 1] = line[:c["col"]] + c["new"] + line[c["col"] + len(c["old"]):]
    return "\n".join(lines)


class Worker(threading.Thread):
    def __init__(self, idx, queue, lock, outf, seed):
        super().__init__()
        self.idx, self.queue, self.lock, self.outf, self.seed = idx, queue, lock, outf, seed
        self.wt = f"{BASE}/w{idx}"
        self.hx = f"{BASE}/h{idx}"

    def setup(self):
        if not os.path.isdir(self.wt):
            sh(["git", "-C", REPO, "worktree", "add", "--detach", self.wt, REV, "-q"])
        sh(["git", "-C", self.wt, "checkout", "--detach", REV, "-q"])
        sh(["git", "-C", self.wt, "checkout", "--", "."])
        os.makedirs(self.hx, exist_ok=True)
        for name in ("Cargo.lock", ".cargo"):
            src = os.path.join(VERIF, "harness", name); dst = os.path.join(self.hx, name)
            if os.path.isdir(src):
                shutil.copytree(src, dst, dirs_exist_ok=True)
            else:
                shutil.copy(src, dst)
        toml = open(os.path.join(VERIF, "harness", "Cargo.toml")).read().replace('path = "/repo"', f'path = "{self.wt}"')
        open(os.path.join(self.hx, "Cargo.toml"), "w").write(toml)
        if os.path.islink(os.path.join(self.hx, "src")) or os.path.exists(os.path.join(self.hx, "src")):
            if os.path.islink(os.path.join(self.hx, "src")):
                os.unlink(os.path.join(self.hx, "src"))
            else:
                shutil.rmtree(os.path.join(self.hx, "src"))
        shutil.copytree(os.path.join(VERIF, "harness", "src"), os.path.join(self.hx, "src"))
        self.env = dict(os.environ, CARGO_NET_OFFLINE="true")
        self.tenv = dict(self.env, CARGO_TARGET_DIR=f"{self.wt}/target")
        self.henv = dict(self.env, CARGO_TARGET_DIR=f"{self.hx}/target")

    def run(self):
        self.setup()
        while True:
            with self.lock:
                if not self.queue:
                    return
                c = self.queue.pop()
            rec = self.one(c)
            with self.lock:
                self.outf.write(json.dumps(rec) + "\n"); self.outf.flush()
                print(f"[w{self.idx}] {c['file']}:{c['line']} {c['kind']} '{c['old']}'->'{c['new']}': {rec['verdict']} {rec.get('caught_by', '')}", flush=True)

    def one(self, c):
        path = os.path.join(self.wt, c["file"])
        pristine = sh(["git", "-C", REPO, "show", f"{REV}:{c['file']}"])[1]
        rec = dict(c)
        t0 = time.time()
        lines = pristine.split("\n")
        here = lines[c["line"] - 1] if c["line"] <= len(lines) else ""
        if (c["kind"] == "delete-stmt" and here.split("//")[0].strip() != c["old"]) or (c["kind"] != "delete-stmt" and here[c["col"]:c["col"] + len(c["old"])] != c["old"]):
            rec["verdict"] = "stale-record(source-changed)"; rec["wall_s"] = 0
            return rec
        try:
            open(path, "w").write(apply(pristine, c))
            rc, out = sh(["cargo", "test", "--offline", "--test", "tests"], cwd=self.wt, env=self.tenv, timeout=600)
            if rc is None:
                rec["verdict"] = "suite-timeout"; return rec
            m = re.search(r"test result: \w+\. (\d+) passed; (\d+) failed", out)
            if not m:
                rec["verdict"] = "does-not-compile"; return rec
            if int(m.group(2)) > 0:
                rec["verdict"] = "killed-by-suite"; rec["suite"] = m.group(0); return rec
            rc, out = sh(["cargo", "build", "--release", "--offline"], cwd=self.hx, env=self.henv, timeout=1200)
            if rc != 0:
                rec["verdict"] = "harness-does-not-build"; rec["log"] = (out or "")[-400:]; return rec
            caught, detail = [], {}
            for mon in monitors_for(c["file"]):
                rc, out = sh([f"{self.hx}/target/release/ohsl-monitor", mon, "--seed", str(self.seed), "--threads", "4", "--out", f"{self.hx}/{mon}.json"], cwd=self.hx, env=self.env, timeout=900)
                mm = re.search(r"violations=(\d+) harness_errors=(\d+)", out or "")
                if rc is None:
                    detail[mon] = "timeout"; caught.append(mon + "(hang)")
                elif not mm:
                    detail[mon] = f"crash rc={rc}"; caught.append(mon + "(crash)")
                else:
                    v, h = int(mm.group(1)), int(mm.group(2))
                    detail[mon] = {"violations": v, "harness_errors": h}
                    if v > 0:
                        sigs = []
                        try:
                            j = json.load(open(f"{self.hx}/{mon}.json"))
                            sigs = sorted({x.get("signature", "?") for x in j.get("stats", {}).get("violations", [])})[:4]
                        except Exception:
                            pass
                        detail[mon]["sigs"] = sigs
                        caught.append(mon)
                    elif h > 0:
                        caught.append(mon + "(harness-error)")
                if caught and not caught[-1].endswith("(harness-error)"):
                    break
            rec["monitors"] = detail
            rec["caught_by"] = caught
            rec["verdict"] = "caught" if caught else "SURVIVED"
            return rec
        finally:
            open(path, "w").write(pristine)
            rec["wall_s"] = round(time.time() - t0, 1)


def summary():
    recs = [json.loads(l) for l in open(OUT)]
    last = {}
    for r in recs:
        last[(r["file"], r["line"], r["kind"], r["col"], r["new"])] = r
    recs = list(last.values())
    valid = {(c["file"], c["line"]) for c in candidates([])}
    for r in recs:
        if (r["file"], r["line"]) not in valid and r["verdict"] in ("SURVIVED", "caught", "killed-by-suite"):
            r["verdict"] = "not-counted(comment-or-formatting-code)"
    by = {}
    for r in recs:
        by.setdefault(r["verdict"], []).append(r)
    print(f"{len(recs)} mutants:", {k: len(v) for k, v in sorted(by.items())})
    live = [r for r in recs if r["verdict"] in ("caught", "SURVIVED")]
    files = sorted({r["file"] for r in live})
    print(f"{'file':34} {'pass-suite':>10} {'caught':>7} {'survived':>9}")
    for f in files:
        a = [r for r in live if r["file"] == f]
        print(f"{f:34} {len(a):10d} {sum(r['verdict'] == 'caught' for r in a):7d} {sum(r['verdict'] == 'SURVIVED' for r in a):9d}")
    print("\nSURVIVORS:")
    for r in sorted(by.get("SURVIVED", []), key=lambda r: (r["file"], r["line"])):
        print(f"  {r['file']}:{r['line']} [{r['kind']}] '{r['old']}' -> '{r['new']}'   | {r['text']}")


def main():
    ap = argparse.ArgumentParser()
    ap.add_argument("--n", type=int, default=0)
    ap.add_argument("--workers", type=int, default=6)
    ap.add_argument("--seed", type=int, default=1)
    ap.add_argument("--files", default="")
    ap.add_argument("--summary", action="store_true")
    ap.add_argument("--cleanup", action="store_true")
    ap.add_argument("--rerun-survivors", action="store_true", help="re-evaluate the mutants whose latest verdict is SURVIVED")
    a = ap.parse_args()
    if a.summary:
        return summary()
    if a.cleanup:
        for d in sorted(os.listdir(BASE)) if os.path.isdir(BASE) else []:
            if d.startswith("w"):
                sh(["git", "-C", REPO, "worktree", "remove", "--force", f"{BASE}/{d}"])
        shutil.rmtree(BASE, ignore_errors=True)
        sh(["git", "-C", REPO, "worktree", "prune"])
        return
    os.makedirs(BASE, exist_ok=True)
    os.makedirs(os.path.dirname(OUT), exist_ok=True)
    if a.rerun_survivors:
        last = {}
        for l in open(OUT):
            r = json.loads(l); last[(r["file"], r["line"], r["kind"], r["col"], r["new"])] = r
        pick = [{k: r[k] for k in ("file", "line", "kind", "col", "old", "new", "text")} for r in last.values() if r["verdict"] == "SURVIVED"]
        print(f"re-running {len(pick)} survivors", flush=True)
        lock = threading.Lock(); outf = open(OUT, "a")
        ws = [Worker(i, pick, lock, outf, a.seed) for i in range(a.workers)]
        for w in ws: w.start()
        for w in ws: w.join()
        return summary()
    cands = candidates([s for s in a.files.split(",") if s])
    done = set()
    if os.path.exists(OUT):
        for l in open(OUT):
            r = json.loads(l); done.add((r["file"], r["line"], r["kind"], r["col"], r["new"]))
    cands = [c for c in cands if (c["file"], c["line"], c["kind"], c["col"], c["new"]) not in done]
    rnd = random.Random(a.seed)
    rnd.shuffle(cands)
    # stratify: round-robin over files so that small files are represented
    byf = {}
    for c in cands:
        byf.setdefault(c["file"], []).append(c)
    pick = []
    while len(pick) < a.n and any(byf.values()):
        for f in sorted(byf):
            if byf[f] and len(pick) < a.n:
                pick.append(byf[f].pop())
    print(f"{len(cands)} candidate mutants, running {len(pick)} with {a.workers} workers", flush=True)
    lock = threading.Lock()
    outf = open(OUT, "a")
    pick.reverse()
    ws = [Worker(i, pick, lock, outf, a.seed) for i in range(a.workers)]
    for w in ws:
        w.start()
    for w in ws:
        w.join()
    summary()


if __name__ == "__main__":
    main()
