#!/usr/bin/env python3
"""try_seed.py <ID> <a|b> [--checks C01,C03] [--tier quick]
Confirms a seeded change delivered under /tmp/seed/<ID>/out (patch_X.diff, demo_X.rs, meta.json) in a scratch worktree
(suite still 236 green with the patch, demo fails with it and passes without it), then applies it to /repo, runs the
check(s), restores /repo, and files everything under /verif/seeded/<ID><x>/ (patch.diff, demo.rs, meta.json)."""
import json, os, re, shutil, subprocess, sys, time
ROOT = "/verif"

def sh(cmd, cwd=None, env=None, timeout=3600):
    p = subprocess.run(cmd, cwd=cwd, env=env, shell=isinstance(cmd, str), stdout=subprocess.PIPE, stderr=subprocess.STDOUT, text=True, timeout=timeout)
    return p.returncode, p.stdout

def main():
    pid, x = sys.argv[1], sys.argv[2]
    checks = [pid]
    tier = "quick"
    for i, a in enumerate(sys.argv):
        if a == "--checks": checks = sys.argv[i + 1].split(",")
        if a == "--tier": tier = sys.argv[i + 1]
    rnd = ""
    for i, a in enumerate(sys.argv):
        if a == "--round": rnd = sys.argv[i + 1]
    src = f"/tmp/seed{rnd if rnd not in ('', '1') else ''}/{pid}/out"
    patch, demo = f"{src}/patch_{x}.diff", f"{src}/demo_{x}.rs"
    meta_all = json.load(open(f"{src}/meta.json")) if os.path.exists(f"{src}/meta.json") else {"changes": []}
    meta = next((c for c in meta_all.get("changes", []) if c.get("id") == x), {})
    wt = f"/tmp/seedverify/{pid}{x}"  # scratch worktree, removed below
    env = dict(os.environ); env["CARGO_TARGET_DIR"] = f"/tmp/seedverify/target-{pid}{x}"; env["CARGO_NET_OFFLINE"] = "true"
    shutil.rmtree(wt, ignore_errors=True)
    sh(["git", "-C", "/repo", "worktree", "prune"])
    rc, out = sh(["git", "-C", "/repo", "worktree", "add", "--detach", wt, "HEAD"])
    res = {"property": pid, "change": x, "summary": meta.get("summary"), "site": meta.get("site"), "needs": meta.get("needs"), "ran": []}
    try:
        shutil.copy(demo, f"{wt}/tests/seed_demo_{x}.rs")
        rc0, out0 = sh(["cargo", "test", "--offline", "--test", f"seed_demo_{x}"], cwd=wt, env=env)
        res["demo_passes_without_change"] = rc0 == 0
        rc, out = sh(["git", "apply", patch], cwd=wt)
        res["patch_applies"] = rc == 0
        rc1, out1 = sh(["cargo", "test", "--offline", "--test", f"seed_demo_{x}"], cwd=wt, env=env)
        res["demo_fails_with_change"] = rc1 != 0
        rc2, out2 = sh(["cargo", "test", "--offline", "--test", "tests"], cwd=wt, env=env)
        m = re.search(r"test result: (\w+)\. (\d+) passed; (\d+) failed", out2)
        res["suite_with_change"] = m.group(0) if m else out2[-300:]
        res["suite_green_with_change"] = bool(m and m.group(1) == "ok" and m.group(2) == "236")
        res["ran"].append(f"scratch worktree {wt}: cargo test --test seed_demo_{x} (clean: rc {rc0}; patched: rc {rc1}); cargo test --test tests (patched): {res['suite_with_change']}")
    finally:
        sh(["git", "-C", "/repo", "worktree", "remove", "--force", wt])
        shutil.rmtree(env["CARGO_TARGET_DIR"], ignore_errors=True)
    confirmed = res.get("demo_passes_without_change") and res.get("patch_applies") and res.get("demo_fails_with_change") and res.get("suite_green_with_change")
    res["confirmed"] = bool(confirmed)
    res["detection"] = {}
    if confirmed:
        rc, out = sh(["git", "-C", "/repo", "status", "--porcelain"])
        assert out.strip() == "", "repo not clean: " + out
        rc, out = sh(["git", "-C", "/repo", "apply", patch])
        assert rc == 0, out
        try:
            for c in checks:
                t0 = time.time()
                rc, out = sh([f"{ROOT}/check", c, "--tier", tier], cwd=ROOT)
                sigs = sorted(set(re.findall(r"# (C\d+:[^ ]*?): ", out)))
                res["detection"][c] = {"exit": rc, "signatures": sigs[:12], "wall_s": round(time.time() - t0, 1), "tier": tier,
                                       "first_violation": next((l[:400] for l in out.splitlines() if l.startswith("VIOLATION")), None)}
                res["ran"].append(f"git -C /repo apply patch.diff; ./check {c} --tier {tier} -> exit {rc}")
        finally:
            sh(["git", "-C", "/repo", "checkout", "--", "."])
            rc, out = sh(["git", "-C", "/repo", "status", "--porcelain"])
            assert out.strip() == "", out
    res["detected"] = any(v["exit"] == 1 for v in res["detection"].values())
    dst = f"{ROOT}/seeded/{pid}{x}" + (f"-r{rnd}" if rnd not in ("", "1") else "")
    res["round"] = int(rnd) if rnd else 1
    if confirmed:
        old = None
        if os.path.exists(f"{dst}/meta.json"):
            try: old = json.load(open(f"{dst}/meta.json"))
            except Exception: old = None
        if old is not None and (not old.get("detected") or old.get("history")):
            res["history"] = old.get("history") or ("first evaluation (quick tier, monitors as they were before this seed was seen): MISSED " + json.dumps({k: v["exit"] for k, v in old.get("detection", {}).items()}) + "; re-evaluated after the strengthening described in DESIGN.md section 10")
        os.makedirs(dst, exist_ok=True)
        shutil.copy(patch, f"{dst}/patch.diff"); shutil.copy(demo, f"{dst}/demo.rs")
        res["why_tests_pass"] = meta.get("why_tests_pass")
        res["why_random_testing_may_miss_it"] = meta.get("why_random_testing_may_miss_it")
        json.dump(res, open(f"{dst}/meta.json", "w"), indent=1)
    print(json.dumps(res, indent=1))

if __name__ == "__main__":
    main()
