#!/usr/bin/env python3
"""Blind baseline for a round of seeded changes: runs the monitors AS THEY WERE at an earlier /verif commit (before the
seeding agents' reports were read) against each delivered patch, in scratch worktrees (nothing touches /repo or the live
harness). Native quick monitor of the seed's own property, release profile, seed 1 (no Miri/TSan stage).

usage: blind_eval.py --round 3 --verif-rev 79b5b16 [--workers 6]
output: /verif/.work/blind_r<round>.jsonl and a table on stdout
"""
import argparse, json, os, re, shutil, subprocess, threading, sys
sys.path.insert(0, os.path.dirname(os.path.abspath(__file__)))
import mutsweep as ms

BASE = "/tmp/blind"


def main():
    ap = argparse.ArgumentParser()
    ap.add_argument("--round", default="3")
    ap.add_argument("--verif-rev", required=True)
    ap.add_argument("--workers", type=int, default=6)
    a = ap.parse_args()
    src = f"/tmp/seed{a.round}"
    jobs = []
    for pid in sorted(os.listdir(src)):
        for x in "ab":
            p = f"{src}/{pid}/out/patch_{x}.diff"
            if os.path.exists(p):
                jobs.append((pid, x, p))
    os.makedirs(BASE, exist_ok=True)
    # old harness sources
    old = f"{BASE}/oldsrc"
    shutil.rmtree(old, ignore_errors=True); os.makedirs(old)
    subprocess.run(f"git -C /verif archive {a.verif_rev} harness | tar -x -C {old}", shell=True, check=True)
    out = open(f"/verif/.work/blind_r{a.round}.jsonl", "a")
    lock = threading.Lock()

    def work(idx):
        wt, hx = f"{BASE}/w{idx}", f"{BASE}/h{idx}"
        if not os.path.isdir(wt):
            ms.sh(["git", "-C", "/repo", "worktree", "add", "--detach", wt, ms.REV, "-q"])
        shutil.rmtree(hx, ignore_errors=True)
        shutil.copytree(f"{old}/harness", hx)
        t = open(f"{hx}/Cargo.toml").read().replace('path = "/repo"', f'path = "{wt}"')
        open(f"{hx}/Cargo.toml", "w").write(t)
        env = dict(os.environ, CARGO_NET_OFFLINE="true", CARGO_TARGET_DIR=f"{hx}/target")
        while True:
            with lock:
                if not jobs:
                    return
                pid, x, patch = jobs.pop()
            ms.sh(["git", "-C", wt, "checkout", "--", "."])
            rc, o = ms.sh(["git", "-C", wt, "apply", patch])
            rec = {"seed": pid + x, "verif_rev": a.verif_rev}
            if rc != 0:
                rec["verdict"] = "patch-does-not-apply"
            else:
                rc, o = ms.sh(["cargo", "build", "--release", "--offline"], cwd=hx, env=env, timeout=1800)
                if rc != 0:
                    rec["verdict"] = "harness-does-not-build"; rec["log"] = (o or "")[-300:]
                else:
                    rc, o = ms.sh([f"{hx}/target/release/ohsl-monitor", pid, "--seed", "1", "--threads", "4", "--out", f"{hx}/{pid}.json"], cwd=hx, timeout=1800)
                    m = re.search(r"violations=(\d+) harness_errors=(\d+)", o or "")
                    if rc is None or not m:
                        rec["verdict"] = "hang-or-crash"
                    else:
                        rec["violations"] = int(m.group(1))
                        try:
                            j = json.load(open(f"{hx}/{pid}.json"))
                            rec["signatures"] = sorted(j["stats"].get("violation_signatures", {}))[:6] if isinstance(j["stats"].get("violation_signatures"), dict) else []
                        except Exception:
                            rec["signatures"] = []
                        rec["verdict"] = "caught" if rec["violations"] > 0 else "MISSED"
            ms.sh(["git", "-C", wt, "checkout", "--", "."])
            with lock:
                out.write(json.dumps(rec) + "\n"); out.flush()
                print(rec["seed"], rec["verdict"], rec.get("signatures", ""), flush=True)

    ts = [threading.Thread(target=work, args=(i,)) for i in range(a.workers)]
    for t in ts: t.start()
    for t in ts: t.join()
    for d in sorted(os.listdir(BASE)):
        if d.startswith("w"):
            ms.sh(["git", "-C", "/repo", "worktree", "remove", "--force", f"{BASE}/{d}"])
    shutil.rmtree(BASE, ignore_errors=True)


if __name__ == "__main__":
    main()
