#!/usr/bin/env python3
import json,sys
d=json.load(open(sys.argv[1]))
s=d['stats']
print('evals',s['evaluations'],'distinct',s['distinct_nontrivial'],'viol',s['violations_total'],'wall',d['wall_s'])
print('sigs',json.dumps(s['violation_signatures'],indent=1))
print('maxima',json.dumps(s['maxima'],indent=1))
print('sets',{k:v['distinct'] for k,v in s['sets'].items()})
print('skipped',{k:v for k,v in s['counters'].items() if k.startswith('skipped')})
if len(sys.argv)>2: print('counters',json.dumps(s['counters'],indent=1))
seen=set()
for v in s['violations']:
    if v['signature'] in seen: continue
    seen.add(v['signature'])
    print('--',v['signature'],'unit',v['unit'],'case',v['case']); print('  ',v['what'][:700])
print('harness_errors',s['harness_errors'][:3], 'inconclusive', d['inconclusive'])
