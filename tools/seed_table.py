#!/usr/bin/env python3
"""prints the markdown table of seeded changes and which checks catch them (from /verif/seeded/*/meta.json)"""
import json,glob,os
rows=[]
for d in sorted(glob.glob('/verif/seeded/*/')):
    m=json.load(open(d+'meta.json'))
    det=[]
    for c,v in m.get('detection',{}).items():
        det.append(f"{c}: {'**caught**' if v['exit']==1 else 'missed'} ({', '.join('`'+s+'`' for s in v['signatures'][:2])})" if v['exit']==1 else f"{c}: missed (exit {v['exit']})")
    summ=(m.get('summary') or '').replace('|','/').replace('\n',' ')
    needs=(m.get('needs') or '').replace('|','/').replace('\n',' ')
    rows.append(f"| {os.path.basename(d[:-1])} | {m.get('site','')} — {summ[:230]} | {needs[:200]} | {'; '.join(det)} |")
print("| seed | change | needs | result of the quick check(s) |\n|---|---|---|---|")
print("\n".join(rows))
