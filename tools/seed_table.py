#!/usr/bin/env python3
"""prints the markdown table of seeded changes and which checks catch them (from /verif/seeded/*/meta.json)"""
import json,glob,os
blind={}
p='/verif/seeded/blind_baseline_r3.jsonl'
if os.path.exists(p):
    for l in open(p):
        r=json.loads(l); blind[r['seed']]=r['verdict']
rows=[]
for d in sorted(glob.glob('/verif/seeded/*/')):
    m=json.load(open(d+'meta.json'))
    name=os.path.basename(d[:-1])
    det=[]
    for c,v in m.get('detection',{}).items():
        det.append(f"{c}: {'**caught**' if v['exit']==1 else 'missed'} ({', '.join('`'+s+'`' for s in v['signatures'][:2])}{', '+v['tier']+' tier' if v.get('tier','quick')!='quick' else ''})" if v['exit']==1 else f"{c}: missed (exit {v['exit']})")
    summ=(m.get('summary') or '').replace('|','/').replace('\n',' ')
    needs=(m.get('needs') or '').replace('|','/').replace('\n',' ')
    first='missed' if m.get('history') else 'caught'
    if name.endswith('-r3'):
        b=blind.get(name[:-3],'?')
        first=f"blind: {'caught' if b=='caught' else 'missed'}; official: {first}"
    if name.endswith('-r4') or name.endswith('-r5') or name.endswith('-r6'):
        first=f"blind (official): {first}"
    rows.append(f"| {name} | {m.get('site','')} — {summ[:230]} | {needs[:200]} | {first} | {'; '.join(det)} |")
print("| seed | change | needs | first evaluation | final result of the check(s) |\n|---|---|---|---|---|")
print("\n".join(rows))
