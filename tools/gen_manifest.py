#!/usr/bin/env python3
"""Regenerates /verif/MANIFEST.json from the table below (kept in git so the manifest is always valid)."""
import json, os, subprocess
ROOT = os.path.dirname(os.path.dirname(os.path.abspath(__file__)))

# id -> (technique, level text, level note, design ref)
P = {
 "C01": ("differential runtime monitor: real generic solver code instantiated at exact rationals (exact oracle A*x=b) + f64/Complex backward-error oracle with exact conditioning certificates, over enumerated row-exchange patterns",
         "Runs Matrix::solve_basic/solve_lu on every permutation-forced pivot pattern (all P for n<=6 quick, n<=8 thorough), all sign/zero patterns n<=3 and random structured classes; exact equality over Rat/CRat, backward error <=1024*n*u over f64/Cmplx, agreement of the two solvers. Exploration: held on the executions listed in the evidence.",
         "Trusted: harness exact rational arithmetic and Gauss-Jordan model, double-double residuals; float demands only under kappa<=1e8 certificates.", "5/C01"),
 "C02": ("differential runtime monitor: determinant/inverse of the real generic code at exact rationals vs harness exact elimination (all n! permutation matrices, rank-deficient families), f64/Complex error bounds scaled by an exact condition number, snapshot comparison of the matrix",
         "Matrix::determinant must equal the exact determinant for every square matrix incl. singular ones; inverse must satisfy A*X=X*A=I for nonsingular ones; matrix bitwise unchanged afterwards. Exploration over enumerated permutation/parity classes and random structured classes; held on the executions listed.",
         "Trusted: harness Gauss-Jordan over Rat/CRat; float bounds n*kappa*tau(n) with kappa from the exact inverse (kappa<=1e8).", "5/C02"),
 "C03": ("lock-step differential execution against a Vec<Vec<Rat>> model: exhaustive shape sweep of every operator/editing method plus random operation histories, with a structural invariant hook (storage length == rows*cols)",
         "Every dense operator/method is executed on all shapes 0..8 (products on all (r,k,c) in [0,8]^3) with exact rational entries and compared entry-by-entry with textbook loops; random editing histories compared after every step; norms on exactly representable data.",
         "Trusted: the naive model; hook Matrix::verif_storage_len. Only conformable calls (mismatches are C20).", "5/C03"),
 "C04": ("differential + metamorphic runtime monitor: banded code at Rat/CRat/f64/Complex vs dense twin over all 385 (n,m1,m2) triples x 6 value classes, each built twice with different padding fills",
         "Element access, products, det, solve and 18 arithmetic forms compared with the dense model (exact over Rat/CRat, backward error <=4096*n*u and kappa-scaled det error over floats); results must be identical across padding values.",
         "Trusted: dense model and exact inverse for certificates (kappa<=1e8); solve of singular matrices unconstrained.", "5/C04"),
 "C05": ("differential runtime monitor: tridiagonal code at Rat/CRat/f64/Complex vs dense twin and an exact Thomas-elimination model deciding 'solution or zero-pivot refusal' per case",
         "All four constructors, sizes 1..12 (1 and 2 weighted), zero pivots forced at every elimination step: access, convert, transpose, det, products, arithmetic equal the dense twin; solve returns the exact solution or panics naming a zero pivot exactly when the model meets one; f64 exact class mirrors the Rat model, dominant class backward stable.",
         "Trusted: harness exact Thomas model; message pattern /zero|pivot|singular/i.", "5/C05"),
 "C06": ("history monitor with structural invariant checks: real Sparse<Rat> put through construction/insert/overwrite/scale/transpose histories in lock step with a BTreeMap model; CSC well-formedness and four views checked after every step",
         "After every step of every history (all shapes [0,8]^2, exhaustive patterns up to 3x3, every permutation of triplet lists up to 6) the public CSC fields are well-formed and get/to_triplets/to_dense/col_index equal the model.",
         "Trusted: BTreeMap model; duplicate-free inputs as stated by the property; from_vecs fed valid arrays.", "5/C06"),
 "C07": ("differential runtime monitor: sparse products of the real code at exact rationals vs dense model for every shape up to 10x10, prime-valued vectors, adjoint identity, scaling metamorphism; f64 against double-double",
         "multiply, transpose_multiply, transpose().multiply and scaled variants equal the dense products exactly over Rat (and on integer f64 data), within 4*nnz*u*sum|a||x| on general f64 data; <y,Ax>=<A^T y,x> through library results.",
         "Trusted: dense model from the same entry map; double-double reference.", "5/C07"),
 "C08": ("runtime monitor of the implication 'Ok => solved': every Ok outcome of the five solver variants on generated systems of all kinds is re-judged with a double-double true residual from a dense copy; budget replay at the client boundary yields the iterates for the drift term; determinism and zero-budget metamorphic checks",
         "Whenever a solver answers Ok(it): it<=max_iter, x finite, true relative residual <= tol + drift allowance (256 units, QMR 64 units of u*(it+1)*(||A||_F*max_k||x_k||+||b||)/||b||*). Zero budget leaves x bit-identical; repeated calls are bit-identical.",
         "Trusted: dense copy + double-double residual; drift constants calibrated on 3.6 M outcomes (worst 2.3; QMR 0.03 since its success is confirmed on the true residual, fix ab4c52c).", "5/C08"),
 "C09": ("runtime monitor on certified well-posed systems (strict diagonal dominance certificates computed from the entries): convergence within a dimension-proportional budget, agreement with the dense direct solver, degenerate starts on exactly representable data",
         "On SPD/strictly dominant systems every applicable solver must answer Ok within 10n+100 iterations and agree with Matrix::solve_basic within kappa_F*(tol+drift); an exact initial guess and (b=0,x0=0) must be accepted with x finite and still a solution.",
         "QMR demanded for tol>=1e-8 only (attainable-accuracy floor of the algorithm); isolated Lanczos breakdowns (not reproducing on 2 of 3 fresh rhs) are logged, not flagged; initial guesses at the scale of the solution.", "5/C09"),
 "C18": ("call-log runtime monitor: closures passed to jacobian/jacobian_cmplx record every evaluation point; exactness on dyadic affine maps certified by an integer model; difference-quotient and derivative-bound oracles",
         "All 36 shapes (m,n) in [1,6]^2 x {f64,Cmplx} x all steps 2^-4..2^-26 and 1e-8: shape m x n, n+1 calls at x and x+delta*e_j with every other coordinate restored, J==M exactly for dyadic affine maps, entries equal the double-double difference quotient (512u) and lie within the rigorous truncation+rounding bound for smooth maps.",
         "Trusted: integer model of the logged calls on the 2^-29 grid; second-derivative bounds per term.", "5/C18"),
 "C10": ("runtime monitor with hook-based classification: every roots() call on generated polynomials is judged by count, finiteness, normwise backward error evaluated in complex double-double and one-to-one matching for well-separated root sets; hook H5 reports whether a Laguerre iteration exhausted its cap",
         "Degrees 1..12 x {f64,Cmplx} x {refine,no refine} x 10 hostile classes (roots at zero, vanishing inner coefficients, scale ratio 1e6, repeats, clusters, x^n+eps*x+c, ...): n finite values, backward error <= path threshold, matching of known roots; degree-0/empty rejected.",
         "Thresholds fixed: 64u (deg 1-2, refined cubic), 1e-6 plain cubic, 1e-8 plain / 1e-12 refined for degree>=4 (measured worst 1e-12 / 1e-14 on 2.5 M inputs of the repaired tree).", "5/C10"),
 "C12": ("runtime monitor with a logical step budget: polydiv on generated dividend/divisor pairs over Rat/CRat (exact identity), integer f64 (exact), general f64/Complex (double-double identity), remainder-degree check; hook H4 delivers the loop counter so that 'never spins' is decided on steps, not time",
         "All 77 degree pairs (deg u 0..10, deg v 0..6): Ok, u=q*v+r exactly or within 64(deg u+1)u, r=0 or deg r<deg v, no panic, loop passes <= 4(deg u+2); empty/all-zero divisors (incl. -0.0) give Err.",
         "Trusted: harness convolution model; hook H4 (liveness asserted each run).", "5/C12"),
 "C13": ("differential runtime monitor: the real generic Complex<T> operator code at exact rationals vs independently coded field formulae; Complex<f64> vs exact TwoProd/double-double references; bit-identity of compound-assignment and mixed forms; ordering laws on pairs/triples",
         "All 17 operator impls, conj, abs_sqr, zero, one, ==, partial_cmp: exact over Complex<Rat> (exhaustive small grids + random), <=4u (mul) / 12u (div) normwise over f64 in 1e-100..1e100, every assign form bit-identical to its binary form, trichotomy/transitivity/consistency of the ordering.",
         "Tolerances are about twice the a-priori bounds of the straight-line IEEE formulae (theorems under the operand-range certificate).", "5/C13"),
 "C14": ("runtime monitor against an independent double-double reference implementation of the definitions (exp/sin/cos/ln/atan2/sqrt and DLMF principal-value inverse formulae), plus real-axis reduction, right-inverse through the library's own forward functions, principal ranges, reciprocal/Pythagorean identities, pow/powf/log/polar relations",
         "35 public Complex<f64> functions on a polar grid 1e-3<=|z|<=10 in all quadrants, both axes with signed zeros, points within 1e-9 of +-1,+-i,0 and 1e-12 either side of every cut: values within condition-aware envelopes of the DD reference, branches principal, inverses right-inverse.",
         "Envelopes model the rounding of the library's current formulae with >=147x head-room; a wrong branch/sign/formula is O(1). Regressions below ~1e3 u are invisible by design.", "5/C14"),
 "C17": ("runtime monitor with instrumented closures: call counting and evaluation-point logs inside the user functions; Kantorovich-certified planted-root families for the success half; arbitrary (root-free, discontinuous, NaN-producing) functions for termination, bounded work and failure reporting; metamorphic chain over the iteration limit (limit k vs k+1 against an independent one-step model)",
         "All six entry points: certified cases return Ok within the certified count and within the stated distance of the planted root; any function: no panic, evaluations within 3k/(n+2)k/k, max_iter=0 gives Err(guess) bit-exactly, Ok/Err status matches an independent model of the stopping test at every limit, parameters() and repeated calls bit-identical.",
         "Trusted: harness one-step Newton model and derivative bounds; closures that panic are out of scope.", "5/C17"),
 "C19": ("lock-step history monitor against a Vec<Vec<i64>> grid model through every write and read path (Mesh1D/Mesh2D at f64 and Rat), exact rational reference for interpolation and quadrature on dyadic grids with integer data, file round trips re-read and compared over Rat",
         "All 44 1-D and 484 2-D shapes (2..12 nodes, 1..4 vars) enumerated + random non-uniform dyadic grids: every access path returns what was stored after every write; interpolation exact at nodes and within 512u of the Rat interpolant elsewhere (>=1e-6 from nodes); trapezium/square_trapezium equal the exact cell sums (bit-exact under certificate) and the analytic integral of (bi)linear data; output/read reproduces nodes and variables within 1/2*10^-p.",
         "Files are written under /verif/.work and deleted; behaviour inside the 1e-7 snapping window and outside the grid is not judged.", "5/C19"),
 "C11": ("differential runtime monitor: real generic Polynomial<T> at Rat/CRat/f64/Complex vs an independently coded coefficient-list model (gather convolution, falling-factorial derivative, power-sum evaluation); ring/calculus laws through composed library calls",
         "All ordered pairs of coefficient lists of length 0..4 over {-1,0,1} (and length 0..3 over {0,+-1,+-i}) exhaustively plus random pairs over all 100 length pairs 0..9: +,-,neg,*,scalar* in owned/borrowed/commuted forms, eval, derivative(_n,_at), degree, size, is_zero, trim equal the model exactly; linearity, product rule, distributivity, associativity, cancellation hold; the empty polynomial acts as zero.",
         "Float checks only under a generator-side certificate that every intermediate is exact in binary64.", "5/C11"),
 "C15": ("lock-step history monitor of Vector<T> (public field vec) against a plain Vec model for all 11^4 four-step edit sequences and random histories over six element types; exact-rational oracles for arithmetic and every (start,end) range reduction; double-double references and norm laws for the f64/Complex norms; element-wise oracle for linspace/powspace",
         "After every edit step vec/size/return value equal the model; 16 arithmetic impls, dot, abs, conj, real, norm_1 exact; sum_slice/product_slice for every range of every length 0..24; norms within 128(n+8)u of double-double and obeying non-negativity, homogeneity, triangle, inf<=2<=1 (also for |x|~2^+-600); linspace/powspace start at a, end at b within rounding, monotone.",
         "Numerical tolerances apply for magnitudes in [2^-118,2^118]; outside only finiteness and the ordering of the norms are judged.", "5/C15"),
 "C16": ("runtime monitoring of the one concurrent routine: CPU-affinity sweep setting the worker count 1..16 in-process, hook H3 event log (chunk partition conservation, completion-order tickets), injected per-worker delays and background load, exact integer oracle; sanitizers: Miri data-race detector with seeded scheduler over -Zmiri-num-cpus x -Zmiri-many-seeds (hook-free) plus a hooked Miri run counting distinct completion orders; ThreadSanitizer build swept over affinities (thorough)",
         "For every worker count 1..16 and every length 0..200: dot_f64 bit-equal to dot and to the exact i128 product sum on exact data, within 2*len*u*sum|ab| otherwise, bit-identical on repetition under injected delays/load; chunks tile [0,len) exactly once; zero Miri/TSan reports. Held on the schedules actually produced (counted in the evidence).",
         "Worker count set via sched_setaffinity (what num_cpus::get reads); Miri cannot cross FFI but dot_f64 has none.", "5/C16"),
 "C20": ("must-panic table + shadow-state monitor: 98 entry points called with every mismatched size pair / out-of-range index, receivers of &mut entry points snapshotted (all entries + private storage length) and compared after the caught panic; bitwise non-mutation and owned-vs-borrowed identity on hostile bit patterns (-0.0, subnormals, NaN payloads); clone-independence histories against separate models",
         "Every mismatched call panics and leaves the receiver untouched; by-reference operators and &self methods leave operands bit-for-bit unchanged and agree bitwise with their consuming counterparts; mutations of a value never show through its clone.",
         "Any panic counts as rejection; raw (i,j) index operators of Matrix/Banded/Mesh2D are outside the claim as the property says.", "5/C20"),
}
ORDER = ["C%02d" % i for i in range(1, 21)]
NOT_BUILT_REASON = "monitor for this property is designed (DESIGN.md section 5) but not yet built in this revision; not claimed"

def main():
    commits = subprocess.run(["git", "-C", "/repo", "log", "--format=%H %s", "fd28bc4..HEAD"], capture_output=True, text=True).stdout.strip().splitlines()
    hook_commits = [c.split()[0] for c in commits if "verif hook" in c]
    checks, na = [], []
    for pid in ORDER:
        if pid in P:
            tech, text, note, ref = P[pid]
            checks.append({
                "property_id": pid,
                "quick_cmd": f"./check {pid} --tier quick",
                "thorough_cmd": f"./check {pid} --tier thorough",
                "evidence_file": f"/verif/evidence/{pid}.json",
                "replay_cmd_template": f"./check {pid} --replay {{path}}",
                "engine": "ohsl-monitor",
                "level_claimed": {"category": "exploration", "text": text, "design_ref": ref},
                "level_note": note,
                "technique": tech,
            })
        else:
            na.append({"property_id": pid, "reason": NOT_BUILT_REASON})
    m = {
        "version": 1,
        "setup_cmd": "./setup.sh",
        "hooks": {
            "guard": "cargo feature `verif` of crate ohsl (cfg(feature = \"verif\"))",
            "enable": "harness/Cargo.toml depends on ohsl = { path = \"/repo\", features = [\"verif\"] }; the Miri/TSan crate under miri/ is built both with and without the feature",
            "baseline_off_cmd": "cd /repo && cargo test --workspace --no-fail-fast --offline",
            "source_commits": hook_commits,
            "add_only": True,
        },
        "engines": [
            {"name": "ohsl-monitor", "path": "harness/", "serves_properties": [c["property_id"] for c in checks],
             "kind_free_text": "Rust binary linking the real ohsl (hooks on): seeded/enumerated workloads, catch_unwind outcome capture, exact-rational instantiation of the generic code, reference models, float oracles in double-double; run under a release build and an overflow-checks+debug-assertions build"},
            {"name": "check", "path": "check", "serves_properties": [c["property_id"] for c in checks],
             "kind_free_text": "Python wrapper: rebuilds the harness from /repo's working tree, runs the monitor(s) and sanitizer stages, applies known_findings.json, writes evidence, prints VIOLATION/KNOWN-FINDING/INCONCLUSIVE lines"},
        ],
        "checks": checks,
        "notes": "Technique family: runtime monitoring and sanitizers. Exit codes: 0 held on what was observed, 1 VIOLATION, 2 INCONCLUSIVE (never mapped to violation). Known findings: known_findings.json. The level texts give the core of each workload; the input classes and oracles added after the five rounds of seeded changes and the mutation sweep (scaling invariance, live-object and after-shrink histories, aliasing, oversubscribed callers, constructed dividends, offset grids, ...) are listed in DESIGN.md sections 10 and 12 and in the `rule` text of every evidence file. Calibration of detection power: 200 seeded changes in five rounds (seeded/; blind detection rates in DESIGN.md section 10), 28 hand-written mutants (tools/mutants.py), automatic mutation sweep (tools/mutsweep.py, mutation/results.jsonl).",
        "not_applicable": na,
    }
    with open(os.path.join(ROOT, "MANIFEST.json"), "w") as f:
        json.dump(m, f, indent=1)
    print("checks:", len(checks), "not claimed:", len(na))

if __name__ == "__main__":
    main()
