#!/bin/sh
# Builds both harness profiles from files on disk (offline). Run once after a fresh restore.
set -e
cd "$(dirname "$0")"
export CARGO_NET_OFFLINE=true CARGO_TARGET_DIR="$PWD/.target"
mkdir -p .work evidence/replay
( cd harness && cargo build --offline --release --quiet && cargo build --offline --profile checked --quiet )

# warm the Miri build of the C16 sanitizer workload (sysroot + crate); failure here is not fatal for the other checks
( cd miri && MIRIFLAGS="-Zmiri-num-cpus=1" CARGO_TARGET_DIR="$PWD/../.target/miri" cargo +nightly miri run --offline --quiet -- 1 1 >/dev/null 2>&1 ) || echo "warning: miri warm-up failed"
echo "setup ok"
