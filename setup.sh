#!/bin/sh
# Builds both harness profiles from files on disk (offline). Run once after a fresh restore.
set -e
cd "$(dirname "$0")"
export CARGO_NET_OFFLINE=true CARGO_TARGET_DIR="$PWD/.target"
mkdir -p .work evidence/replay
( cd harness && cargo build --offline --release --quiet && cargo build --offline --profile checked --quiet )
echo "setup ok"
